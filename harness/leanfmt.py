"""Helpers to emit Lean literals from Python values and to speak the line protocol."""
from __future__ import annotations


def lean_char(c: str) -> str:
    return f"Char.ofNat {ord(c)}"


def lean_str(s: str) -> str:
    out = ['"']
    for ch in s:
        o = ord(ch)
        if ch == '"':
            out.append('\\"')
        elif ch == "\\":
            out.append("\\\\")
        elif ch == "\n":
            out.append("\\n")
        elif ch == "\t":
            out.append("\\t")
        elif ch == "\r":
            out.append("\\r")
        elif o < 32 or o == 127:
            out.append("\\x%02x" % o)
        elif o > 126:
            out.append("\\u{%x}" % o)
        else:
            out.append(ch)
    out.append('"')
    return "".join(out)


def lean_list(items, per_line=12) -> str:
    items = list(items)
    if not items:
        return "[]"
    lines = []
    for i in range(0, len(items), per_line):
        lines.append(", ".join(items[i : i + per_line]))
    return "[" + ",\n   ".join(lines) + "]"


def cps(s: str) -> str:
    """protocol form of a string: space separated code points"""
    return " ".join(str(ord(c)) for c in s)


def uncps(s: str) -> str:
    return "".join(chr(int(t)) for t in s.split(" ")) if s else ""


def lean_int(n: int) -> str:
    return str(n) if n >= 0 else f"({n})"


def lean_rat(fr) -> str:
    from fractions import Fraction

    fr = Fraction(fr)
    if fr.denominator == 1:
        return f"({fr.numerator} : Rat)"
    return f"(({fr.numerator} : Rat) / {fr.denominator})"

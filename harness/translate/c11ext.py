"""Additive extension of py2lean used by C11 only (session 3).

`angle_truth()`: inside the context, the truth value of an *angle* parameter (`if z_rotation:` in
math/construct3d.py: basic_transformation) is the symbolic Boolean `<angle>_nz` ("the angle is not 0.0"), which the
kernel must list as an extra ("<angle>_nz", "bool") parameter (expression kernels bind every listed parameter as a
local name, so a parameter the Python code never mentions is allowed).  Nothing in py2lean.py is modified on disk;
the method is restored on exit."""
from contextlib import contextmanager

from . import py2lean as P


@contextmanager
def angle_truth():
    orig = P.Exec.decide

    def decide(self, cond, node=None):
        if isinstance(cond, P.Angle):
            cond = P.BoolV(("bv", cond.name + "_nz"))
        return orig(self, cond, node)

    P.Exec.decide = decide
    try:
        yield
    finally:
        P.Exec.decide = orig

"""Additive extension of py2lean used by C11 only (session 3).

`angle_truth()`: inside the context, the truth value of an *angle* parameter (`if z_rotation:` in
math/construct3d.py: basic_transformation) is the symbolic Boolean `<angle>_nz` ("the angle is not 0.0"), which the
kernel must list as an extra ("<angle>_nz", "bool") parameter (expression kernels bind every listed parameter as a
local name, so a parameter the Python code never mentions is allowed).  Nothing in py2lean.py is modified on disk;
the method is restored on exit."""
from contextlib import contextmanager

from . import py2lean as P


@contextmanager
def angle_truth():
    orig = P.Exec.decide

    def decide(self, cond, node=None):
        if isinstance(cond, P.Angle):
            cond = P.BoolV(("bv", cond.name + "_nz"))
        return orig(self, cond, node)

    P.Exec.decide = decide
    try:
        yield
    finally:
        P.Exec.decide = orig


@contextmanager
def list_identity():
    """inside the context (C11 growth round 2): `Vec3.generate(<list parameter of Vec3>)` is the list itself (each element
    is re-wrapped by `Vec3(v)`, which is the identity on Vec3: theorem vec_ctor_spec, kernel v3ctorV3) and
    `yield from <list parameter>` is the identity map; used for OCS.points_to_wcs / points_from_wcs"""
    orig_call, orig_expr = P.Exec.call_func, P.Exec.s_Expr

    def call_func(self, f, args, kwargs, node):
        if getattr(f.node, "name", "") == "generate" and f.cls is not None and f.cls.name == "Vec3":
            for a in args:
                if isinstance(a, P.SymList) and a.elem_type == "v3":
                    return a
        return orig_call(self, f, args, kwargs, node)

    def s_Expr(self, st, fr):
        import ast
        if isinstance(st.value, ast.YieldFrom):
            v = self.eval(st.value.value, fr)
            if isinstance(v, P.SymList) and isinstance(fr.yields, list) and not fr.yields:
                fr.yields = P.MapResult(v, "e", self.ctx.symbolic(v.elem_type, "e", self, st))
                return
        return orig_expr(self, st, fr)

    P.Exec.call_func, P.Exec.s_Expr = call_func, s_Expr
    try:
        yield
    finally:
        P.Exec.call_func, P.Exec.s_Expr = orig_call, orig_expr


@contextmanager
def acos_argument():
    """inside the context `math.acos(x)` / C `acos(x)` evaluates to its ARGUMENT: a kernel that ends in `return acos(c)` is
    translated as the (clamped) cosine c it hands to acos - the decision logic before the transcendental call"""
    orig = P.Exec.call_builtin

    def call_builtin(self, name, args, kwargs, node):
        if name in ("acos", "math.acos") and len(args) == 1:
            return args[0]
        return orig(self, name, args, kwargs, node)

    P.Exec.call_builtin = call_builtin
    try:
        yield
    finally:
        P.Exec.call_builtin = orig


class PolarAngle(P.Angle):
    """atan2(y, x) of symbolic numbers: cos = x / r, sin = y / r with r = hypot(x, y) (a square-root parameter of the
    kernel); for r = 0 (atan2(0, 0) = 0) cos = 1, sin = 0.  These are the defining identities of atan2 over the reals."""

    def __init__(self, y, x, r):
        super().__init__("polar")
        self.y, self.x, self.r = y, x, r


class SumAngle(P.Angle):
    def __init__(self, a, b):
        super().__init__("sum")
        self.a, self.b = a, b


@contextmanager
def polar_angles():
    """inside the context: `atan2(y, x)` is a PolarAngle, the sum of two angles a SumAngle whose cos/sin are expanded by the
    addition theorems, an angle multiplied by a constant (deg -> rad conversion) stays the same symbolic angle (its c_/s_
    parameters then denote cos/sin of the converted value).  Used for Vec3/Vec2.rotate, rotate_deg."""
    import ast
    orig_builtin, orig_binop = P.Exec.call_builtin, P.Exec.binop

    def trig(self, kind, a, node):
        if isinstance(a, PolarAngle):
            num = a.x if kind == "cos" else a.y
            dflt = P.ONE if kind == "cos" else P.ZERO
            return P.Num(("ite", ("==", a.r.e, P.ZERO), dflt, P.mk("/", num.e, a.r.e)))
        if isinstance(a, SumAngle):
            ca, sa = trig(self, "cos", a.a, node), trig(self, "sin", a.a, node)
            cb, sb = trig(self, "cos", a.b, node), trig(self, "sin", a.b, node)
            if kind == "cos":
                return P.Num(P.mk("-", P.mk("*", ca.e, cb.e), P.mk("*", sa.e, sb.e)))
            return P.Num(P.mk("+", P.mk("*", sa.e, cb.e), P.mk("*", ca.e, sb.e)))
        return P.Num(("v", self.ctx.trig_param(kind, a.name)))

    def call_builtin(self, name, args, kwargs, node):
        if name in ("math.atan2", "atan2") and len(args) == 2:
            y, x = self.num(args[0], node), self.num(args[1], node)
            r = self.sqrt(P.Num(P.mk("+", P.mk("*", x.e, x.e), P.mk("*", y.e, y.e))))
            return PolarAngle(y, x, r)
        if name in ("math.sin", "math.cos") and len(args) == 1 and isinstance(args[0], (PolarAngle, SumAngle)):
            return trig(self, name[5:], args[0], node)
        if name in ("math.radians", "math.degrees") and len(args) == 1 and isinstance(args[0], P.Angle):
            return args[0]  # unit conversion: the same symbolic angle
        return orig_builtin(self, name, args, kwargs, node)

    def binop(self, op, a, b, node):
        if isinstance(a, P.Angle) and isinstance(b, P.Angle) and isinstance(op, ast.Add):
            return SumAngle(a, b)
        if isinstance(a, P.Builtin) or isinstance(b, P.Builtin):
            return P.Builtin("const-expr")  # module constant built from M_PI (DEG2RAD = M_PI / 180): only ever a unit factor
        if isinstance(op, ast.Div) and isinstance(a, P.Angle) and isinstance(b, P.Num) and b.is_const:
            return a  # half angle etc.: the same symbolic angle (its t_/c_/s_ parameters denote the trig values of the quotient)
        if isinstance(op, ast.Mult):
            if isinstance(a, P.Angle) and not isinstance(b, P.Angle) and (isinstance(b, P.Builtin) or (isinstance(b, P.Num) and b.is_const)):
                return a
            if isinstance(b, P.Angle) and not isinstance(a, P.Angle) and (isinstance(a, P.Builtin) or (isinstance(a, P.Num) and a.is_const)):
                return b
        return orig_binop(self, op, a, b, node)

    P.Exec.call_builtin, P.Exec.binop = call_builtin, binop
    try:
        yield
    finally:
        P.Exec.call_builtin, P.Exec.binop = orig_builtin, orig_binop

"""T-ast for C16 (session 3): every copy method of src/ezdxf/entities as a program of the recipe language of
lean/EzdxfVerif/Model/HeapRecipe.lean.

Python side representation
  Pol   ("deep",) | ("alias",) | ("ents",) | ("const", what) | ("gen", i) | ("each", Pol) | ("fields", [(attr, Pol), ...])
        what = ("none",) | ("init",) | ("value", v) | ("fresh", cls)
  PPol  ("one", Pol) | ("cond", Test, Pol, Pol)        Test = ("notNone",) | ("nonEmpty", [child indices])
A construct outside the subset raises Untranslatable: the caller lists the method under `untranslated`, which breaks the
counted theorem `recipes_complete` (the method is never skipped silently).

`samples(cls, attr)` -> observed values of instance attribute `attr` (populated instances of the harness): the
translator uses them only to resolve WHICH method `x.copy()` / `copy.copy(x)` calls (dynamic dispatch).
"""
from __future__ import annotations

import ast
import inspect
import textwrap

DEEP, ALIAS, ENTS = ("deep",), ("alias",), ("ents",)
NONE_C, INIT_C = ("const", ("none",)), ("const", ("init",))
SHALLOW = ("each", ALIAS)
CONTAINER_CTORS = ("list", "dict", "tuple", "set", "Tags")


class Untranslatable(Exception):
    pass


class NeedVariant(Exception):
    """`if self.dxf.<attr>:` at the top of a copy_data method: the class has one recipe per truth value"""

    def __init__(self, attr):
        super().__init__(attr)
        self.attr = attr


def fn_ast(fn) -> ast.FunctionDef:
    fn = getattr(fn, "__func__", fn)
    src = textwrap.dedent(inspect.getsource(fn))
    return ast.parse(src).body[0]


def body_of(fd: ast.FunctionDef):
    """statements without docstring, asserts, pass"""
    out = []
    for st in fd.body:
        if isinstance(st, ast.Expr) and isinstance(st.value, ast.Constant):
            continue
        if isinstance(st, (ast.Assert, ast.Pass)):
            continue
        out.append(st)
    return out


def is_attr_of(node, who):
    return isinstance(node, ast.Attribute) and isinstance(node.value, ast.Name) and node.value.id == who


def find_def(cls, name):
    """(owner class, function) of method / property `name` along the MRO, python source only"""
    for k in cls.__mro__:
        if name in vars(k):
            return k, vars(k)[name]
    return None, None


def simple_getter(cls, name):
    """attribute returned by method or property `name`: the last statement is `return self.<attr>` or `return <local>`
    with `<local> = self.<attr>`; other statements may only be asserts, a lazy load of the same attribute or a docstring"""
    k, f = find_def(cls, name)
    if f is None:
        return None
    if isinstance(f, property):
        f = f.fget
    if not inspect.isfunction(f):
        return None
    try:
        st = body_of(fn_ast(f))
    except (OSError, TypeError):
        return None
    if not st or not isinstance(st[-1], ast.Return):
        return None
    v = st[-1].value
    local = {}
    for s in st[:-1]:
        if isinstance(s, ast.Assign) and len(s.targets) == 1 and isinstance(s.targets[0], ast.Name) and is_attr_of(s.value, "self"):
            local[s.targets[0].id] = s.value.attr
        elif isinstance(s, ast.If) and not s.orelse and all(
                isinstance(b, ast.Assign) and len(b.targets) == 1 and is_attr_of(b.targets[0], "self") for b in s.body):
            pass  # lazy load (`if len(self._sab) == 0: self._sab = ...`): documented on-demand loading of the source
        else:
            return None
    if is_attr_of(v, "self"):
        return v.attr
    if isinstance(v, ast.Name) and v.id in local:
        return local[v.id]
    return None


def simple_setter(cls, name):
    """-> ([(attr, 'param' | 'container' | ('value', v))]) for a method / property setter whose body is a list of
    `self.<attr> = <param> | tuple(<param>) | <constant>`"""
    k, f = find_def(cls, name)
    if f is None:
        return None
    if isinstance(f, property):
        f = f.fset
    if not inspect.isfunction(f):
        return None
    try:
        fd = fn_ast(f)
    except (OSError, TypeError):
        return None
    params = [a.arg for a in fd.args.args[1:]]
    if len(params) != 1:
        return None
    out = []
    for s in body_of(fd):
        if not (isinstance(s, ast.Assign) and len(s.targets) == 1 and is_attr_of(s.targets[0], "self")):
            return None
        v = s.value
        if isinstance(v, ast.Name) and v.id == params[0]:
            out.append((s.targets[0].attr, "param"))
        elif (isinstance(v, ast.Call) and isinstance(v.func, ast.Name) and v.func.id in CONTAINER_CTORS and len(v.args) == 1
              and isinstance(v.args[0], ast.Name) and v.args[0].id == params[0]):
            out.append((s.targets[0].attr, "container"))
        elif isinstance(v, ast.Constant):
            out.append((s.targets[0].attr, ("value", v.value)))
        else:
            return None
    return out


def state_by_reference(T) -> bool:
    """copy.copy(x) for a class without __copy__: does the copy share the attribute dict of x (read from the source of
    __getstate__ / __setstate__)"""
    _, gs = find_def(T, "__getstate__")
    _, ss = find_def(T, "__setstate__")
    if not inspect.isfunction(gs) or not inspect.isfunction(ss):
        return False
    try:
        g = [ast.unparse(x) for x in body_of(fn_ast(gs))]
        st = [ast.unparse(x) for x in body_of(fn_ast(ss))]
    except (OSError, TypeError):
        return False
    hands_dict = g == ["return self.__dict__"]
    param = fn_ast(ss).args.args[1].arg if len(fn_ast(ss).args.args) > 1 else "state"
    installs = any(x in (f"object.__setattr__(self, '__dict__', {param})", f"self.__dict__ = {param}") for x in st)
    return hands_dict and installs


NUMPY_COPY = ("np.array", "numpy.array", "np.copy", "numpy.copy")
NUMPY_ALIAS = ("np.asarray", "numpy.asarray", "np.asanyarray", "numpy.asanyarray")


def ctor_stores(cls):
    """-> {param: (attr, 'param'|'container')} for `__init__(self, p)` storing `self.a = p | list(p) | set(p or [])`"""
    k, f = find_def(cls, "__init__")
    if not inspect.isfunction(f):
        return {}
    try:
        fd = fn_ast(f)
    except (OSError, TypeError):
        return {}
    params = [a.arg for a in fd.args.args[1:]]
    out = {}
    via_local = {}  # local name -> (param, 'copy' | 'asarray'): values = np.array(data, ...) / np.asarray(data, ...)
    for s in ast.walk(fd):
        if isinstance(s, ast.Assign) and len(s.targets) == 1 and isinstance(s.targets[0], ast.Name) and isinstance(s.value, ast.Call):
            ftxt = ast.unparse(s.value.func)
            a0 = s.value.args[0] if s.value.args else None
            if isinstance(a0, ast.Name) and a0.id in params and ftxt in NUMPY_COPY + NUMPY_ALIAS:
                via_local[s.targets[0].id] = (a0.id, "copy" if ftxt in NUMPY_COPY else "asarray")
    for s in ast.walk(fd):
        if isinstance(s, (ast.Assign, ast.AnnAssign)):
            t = s.targets[0] if isinstance(s, ast.Assign) else s.target
            v = s.value
            if v is None or not is_attr_of(t, "self"):
                continue
            if isinstance(v, ast.Name) and v.id in via_local:
                out[via_local[v.id][0]] = (t.attr, via_local[v.id][1])
                continue
            names = {n.id for n in ast.walk(v) if isinstance(n, ast.Name)}
            used = [p for p in params if p in names]
            if len(used) != 1:
                continue
            if isinstance(v, ast.Name):
                out[used[0]] = (t.attr, "param")
            else:
                out[used[0]] = (t.attr, "container")  # list(...), set(p or []), list(e for e in p if ...), `[...] if p else []`
    return out


class Translator:
    def __init__(self, samples, is_entity, is_opaque_value, generators=None):
        """samples(owner_cls, attr) -> list of observed values; is_entity(type) ; is_opaque_value(type): instances are
        leaves with a value (Matrix44, arrays): `x.copy()` makes a new object"""
        self.samples = samples
        self.is_entity = is_entity
        self.is_opaque = is_opaque_value
        self.helpers = {}      # (cls, method) -> Pol   (helper classes translated on the way)
        self.generators = []   # (class name, part, source text of the generator call)
        self.used_methods = set()  # (class name, method) every method body that went into a recipe

    # ------------------------------------------------------------------ entity classes
    def recipe(self, cls, assume=None):
        """-> {'parts': {attr: PPol}, 'nsdrop': [(name, Test|None, bool)], 'copy_override': bool}
        raises NeedVariant / Untranslatable"""
        st = _State(self, cls, assume or {})
        chain = [k for k in cls.__mro__ if "copy_data" in vars(k)]
        if chain:
            st.run_copy_data(chain, 0)
        # copy() override of an entity class: super().copy() + namespace discards
        over = [k for k in cls.__mro__ if "copy" in vars(k) and k.__name__ not in ("DXFEntity",) and k is not object]
        co = False
        for k in over:
            fd = fn_ast(vars(k)["copy"])
            self.used_methods.add((k.__name__, "copy"))
            body = body_of(fd)
            if len(body) == 1 and isinstance(body[0], ast.Raise):
                raise Untranslatable("raises")  # not copyable: handled by the caller
            co = True
            var = None
            for s in body:
                txt = ast.unparse(s)
                if isinstance(s, (ast.Assign, ast.AnnAssign)) and ast.unparse(s.value).startswith("super().copy("):
                    var = (s.targets[0] if isinstance(s, ast.Assign) else s.target).id
                elif (isinstance(s, ast.Expr) and isinstance(s.value, ast.Call) and var and txt.startswith(f"{var}.dxf.discard(")
                      and isinstance(s.value.args[0], ast.Constant)):
                    st.nsdrop.append((s.value.args[0].value, None, True))
                elif isinstance(s, ast.Return) and isinstance(s.value, ast.Name) and s.value.id == var:
                    pass
                else:
                    raise Untranslatable(f"{k.__name__}.copy: statement {txt[:50]}")
        return {"parts": st.finish(), "nsdrop": st.nsdrop, "copy_override": co}

    # ------------------------------------------------------------------ helper classes
    def helper(self, T, method, values):
        key = (T, method)
        if key in self.helpers:
            if self.helpers[key] is None:
                raise Untranslatable(f"{T.__name__}.{method}: recursive")
            return self.helpers[key]
        self.helpers[key] = None
        k, f = find_def(T, method)
        if not inspect.isfunction(f):
            raise Untranslatable(f"{T.__name__}.{method}: no python source")
        self.used_methods.add((k.__name__, f.__name__))
        fd = fn_ast(f)
        pol = self._helper_body(T, fd, values)
        self.helpers[key] = pol
        return pol

    def attrs_of(self, T, values):
        """slot names of instances of T in `children()` order (__dict__ insertion order, then __slots__)"""
        names = []
        for v in list(values) + [self._blank(T)]:
            if v is None:
                continue
            d = getattr(v, "__dict__", None)
            if isinstance(d, dict):
                names += [n for n in d if n not in names]
            for kls in type(v).__mro__:
                s = kls.__dict__.get("__slots__", ())
                s = (s,) if isinstance(s, str) else s
                names += [n for n in s if n not in names and n not in ("__dict__", "__weakref__")]
        return names

    def _blank(self, T):
        try:
            return T()
        except Exception:
            return None

    def _helper_body(self, T, fd, values):
        body = body_of(fd)
        fields = {}
        var = None
        local_helpers = {}
        for s in body:
            txt = ast.unparse(s)
            if isinstance(s, ast.FunctionDef):
                local_helpers[s.name] = s
                continue
            if isinstance(s, ast.Assign) and len(s.targets) == 1 and isinstance(s.targets[0], ast.Name) and var is None:
                v = s.value
                # clone = self.__class__() | T() | self.other_copy_method()
                if isinstance(v, ast.Call) and not v.args and not v.keywords:
                    ftxt = ast.unparse(v.func)
                    if ftxt in ("self.__class__", T.__name__) or ftxt in [k.__name__ for k in T.__mro__]:
                        var = s.targets[0].id
                        continue
                    if ftxt.startswith("self.") and ftxt.count(".") == 1:
                        base = self.helper(T, ftxt[5:], values)
                        if base[0] != "fields":
                            raise Untranslatable(f"{T.__name__}: base copy {ftxt} is not field wise")
                        fields = dict(base[1])
                        var = s.targets[0].id
                        continue
                # x = copy_strategy.copy(self.a) ... return K(x)
                if isinstance(v, ast.Call):
                    local_helpers[s.targets[0].id] = v
                    continue
                raise Untranslatable(f"{T.__name__}: statement {txt[:50]}")
            if isinstance(s, ast.Assign) and len(s.targets) == 1 and var and is_attr_of(s.targets[0], var):
                a = s.targets[0].attr
                fields[a] = self.expr_pol(T, a, s.value, {}, local_helpers, values_of=lambda attr: [getattr(x, attr, None) for x in values if x is not None])
                continue
            if isinstance(s, ast.If) and not s.orelse and var and ast.unparse(s.test).endswith("is not None") and all(
                    isinstance(b, ast.Assign) and len(b.targets) == 1 and is_attr_of(b.targets[0], var) for b in s.body):
                for b in s.body:  # `if self.a is not None: clone.a = f(self.a)`: f(None) = None = the default
                    a = b.targets[0].attr
                    if ast.unparse(s.test) != f"self.{a} is not None" or getattr(self._blank(T), a, 0) is not None:
                        raise Untranslatable(f"{T.__name__}: conditional field {a}")
                    fields[a] = self.expr_pol(T, a, b.value, {}, local_helpers, values_of=lambda attr: [getattr(x, attr, None) for x in values if x is not None])
                continue
            if isinstance(s, ast.Return):
                v = s.value
                if isinstance(v, ast.Name) and v.id == var:
                    break
                # return K(self.a) / return K(local)
                if isinstance(v, ast.Call) and var is None and ((len(v.args) == 1 and not v.keywords) or (
                        not v.args and len(v.keywords) == 1 and v.keywords[0].arg in ctor_stores(T))):
                    if v.keywords:
                        v = ast.Call(func=v.func, args=[v.keywords[0].value], keywords=[])
                    kname = ast.unparse(v.func)
                    if kname in [k.__name__ for k in T.__mro__] or kname == "self.__class__":
                        stores = ctor_stores(T)
                        if len(stores) >= 1:
                            (attr, how), = list(stores.values())[:1]
                            arg = v.args[0]
                            if isinstance(arg, ast.Name) and arg.id in local_helpers:
                                arg = local_helpers[arg.id]
                            src_attr = attr
                            inner = self.expr_pol(T, src_attr, arg, {}, local_helpers,
                                                  values_of=lambda a: [getattr(x, a, None) for x in values if x is not None])
                            if how == "container":
                                if inner == ALIAS:
                                    inner = SHALLOW
                                elif inner[0] not in ("each",):
                                    raise Untranslatable(f"{T.__name__}: constructor argument {ast.unparse(arg)[:40]}")
                            elif how == "copy":      # np.array(x): a new buffer
                                if inner != ALIAS:
                                    raise Untranslatable(f"{T.__name__}: np.array of {ast.unparse(arg)[:40]}")
                                inner = DEEP
                            elif how == "asarray":   # np.asarray(x) of an ndarray: the very same buffer
                                if inner != ALIAS:
                                    raise Untranslatable(f"{T.__name__}: np.asarray of {ast.unparse(arg)[:40]}")
                            fields[attr] = inner
                            var = "<ctor>"
                            break
                # return self.copy(...) : delegation to another copy method of the same class
                if isinstance(v, ast.Call) and ast.unparse(v.func).startswith("self.") and ast.unparse(v.func).count(".") == 1:
                    return self.helper(T, ast.unparse(v.func)[5:], values)
                if isinstance(v, ast.Name) and v.id == "self":
                    return ("const", ("self",))
                raise Untranslatable(f"{T.__name__}: return {ast.unparse(v)[:50]}")
            raise Untranslatable(f"{T.__name__}: statement {txt[:50]}")
        if var is None:
            raise Untranslatable(f"{T.__name__}.{fd.name}: no clone object")
        names = self.attrs_of(T, values)
        unknown = [a for a in fields if a not in names]
        if unknown:
            raise Untranslatable(f"{T.__name__}.{fd.name}: assigns unknown attributes {unknown}")
        return ("fields", [(a, fields.get(a, ("const", ("initof", T, a)))) for a in names])

    # ------------------------------------------------------------------ expressions
    def copy_call(self, values, how, where):
        """policy of `x.copy()` (how='copy'), `x.deep_copy()`, `copy.copy(x)` (how='__copy__') for the observed values of x"""
        pols = []
        types = []
        for v in values:
            if v is None or type(v) in types:
                continue
            types.append(type(v))
        if not types:
            raise Untranslatable(f"{where}: no populated sample to resolve .{how}()")
        for T in types:
            vs = [v for v in values if type(v) is T]
            if self.is_entity(T):
                if how != "copy":
                    raise Untranslatable(f"{where}: {how} of an entity")
                pols.append(ENTS)
            elif T in (list, dict, set) or (issubclass(T, (list, dict, set)) and find_def(T, how)[1] is None):
                pols.append(SHALLOW)
            elif self.is_opaque(T):
                pols.append(DEEP)
            else:
                k, f = find_def(T, how)
                if f is None and how == "__copy__":
                    # generic copy.copy(): __reduce_ex__ -> state = __getstate__(); a new object gets the state by
                    # __setstate__(state) or __dict__.update(state).  A class whose __getstate__ returns self.__dict__ ITSELF and
                    # whose __setstate__ installs the state object as the new __dict__ (DXFNamespace) yields a second wrapper
                    # around the SAME attribute dict: the state is passed by reference
                    pols.append(ALIAS if state_by_reference(T) else SHALLOW)
                elif f is None:
                    raise Untranslatable(f"{where}: {T.__name__} has no method {how}")
                else:
                    pols.append(self.helper(T, how, vs))
        for p in pols[1:]:
            if p != pols[0]:
                raise Untranslatable(f"{where}: .{how}() resolves to different recipes for {[t.__name__ for t in types]}")
        return pols[0]

    def expr_pol(self, owner, part, v, local, local_helpers, values_of, item=None):
        """Pol of expression `v` computing the new value of attribute `part` of `owner`.
        local: name -> ast (substituted); item: (loop variable, values of the items) inside a comprehension"""
        where = f"{owner.__name__}.{part}"

        def is_src(node):
            """does `node` denote the source value of this part (self.part, a property of it, or the loop variable)"""
            if item is not None and isinstance(node, ast.Name) and node.id == item[0]:
                return True
            if is_attr_of(node, "self"):
                if node.attr == part:
                    return True
                return simple_getter(owner, node.attr) == part and not hasattr(self._blank(owner) or object(), "__dict__") or (
                    simple_getter(owner, node.attr) == part)
            return False

        def src_values():
            return item[1] if item is not None else values_of(part)

        while isinstance(v, ast.Name) and v.id in local:
            v = local[v.id]
        if isinstance(v, ast.Constant):
            return NONE_C if v.value is None else ("const", ("value", v.value))
        if is_src(v):
            return ALIAS
        if is_attr_of(v, "self"):
            raise Untranslatable(f"{where} = self.{v.attr}: value of another attribute")
        if is_attr_of(v, "entity") and v.attr == part:
            return ("const", ("initof", owner, part))
        if isinstance(v, ast.IfExp):
            # `None if m is None else m.copy()`
            t = ast.unparse(v.test)
            if t.endswith(" is None") and isinstance(v.body, ast.Constant) and v.body.value is None:
                return self.expr_pol(owner, part, v.orelse, local, local_helpers, values_of, item)
            raise Untranslatable(f"{where}: conditional expression {ast.unparse(v)[:40]}")
        if isinstance(v, (ast.ListComp, ast.GeneratorExp)):
            if len(v.generators) != 1 or v.generators[0].ifs or not isinstance(v.generators[0].target, ast.Name):
                raise Untranslatable(f"{where}: comprehension {ast.unparse(v)[:40]}")
            it = v.generators[0].iter
            if not is_src(it):
                raise Untranslatable(f"{where}: comprehension over {ast.unparse(it)[:30]}")
            items = []
            for c in src_values():
                if c is None:
                    continue
                try:
                    items += list(c.values()) if isinstance(c, dict) else list(c)
                except TypeError:
                    pass
            inner = self.expr_pol(owner, part, v.elt, local, local_helpers, values_of, item=(v.generators[0].target.id, items))
            return ("each", inner)
        if isinstance(v, ast.Call):
            f = v.func
            fname = f.id if isinstance(f, ast.Name) else (f.attr if isinstance(f, ast.Attribute) else None)
            arg = v.args[0] if len(v.args) == 1 and not v.keywords else None
            if isinstance(arg, ast.Name) and arg.id in local:
                arg = local[arg.id]
            ftxt = ast.unparse(f)
            if ftxt in ("deepcopy", "copy.deepcopy") and arg is not None:
                if is_src(arg):
                    return DEEP
                raise Untranslatable(f"{where}: deepcopy of {ast.unparse(arg)[:30]}")
            if ftxt in CONTAINER_CTORS + ("Vec3.list", "Vec2.list", "Vec3.tuple") and arg is not None:
                if is_src(arg):
                    return SHALLOW
                if is_attr_of(arg, "entity") and arg.attr == part:
                    return ("const", ("initof", owner, part))
                inner = self.expr_pol(owner, part, arg, local, local_helpers, values_of, item)
                if inner[0] == "each":
                    return inner
                raise Untranslatable(f"{where}: {ftxt}({ast.unparse(arg)[:30]})")
            if ftxt == "copy_strategy.copy" and arg is not None and is_src(arg):
                return ENTS
            if ftxt == "copy.copy" and arg is not None and is_src(arg):
                return self.copy_call(src_values(), "__copy__", where)
            if isinstance(f, ast.Attribute) and isinstance(f.value, ast.Name) and f.value.id in local:
                f = ast.Attribute(value=local[f.value.id], attr=f.attr, ctx=f.ctx)
            if isinstance(f, ast.Attribute) and f.attr in ("copy", "deep_copy", "shallow_copy", "clone") and is_src(f.value):
                kw_ok = all(k.arg == "copy_strategy" for k in v.keywords)
                if (not v.args or (len(v.args) == 1 and ast.unparse(v.args[0]) == "copy_strategy")) and kw_ok:
                    return self.copy_call(src_values(), f.attr, where)
            if isinstance(f, ast.Name) and f.id in local_helpers and arg is not None and is_src(arg):
                h = local_helpers[f.id]
                if isinstance(h, ast.FunctionDef):
                    hb = body_of(h)
                    p = h.args.args[0].arg
                    if len(hb) == 1 and isinstance(hb[0], ast.Return):
                        return self.expr_pol(owner, part, hb[0].value, {**local, p: arg}, local_helpers, values_of, item)
                raise Untranslatable(f"{where}: local helper {f.id}")
            if not v.args and not v.keywords and isinstance(f, ast.Name) and f.id[:1].isupper():
                return ("const", ("fresh", f.id, owner))
            # K(<comprehension over the source>) for a wrapper class K that stores list(arg) in one attribute
            if isinstance(f, ast.Name) and f.id[:1].isupper() and arg is not None:
                vals = [x for x in src_values() if x is not None]
                K = type(vals[0]) if vals else None
                if isinstance(arg, (ast.ListComp, ast.GeneratorExp)) and K is not None and K.__name__ == f.id:
                    stores = ctor_stores(K)
                    if len(stores) == 1:
                        (attr, how), = stores.values()
                        names = self.attrs_of(K, vals)
                        gen = arg.generators[0]
                        if how == "container" and names == [attr] and len(arg.generators) == 1 and not gen.ifs and is_src(gen.iter):
                            items = [e for x in vals for e in getattr(x, attr)]
                            inner = self.expr_pol(owner, part, arg.elt, local, local_helpers, values_of, item=(gen.target.id, items))
                            return ("fields", [(attr, ("each", inner))])
                # K(self.x) for a wrapper K over a wrapper value: a new K whose list holds the very same items
                if K is not None and K.__name__ == f.id and is_src(arg):
                    stores = ctor_stores(K)
                    if len(stores) == 1:
                        (attr, how), = stores.values()
                        if how == "container" and self.attrs_of(K, vals) == [attr]:
                            return ("fields", [(attr, SHALLOW)])
                # K(self.generator_method())
                if (isinstance(arg, ast.Call) and not arg.args and not arg.keywords and is_attr_of(arg.func, "self")
                        and inspect.isgeneratorfunction(getattr(owner, arg.func.attr, None)) or
                        (isinstance(arg, ast.Call) and not arg.args and is_attr_of(arg.func, "self")
                         and arg.func.attr in ("virtual_entities",))):
                    self.generators.append((owner.__name__, part, f"{f.id}({ast.unparse(arg)})"))
                    return ("gen", len([g for g in self.generators if g[0] == owner.__name__]) - 1)
        raise Untranslatable(f"{where} = {ast.unparse(v)[:50]}")


class _State:
    def __init__(self, tr: Translator, cls, assume):
        self.tr, self.cls, self.assume = tr, cls, assume
        self.parts = {}      # attr -> PPol | ("building", K, {field: Pol})
        self.nsdrop = []
        self.local = {}
        self.local_helpers = {}
        self.blank = tr._blank(cls)

    def values_of(self, attr):
        return self.tr.samples(self.cls, attr)

    # -- part resolution through properties
    def target(self, name):
        """`entity.<name> = value` -> [(attr, 'param'|'container'|('value', v))]"""
        if isinstance(inspect.getattr_static(self.cls, name, None), property):
            r = simple_setter(self.cls, name)
            if r is None:
                raise Untranslatable(f"{self.cls.__name__}: property setter {name} is not a plain store")
            return r
        return [(name, "param")]

    def run_copy_data(self, chain, i):
        k = chain[i]
        self.tr.used_methods.add((k.__name__, "copy_data"))
        fd = fn_ast(vars(k)["copy_data"])
        self.walk(body_of(fd), chain, i)

    def walk(self, stmts, chain, i, guard=()):
        for st in stmts:
            txt = ast.unparse(st)
            if isinstance(st, ast.FunctionDef):
                self.local_helpers[st.name] = st
                continue
            if isinstance(st, ast.Expr) and isinstance(st.value, ast.Call):
                c = st.value
                if txt.startswith("super().copy_data("):
                    if i + 1 < len(chain):
                        self.run_copy_data(chain, i + 1)
                    continue
                if txt.startswith("entity.dxf.discard(") and c.args and isinstance(c.args[0], ast.Constant):
                    self.nsdrop.append((c.args[0].value, None, True))
                    continue
                # entity.<part>.<setter>(<local>.copy()) on a part that was assigned a fresh object in this method
                f = c.func
                if (isinstance(f, ast.Attribute) and is_attr_of(f.value, "entity") and len(c.args) == 1 and not c.keywords
                        and isinstance(self.parts.get(f.value.attr), tuple) and self.parts[f.value.attr][0] == "building"):
                    part = f.value.attr
                    _, K, fields = self.parts[part]
                    sets = simple_setter(K, f.attr)
                    arg = c.args[0]
                    if sets and len(sets) == 1 and sets[0][1] == "param" and isinstance(arg, ast.Call) and isinstance(arg.func, ast.Attribute) \
                            and arg.func.attr == "copy" and not arg.args and isinstance(arg.func.value, ast.Name):
                        lname = arg.func.value.id
                        bound = self.local.get(lname)
                        field = sets[0][0]
                        # <local> = self.<part>.<getter>() with getter returning the same field
                        if (isinstance(bound, ast.Call) and not bound.args and isinstance(bound.func, ast.Attribute)
                                and is_attr_of(bound.func.value, "self") and bound.func.value.attr == part
                                and simple_getter(K, bound.func.attr) == field
                                and (lname in guard) and getattr(self.tr._blank(K), field, 0) is None):
                            vals = [getattr(x, field, None) for x in self.values_of(part) if x is not None]
                            fields[field] = self.tr.copy_call(vals, "copy", f"{self.cls.__name__}.{part}.{field}") if any(
                                v is not None for v in vals) else DEEP
                            continue
                raise Untranslatable(f"{self.cls.__name__}.copy_data: statement {txt[:60]}")
            if isinstance(st, ast.Assign) and len(st.targets) == 1:
                t = st.targets[0]
                if isinstance(t, ast.Name) and t.id not in ("entity", "self"):
                    self.local[t.id] = st.value
                    continue
                if isinstance(t, ast.Attribute) and ast.unparse(t.value) == "entity.dxf":
                    v = st.value
                    if isinstance(v, ast.Constant) or (isinstance(v, ast.Call) and not v.args and ast.unparse(v.func) in ("guid",)):
                        self.nsdrop.append((t.attr, None, True))
                        continue
                    raise Untranslatable(f"{self.cls.__name__}.copy_data: entity.dxf.{t.attr} = {ast.unparse(v)[:40]}")
                if is_attr_of(t, "entity"):
                    self.assign(t.attr, st.value)
                    continue
            if isinstance(st, ast.AnnAssign) and isinstance(st.target, ast.Name) and st.value is not None:
                self.local[st.target.id] = st.value
                continue
            if isinstance(st, ast.If):
                self.branch(st, chain, i, guard)
                continue
            if isinstance(st, ast.For):
                self.dict_loop(st)
                continue
            raise Untranslatable(f"{self.cls.__name__}.copy_data: statement {txt[:60]}")

    def assign(self, name, value):
        v = value
        while isinstance(v, ast.Name) and v.id in self.local and not isinstance(self.local[v.id], tuple):
            v = self.local[v.id]
        targets = self.target(name)
        for attr, how in targets:
            if isinstance(how, tuple):
                self.parts[attr] = ("one", ("const", how))
                continue
            if isinstance(v, ast.Name) and isinstance(self.local.get(v.id), tuple):
                tag = self.local[v.id]
                if tag[0] == "dictloop":
                    self.parts[attr] = ("one", tag[1])
                    continue
                _, test, e1, e2 = tag  # value bound differently in the two branches of an if
                p1 = self.tr.expr_pol(self.cls, attr, e1, self.local, self.local_helpers, self.values_of)
                p2 = self.tr.expr_pol(self.cls, attr, e2, self.local, self.local_helpers, self.values_of)
                self.parts[attr] = ("cond", self.test_of(test, attr), p1, p2)
                continue
            # entity.x = K(): a fresh object that the following statements may fill
            if isinstance(v, ast.Call) and not v.args and not v.keywords and isinstance(v.func, ast.Name) and v.func.id[:1].isupper():
                K = self.resolve_class(v.func.id)
                if K is not None:
                    self.parts[attr] = ("building", K, {})
                    continue
            pol = self.tr.expr_pol(self.cls, attr, v, self.local, self.local_helpers, self.values_of)
            if how == "container":
                if pol == ALIAS:
                    pol = SHALLOW
                elif pol[0] != "each":
                    raise Untranslatable(f"{self.cls.__name__}.{attr}: setter stores a container of {pol}")
            self.parts[attr] = ("one", pol)

    def resolve_class(self, name):
        import sys
        for k in self.cls.__mro__:
            mod = sys.modules.get(k.__module__)
            K = getattr(mod, name, None)
            if isinstance(K, type):
                return K
        return None

    def test_of(self, test, attr):
        """Test on the source value of part `attr`"""
        txt = ast.unparse(test)
        vals = [v for v in self.values_of(attr) if v is not None]
        if txt == f"self.{attr}" or (is_attr_of(test, "self") and simple_getter(self.cls, test.attr) == attr):
            T = type(vals[0]) if vals else None
            if T is None:
                return ("notNone",)
            if isinstance(vals[0], (list, dict, tuple, set)):
                return ("nonEmpty", [])
            if hasattr(T, "__len__"):
                names = self.tr.attrs_of(T, vals)
                if len(names) == 1 and isinstance(getattr(vals[0], names[0]), list):
                    return ("nonEmpty", [0])
                raise Untranslatable(f"{self.cls.__name__}: truthiness of {T.__name__}")
            return ("notNone",)
        if txt == f"self.{attr} is not None":
            return ("notNone",)
        # property that tests the attribute: `return self.<attr> is not None`
        if is_attr_of(test, "self"):
            k, f = find_def(self.cls, test.attr)
            if isinstance(f, property):
                b = body_of(fn_ast(f.fget))
                if len(b) == 1 and isinstance(b[0], ast.Return) and ast.unparse(b[0].value) == f"self.{attr} is not None":
                    return ("notNone",)
        raise Untranslatable(f"{self.cls.__name__}: condition {txt[:40]} on part {attr}")

    def branch(self, st, chain, i, guard):
        txt = ast.unparse(st.test)
        # class variant: `if self.dxf.<attr>:`
        if isinstance(st.test, ast.Attribute) and ast.unparse(st.test.value) == "self.dxf":
            a = st.test.attr
            if a not in self.assume:
                raise NeedVariant(a)
            self.walk(st.body if self.assume[a] else st.orelse, chain, i, guard)
            return
        # `if <local> is not None:` without else: the body runs guarded
        if (not st.orelse and isinstance(st.test, ast.Compare) and isinstance(st.test.left, ast.Name) and txt.endswith(" is not None")):
            self.walk(st.body, chain, i, guard + (st.test.left.id,))
            return
        before_parts, before_local, before_ns = dict(self.parts), dict(self.local), list(self.nsdrop)
        self.walk(st.body, chain, i, guard)
        p1, l1, n1 = self.parts, self.local, self.nsdrop
        self.parts, self.local, self.nsdrop = dict(before_parts), dict(before_local), list(before_ns)
        self.walk(st.orelse, chain, i, guard)
        p2, l2, n2 = self.parts, self.local, self.nsdrop
        merged = {}
        for a in list(p1) + [a for a in p2 if a not in p1]:
            x, y = p1.get(a), p2.get(a)
            if x == y:
                merged[a] = x
                continue
            x = x or ("one", ("const", ("initof", self.cls, a)))
            y = y or ("one", ("const", ("initof", self.cls, a)))
            if x[0] != "one" or y[0] != "one":
                raise Untranslatable(f"{self.cls.__name__}: nested conditions on part {a}")
            merged[a] = ("cond", self.test_of(st.test, a), x[1], y[1])
        self.parts = merged
        self.local = dict(before_local)
        for nme in list(l1) + [n for n in l2 if n not in l1]:
            e1, e2 = l1.get(nme), l2.get(nme)
            if e1 is e2 or (e1 is not None and e2 is not None and not isinstance(e1, tuple) and not isinstance(e2, tuple)
                            and ast.dump(e1) == ast.dump(e2)):
                self.local[nme] = e1
            elif e1 is None or e2 is None or isinstance(e1, tuple) or isinstance(e2, tuple):
                raise Untranslatable(f"{self.cls.__name__}: local {nme} bound in one branch only")
            else:
                self.local[nme] = ("cond", st.test, e1, e2)
        self.nsdrop = list(before_ns)
        for nme, t, w in n1[len(before_ns):]:
            self.nsdrop.append((nme, st.test, True))
        for nme, t, w in n2[len(before_ns):]:
            self.nsdrop.append((nme, st.test, False))

    def dict_loop(self, st):
        """for key, ent in self.items(): [if isinstance(ent, DXFEntity):] [try:] data[key] = ent.copy(copy_strategy=...)
        with `data` a local empty dict: a new dict whose entity values are copied by the strategy"""
        if not (isinstance(st.target, ast.Tuple) and len(st.target.elts) == 2 and ast.unparse(st.iter) in ("self.items()", "self._data.items()")):
            raise Untranslatable(f"{self.cls.__name__}.copy_data: loop {ast.unparse(st)[:50]}")
        kname, vname = (e.id for e in st.target.elts)
        body = st.body
        if len(body) == 1 and isinstance(body[0], ast.If) and not body[0].orelse and ast.unparse(body[0].test) == f"isinstance({vname}, DXFEntity)":
            body = body[0].body
        if len(body) == 1 and isinstance(body[0], ast.Try):
            tr = body[0]
            for h in tr.handlers:  # the handler may log or re-raise, not store anything
                for n in ast.walk(h):
                    if isinstance(n, (ast.Assign, ast.AugAssign)):
                        raise Untranslatable(f"{self.cls.__name__}.copy_data: assignment in exception handler")
            body = tr.body
        if len(body) != 1 or not isinstance(body[0], ast.Assign):
            raise Untranslatable(f"{self.cls.__name__}.copy_data: loop body {ast.unparse(st.body[0])[:60]}")
        a = body[0]
        t = a.targets[0]
        if not (isinstance(t, ast.Subscript) and isinstance(t.value, ast.Name) and ast.unparse(t.slice) == kname):
            raise Untranslatable(f"{self.cls.__name__}.copy_data: loop assignment {ast.unparse(a)[:60]}")
        dname = t.value.id
        init = self.local.get(dname)
        if init is None or ast.unparse(init) not in ("dict()", "{}"):
            raise Untranslatable(f"{self.cls.__name__}.copy_data: {dname} is not a new dict")
        v = a.value
        if not (isinstance(v, ast.Call) and ast.unparse(v.func) == f"{vname}.copy" and not v.args
                and all(k.arg == "copy_strategy" for k in v.keywords)):
            raise Untranslatable(f"{self.cls.__name__}.copy_data: loop stores {ast.unparse(v)[:50]}")
        self.local[dname] = ("dictloop", ("each", ENTS))

    def finish(self):
        out = {}
        for a, p in self.parts.items():
            if p[0] == "building":
                _, K, fields = p
                names = self.tr.attrs_of(K, [x for x in self.values_of(a) if type(x) is K])
                if not fields:
                    out[a] = ("one", ("const", ("fresh", K.__name__, self.cls)))
                else:
                    out[a] = ("one", ("fields", [(n, fields.get(n, ("const", ("initof", K, n)))) for n in names]))
            else:
                out[a] = p
        return out


# ---------------------------------------------------------------------------------- scanner
COPY_NAMES = ("copy_data", "copy", "__copy__", "__deepcopy__", "deep_copy", "shallow_copy")
PROTOCOL_NAMES = ("__deepcopy__", "__reduce__", "__reduce_ex__", "__getstate__", "__setstate__", "__getnewargs__", "__getnewargs_ex__")


def scan_sources(repo):
    """-> [(relative file, class, method, source text)] : COPY_NAMES under src/ezdxf/entities, PROTOCOL_NAMES in the whole
    package (python and cython sources; add-ons excluded)"""
    import glob
    import os
    import re
    out = []
    root = os.path.join(str(repo), "src", "ezdxf")
    for p in sorted(glob.glob(os.path.join(root, "**", "*.py"), recursive=True)):
        rel = os.path.relpath(p, str(repo))
        if "/addons/" in rel:
            continue
        in_entities = rel.startswith("src/ezdxf/entities/")
        try:
            tree = ast.parse(open(p, encoding="utf8").read())
        except SyntaxError:
            continue
        for cls in [n for n in ast.walk(tree) if isinstance(n, ast.ClassDef)]:
            for f in cls.body:
                if isinstance(f, ast.FunctionDef) and ((in_entities and f.name in COPY_NAMES) or f.name in PROTOCOL_NAMES):
                    out.append((rel, cls.name, f.name, ast.unparse(f)))
                if isinstance(f, ast.Assign) and len(f.targets) == 1 and isinstance(f.targets[0], ast.Name) and isinstance(f.value, ast.Name):
                    if (in_entities and f.targets[0].id in COPY_NAMES) or f.targets[0].id in PROTOCOL_NAMES:
                        out.append((rel, cls.name, f.targets[0].id, f"alias of {f.value.id}"))
    for p in sorted(glob.glob(os.path.join(root, "**", "*.pyx"), recursive=True)):
        rel = os.path.relpath(p, str(repo))
        cls = "?"
        lines = open(p, encoding="utf8").read().splitlines()
        for i, line in enumerate(lines):
            m = re.match(r"\s*cdef class (\w+)|\s*class (\w+)", line)
            if m:
                cls = m.group(1) or m.group(2)
            m = re.match(r"\s+def (\w+)\(", line)
            if m and m.group(1) in PROTOCOL_NAMES:
                body = []
                for l2 in lines[i + 1:i + 6]:
                    if l2.strip() == "" or re.match(r"\s+def |\s+@", l2):
                        break
                    body.append(l2.strip())
                out.append((rel, cls, m.group(1), " ".join(body)))
    return out

"""T-ast for C17: extract every `register_resources` / `map_resources` override of src/ezdxf/entities (and the R12 helpers of
dimstyleoverride.py) into a table of events, and join it with the attributes the LIVE classes declare.

    events of register_resources:  (attribute, registry method)          e.g. ("layer", "layer"), ("material_handle", "handle")
    events of map_resources:       (attribute written on the clone, via, reads)   via in VIAS, reads in {"self", "clone", "-"}
    writes to `self...` inside map_resources (a write to the SOURCE document)
    calls of `mapping.map_resources_of_copy(...)` (a second mapping of entities that _Transfer.map_entity_resources visits anyway)
    version gates in front of the R12 name based override mapping, translated to a Lean Bool function of (source, target) version

Nothing here is specific to one entity type: the walker understands the handful of idioms the code base uses
(`clone.dxf.X = mapping.get_Y(self.dxf.X)`, `clone.dxf.set(name, mapping.get_Y(..))` in a loop over a module constant,
`mapping.map_existing_handle(self, clone, "X")`, `clone.dxf.discard("X")`, `registry.add_Y(self.dxf.X)`,
`registry.add_entity(self.doc.<table>.get(self.dxf.get(X)))`, helper methods of the same class called on self/clone);
anything else that touches `mapping` / `registry` is recorded as an `opaque` event with its source text so that it is visible.
"""
from __future__ import annotations

import ast
import importlib
import pkgutil

REG_KIND = {"add_layer": "layer", "add_linetype": "linetype", "add_text_style": "textstyle", "add_dim_style": "dimstyle",
            "add_block_name": "block", "add_handle": "handle", "add_entity": "entity", "add_appid": "appid", "add_block": "blockdef"}
GET_KIND = {"get_layer": "layer", "get_linetype": "linetype", "get_text_style": "textstyle", "get_dim_style": "dimstyle",
            "get_block_name": "block", "get_handle": "handle"}
TABLE_KIND = {"layers": "layer", "linetypes": "linetype", "styles": "textstyle", "dimstyles": "dimstyle", "block_records": "block"}
VIAS = ["handle", "existing", "existing_opt", "discard", "layer", "linetype", "textstyle", "dimstyle", "block", "copyref", "pointers", "opaque"]
METHODS = ("register_resources", "map_resources", "register_resources_r12", "map_resources_r12")


def _src(node) -> str:
    return ast.unparse(node)


class FnWalker:
    """collects the events of one function body"""

    def __init__(self, cls_node: ast.ClassDef, fn: ast.FunctionDef, modglobals: dict, depth=0):
        self.cls_node, self.fn, self.g, self.depth = cls_node, fn, modglobals, depth
        self.alias: dict[str, ast.AST] = {}     # local name -> defining expression (single assignment idiom)
        self.loops: dict[str, list] = {}        # loop variable -> list of constant values
        self.events: list[dict] = []
        self.guards: list[str] = []
        self.calls_super = False
        self.super_first = False
        self.early_returns: list[str] = []      # guards of `return` statements seen so far (apply to everything after)
        # the same guards as (test node, positive, id of the `if` statement) for the classification of conditions
        self.gstack: list[tuple] = []
        self.gearly: list[tuple] = []
        args = [a.arg for a in fn.args.args]
        self.clone_name = "clone" if "clone" in args else ("copy" if "copy" in args else None)
        # `def map_resources(self, mapping)` (MTextData, BlockData, MLeaderContext): the object maps ITSELF in place; it is
        # called on the data of the clone
        self.inplace = fn.name == "map_resources" and self.clone_name is None and "mapping" in args

    # ---- expression helpers
    def resolve(self, node, seen=()):
        if isinstance(node, ast.Name) and node.id in self.alias and node.id not in seen:
            return self.resolve(self.alias[node.id], seen + (node.id,))
        return node

    def const_values(self, node):
        """values of a loop iterable that is a literal tuple/list, a module constant, or range(a, b)"""
        if isinstance(node, (ast.Tuple, ast.List)) and all(isinstance(e, ast.Constant) for e in node.elts):
            return [e.value for e in node.elts]
        if isinstance(node, ast.Name) and node.id in self.g and isinstance(self.g[node.id], (tuple, list, set, frozenset)):
            return sorted(self.g[node.id]) if isinstance(self.g[node.id], (set, frozenset)) else list(self.g[node.id])
        if isinstance(node, ast.Call) and isinstance(node.func, ast.Name) and node.func.id == "range" and all(isinstance(a, ast.Constant) for a in node.args):
            return list(range(*[a.value for a in node.args]))
        return None

    def names_of(self, node):
        """attribute names denoted by an expression used as attribute name: "X", CONST, loop variable, f-string over a loop variable"""
        node = self.resolve(node)
        if isinstance(node, ast.Constant) and isinstance(node.value, str):
            return [node.value]
        if isinstance(node, ast.Name):
            if node.id in self.loops:
                return [str(v) for v in self.loops[node.id]]
            if node.id in self.g and isinstance(self.g[node.id], str):
                return [self.g[node.id]]
        if isinstance(node, ast.JoinedStr):
            outs = [""]
            for part in node.values:
                if isinstance(part, ast.Constant):
                    outs = [o + str(part.value) for o in outs]
                elif isinstance(part, ast.FormattedValue) and isinstance(part.value, ast.Name) and part.value.id in self.loops:
                    outs = [o + str(v) for o in outs for v in self.loops[part.value.id]]
                else:
                    return None
            return outs
        return None

    def root_of(self, node):
        while isinstance(node, (ast.Attribute, ast.Call, ast.Subscript)):
            node = node.func if isinstance(node, ast.Call) else node.value
        if isinstance(node, ast.Name):
            r = self.resolve(node)
            if r is not node:
                return self.root_of(r)
            return node.id
        return None

    def dxf_attr(self, node):
        """(root, [attribute names]) when `node` reads DXF attributes: root.dxf.X, root.dxf.get(X, ..), dxf.X (alias)"""
        node = self.resolve(node)
        if isinstance(node, ast.Attribute):
            base = self.resolve(node.value)
            if isinstance(base, ast.Attribute) and base.attr == "dxf" and isinstance(self.resolve(base.value), ast.Name):
                return self.root_of(base.value), [node.attr]
        if isinstance(node, ast.Call) and isinstance(node.func, ast.Attribute) and node.func.attr == "get" and node.args:
            base = self.resolve(node.func.value)
            if isinstance(base, ast.Attribute) and base.attr == "dxf" and isinstance(self.resolve(base.value), ast.Name):
                names = self.names_of(node.args[0])
                if names:
                    return self.root_of(base.value), names
        return None

    def roles_in(self, node):
        """roles (self / clone) of all names an expression is computed from, after alias resolution"""
        out = set()
        todo, seen = [node], set()
        while todo:
            n = todo.pop()
            for x in ast.walk(n):
                if isinstance(x, ast.Name):
                    if x.id in self.alias and x.id not in seen:
                        seen.add(x.id)
                        todo.append(self.alias[x.id])
                    else:
                        r = self.role(x.id)
                        if r in ("self", "clone"):
                            out.add(r)
        return out

    def reads_of(self, node):
        rs = self.roles_in(node)
        return "clone" if "clone" in rs else ("self" if "self" in rs else "-")

    def is_dxf_ns(self, node, root=None):
        """node denotes `<root>.dxf` (possibly through an alias)"""
        node = self.resolve(node)
        if isinstance(node, ast.Attribute) and node.attr == "dxf":
            r = self.root_of(node.value)
            return r if (root is None or r == root) else None
        return None

    def role(self, root):
        if root == "self":
            return "clone" if self.inplace else "self"
        if root is not None and root == self.clone_name:
            return "clone"
        return "-" if root is None else root

    # ---- events
    def ev(self, kind, attr, via, reads="-", text=""):
        if kind.startswith("write_") and kind != "write_self":
            return   # a write to a local object (data = dict(); data[key] = ...), stored into the clone by a later statement
        self.events.append({"kind": kind, "attr": attr, "via": via, "reads": reads, "guards": list(self.early_returns) + list(self.guards),
                            "text": text, "cond": self.cond_of(attr, list(self.gearly) + list(self.gstack))})

    # ---- conditions
    IF_IDS: dict = {}

    def if_id(self, node) -> int:
        key = (self.cls_node.name, self.fn.name, getattr(node, "lineno", 0), getattr(node, "col_offset", 0))
        return FnWalker.IF_IDS.setdefault(key, len(FnWalker.IF_IDS))

    def classify(self, test, attr):
        """what a test says about the SOURCE value of DXF attribute `attr`: 'present' | 'set' (present and truthy / not "0") | None"""
        t = test
        if isinstance(t, ast.Call):
            f = t.func
            if isinstance(f, ast.Name):
                f = self.resolve(f)
            if isinstance(f, ast.Attribute) and f.attr == "hasattr" and self.is_dxf_ns(f.value) is not None and t.args:
                names = self.names_of(t.args[0])
                if names and attr in names:
                    return "present"      # clone.dxf.hasattr == self.dxf.hasattr: the clone starts as a copy
            return None
        if isinstance(t, ast.Name):
            da = self.dxf_attr(t)
            if da and attr in da[1]:
                return "set"
            return None
        if isinstance(t, ast.BoolOp) and isinstance(t.op, ast.And):
            cs = [self.classify(v, attr) for v in t.values]
            if all(c in ("set", "present", "nonzero") for c in cs):
                return "set" if ("set" in cs or ("present" in cs and "nonzero" in cs)) else cs[0]
            return None
        if isinstance(t, ast.Compare) and len(t.ops) == 1 and isinstance(t.left, ast.Name):
            da = self.dxf_attr(t.left)
            c = t.comparators[0]
            if da and attr in da[1] and isinstance(c, ast.Constant):
                if isinstance(t.ops[0], ast.NotEq) and c.value == "0":
                    return "nonzero"
                if isinstance(t.ops[0], ast.IsNot) and c.value is None:
                    return "present"
            return None
        return None

    def cond_of(self, attr, guards):
        """(code, k): 0 always, 1 if the source attribute is present, 2 if absent, 3 if set (present, not null), 4 if not set,
        5 / 6 the unknown condition number k holds / does not hold"""
        if attr.startswith("@") or attr.startswith("?"):
            return (0, 0)
        code = 0
        for test, pos, node in guards:
            neg = isinstance(test, ast.UnaryOp) and isinstance(test.op, ast.Not)
            inner = test.operand if neg else test
            c = self.classify(inner, attr)
            p = pos != neg
            if c == "nonzero":
                c = "set" if p else None
            if c is None:
                # a test that does not mention DXF attributes of the source at all is about the data flow of other things
                mentions = any(isinstance(n, ast.Attribute) and n.attr == "dxf" for n in ast.walk(self.resolve_all(inner)))
                if not mentions and not self.depends_on_mapping(inner):
                    continue
                return (5 if pos else 6, self.if_id(node))
            new = {("present", True): 1, ("present", False): 2, ("set", True): 3, ("set", False): 4}[(c, p)]
            code = max(code, new) if code in (0, 1, 3) and new in (1, 3) else new
        return (code, 0)

    def resolve_all(self, node):
        """the expression with local names replaced by their definitions (one level), for 'does it mention .dxf' tests"""
        class R(ast.NodeTransformer):
            def visit_Name(s2, n):
                if n.id in self.alias and not isinstance(self.alias[n.id], ast.Name):
                    return self.alias[n.id]
                return n
        import copy as _copy
        return R().visit(_copy.deepcopy(node))

    def depends_on_mapping(self, node):
        return any(isinstance(n, ast.Name) and (n.id in getattr(self, "mapped_names", {}) or n.id == "mapping") for n in ast.walk(node))

    def mapping_calls(self, node):
        """all calls `mapping.<m>(...)` inside an expression"""
        return [n for n in ast.walk(node) if isinstance(n, ast.Call) and isinstance(n.func, ast.Attribute)
                and isinstance(n.func.value, ast.Name) and n.func.value.id == "mapping"]

    def via_of_value(self, value):
        """(via, reads, source attrs) of an expression that computes a mapped value"""
        calls = self.mapping_calls(value)
        if not calls:
            return None
        c = calls[0]
        m = c.func.attr
        if m in GET_KIND:
            arg = c.args[0] if c.args else None
            da = self.dxf_attr(arg) if arg is not None else None
            if da:
                return GET_KIND[m], self.role(da[0]), da[1]
            reads = self.reads_of(arg) if arg is not None else "-"
            # comprehension over a field of self / clone
            for comp in [n for n in ast.walk(value) if isinstance(n, ast.comprehension)]:
                if self.reads_of(comp.iter) != "-":
                    reads = self.reads_of(comp.iter)
            return GET_KIND[m], reads, None
        if m in ("get_reference_of_copy", "map_acad_dict_entry"):
            return "copyref", "-", None
        return "opaque", "-", None

    def visit_call(self, call: ast.Call, stmt):
        f = call.func
        if not isinstance(f, ast.Attribute):
            return
        # super().m(...)
        if isinstance(f.value, ast.Call) and isinstance(f.value.func, ast.Name) and f.value.func.id == "super" and f.attr == self.fn.name:
            self.calls_super = True
            return
        recv = f.value
        if isinstance(recv, ast.Name) and recv.id == "registry" and f.attr in REG_KIND:
            kind = REG_KIND[f.attr]
            arg = call.args[0] if call.args else None
            da = self.dxf_attr(arg) if arg is not None else None
            if da and da[0] == "self":
                for a in da[1]:
                    self.ev("reg", a, kind)
                return
            # registry.add_entity(<self.doc.TABLE.get(self.dxf.get(X))>) : registration of a table entry by name
            r = self.resolve(arg) if arg is not None else None
            if kind == "entity" and isinstance(r, ast.Call) and isinstance(r.func, ast.Attribute) and r.func.attr in ("get", "get_entry_by_handle") \
                    and isinstance(r.func.value, ast.Attribute) and r.func.value.attr in TABLE_KIND and r.args:
                da = self.dxf_attr(r.args[0])
                if da and da[0] == "self":
                    for a in da[1]:
                        self.ev("reg", a, TABLE_KIND[r.func.value.attr])
                    return
            # registry.add_entity(self.doc.TABLE.get...(<something read from a field of self>))
            if kind == "entity" and isinstance(r, ast.Call) and isinstance(r.func, ast.Attribute) and isinstance(r.func.value, ast.Attribute) \
                    and r.func.value.attr in TABLE_KIND and r.args:
                fld = self.field_of(self.resolve_chain(self.resolve(r.args[0])))
                self.ev("reg", "@" + (fld or _src(r.args[0])), TABLE_KIND[r.func.value.attr], self.reads_of(r.args[0]), _src(call))
                return
            # a field of self (not a DXF attribute): registry.add_layer(name) for name in self.frozen_layers, self.block, ...
            fld = self.field_of(self.resolve_chain(r)) if r is not None else None
            self.ev("reg", "@" + (fld or (_src(arg) if arg is not None else "?")), kind, self.reads_of(r) if r is not None else "-", _src(call))
            return
        if isinstance(recv, ast.Name) and recv.id == "mapping":
            m = f.attr
            if m == "map_existing_handle" and len(call.args) >= 3:
                names = self.names_of(call.args[2]) or ["?" + _src(call.args[2])]
                opt = any(k.arg == "optional" and isinstance(k.value, ast.Constant) and k.value.value for k in call.keywords)
                for a in names:
                    self.ev("map", a, "existing_opt" if opt else "existing", self.role(self.root_of(call.args[0])))
                return
            if m == "map_pointers":
                root = self.root_of(call.args[0]) if call.args else None
                self.ev("map", "@tags", "pointers", self.role(root), _src(call))
                return
            if m == "map_resources_of_copy":
                self.ev("second_mapping", "@" + _src(call.args[0]) if call.args else "@?", "opaque", "-", _src(call))
                return
            if m in GET_KIND or m in ("get_reference_of_copy", "map_acad_dict_entry"):
                return   # handled where the value is consumed (assignment)
            self.ev("map", "@" + m, "opaque", "-", _src(call))
            return
        # clone.dxf.set(name, value) / clone.dxf.discard(name)
        ns_root = self.is_dxf_ns(recv)
        if ns_root is not None and f.attr in ("set", "discard") and call.args:
            names = self.names_of(call.args[0]) or ["?" + _src(call.args[0])]
            role = self.role(ns_root)
            if f.attr == "discard":
                for a in names:
                    self.ev("map" if role == "clone" else "write_" + role, a, "discard")
                return
            if len(call.args) > 1:
                v = self.via_of_value(call.args[1])
                if v is None:
                    # value computed before (e.g. arrow_name = mapping.get_block_name(arrow_name))
                    v = self.via_of_value(self.resolve(call.args[1]))
                    if v is None and isinstance(call.args[1], ast.Name):
                        v = self.mapped_names.get(call.args[1].id)
                if v is not None:
                    for a in names:
                        self.ev("map" if role == "clone" else "write_" + role, a, v[0], v[1])
                return
        # helper methods of the same class called on self / clone / their fields: inline (depth limited)
        root = self.root_of(recv)
        if root in ("self", self.clone_name) and self.depth < 2 and f.attr not in METHODS:
            helper = next((n for n in self.cls_node.body if isinstance(n, ast.FunctionDef) and n.name == f.attr), None)
            if helper is not None and any(isinstance(n, ast.Name) and n.id in ("mapping", "registry") for n in ast.walk(helper)):
                sub = FnWalker(self.cls_node, helper, self.g, self.depth + 1)
                # inside the helper `self` denotes the receiver
                sub.clone_name = "self" if root == self.clone_name else sub.clone_name
                sub.walk()
                for e in sub.events:
                    e = dict(e)
                    if root == self.clone_name and e["reads"] == "self":
                        e["reads"] = "clone"
                    if e["kind"] == "write_self" and root == self.clone_name:
                        e["kind"] = "map"
                    e["guards"] = list(self.early_returns) + list(self.guards) + e["guards"]
                    outer = self.cond_of(e["attr"], list(self.gearly) + list(self.gstack))
                    if outer != (0, 0) and e.get("cond", (0, 0)) == (0, 0):
                        e["cond"] = outer
                    self.events.append(e)
                return
        # a helper of the same class called on the clone that does not consult the mapping but assigns DXF attributes from the
        # clone's own (= target) document: clone.set_required_attributes() -> self.dxf.plotstyle_handle = <target object>.dxf.handle
        if root is not None and root == self.clone_name and isinstance(recv, ast.Name) and self.depth < 2 and f.attr not in METHODS:
            helper = next((n for n in self.cls_node.body if isinstance(n, ast.FunctionDef) and n.name == f.attr), None)
            if helper is not None:
                def scan(stmts, absent_of):
                    for st in stmts:
                        if isinstance(st, ast.If):
                            # `if not self.dxf.hasattr("X"):` -> the assignment happens when the CLONE has no X (any more)
                            tt = st.test
                            ab = None
                            if (isinstance(tt, ast.UnaryOp) and isinstance(tt.op, ast.Not) and isinstance(tt.operand, ast.Call)
                                    and isinstance(tt.operand.func, ast.Attribute) and tt.operand.func.attr == "hasattr" and tt.operand.args
                                    and isinstance(tt.operand.args[0], ast.Constant)):
                                ab = tt.operand.args[0].value
                            scan(st.body, ab or absent_of)
                            scan(st.orelse, absent_of)
                        elif isinstance(st, ast.Assign):
                            for t in st.targets:
                                if (isinstance(t, ast.Attribute) and isinstance(t.value, ast.Attribute) and t.value.attr == "dxf"
                                        and isinstance(t.value.value, ast.Name) and t.value.value.id == "self"
                                        and not (isinstance(st.value, ast.Constant))):
                                    self.ev("map", t.attr, "copyref", "-", f"{f.attr}(): " + _src(st)[:100])
                                    if absent_of == t.attr:
                                        self.events[-1]["cond"] = (7, 0)
                scan(helper.body, None)
                return
        # delegation to another object's register_resources / map_resources
        if f.attr in METHODS and not (isinstance(recv, ast.Call)):
            self.ev("delegate", "@" + _src(recv), "opaque", self.role(root), _src(call))
            return
        # clone.<field>.setter(mapping.get_Y(...)) : a mapped value stored through a method of a field of the clone
        if root is not None and self.role(root) in ("clone", "self") and call.args:
            for a in call.args:
                v = self.mapped_value(a)
                if v is not None:
                    role = self.role(root)
                    self.ev("map" if role == "clone" else "write_" + role, "@" + (self.field_of(recv) or f.attr), v[0], v[1], _src(call)[:120])
                    return

    def field_of(self, node, seen=()):
        """the field of self / clone an expression is computed from: self.frozen_layers -> frozen_layers; a loop variable or
        local name stands for the field it was taken from (element.linetype with `for element in self.elements` -> elements)"""
        chain = []
        while isinstance(node, (ast.Attribute, ast.Call, ast.Subscript)):
            if isinstance(node, ast.Attribute):
                chain.append(node.attr)
            node = node.func if isinstance(node, ast.Call) else node.value
        if isinstance(node, ast.Name) and node.id in self.alias and node.id not in seen and not isinstance(self.alias[node.id], ast.Constant):
            f = self.field_of(self.alias[node.id], seen + (node.id,))
            if f is not None:
                return f
        return chain[-1] if chain else None

    def mapped_value(self, value):
        """(via, reads, attrs) when `value` is computed from a mapping call, directly or through a local name / helper"""
        if value is None:
            return None
        v = self.via_of_value(value)
        if v is not None:
            return v
        for n in ast.walk(value):
            if isinstance(n, ast.Name) and n.id in self.mapped_names:
                return self.mapped_names[n.id]
        # helper method of self / clone that consults the mapping: self.map_underlay_def(clone, mapping)
        for c in [n for n in ast.walk(value) if isinstance(n, ast.Call) and isinstance(n.func, ast.Attribute)]:
            if self.root_of(c.func.value) in ("self", self.clone_name) and any(isinstance(a, ast.Name) and a.id == "mapping" for a in c.args):
                return "copyref", "-", None
        return None

    def visit_assign(self, targets, value, stmt):
        for t in targets:
            v = self.mapped_value(value)
            if isinstance(t, ast.Name):
                if v is not None:
                    self.mapped_names[t.id] = v
                else:
                    self.alias[t.id] = value
                continue
            if isinstance(t, ast.Tuple):
                for e in t.elts:
                    if isinstance(e, ast.Name) and v is not None:
                        self.mapped_names[e.id] = v
                continue
            if v is None:
                # clone.dxf.X = "0" / None : the attribute is set to the null handle
                if (isinstance(t, ast.Attribute) and self.is_dxf_ns(t.value) is not None and isinstance(value, ast.Constant)
                        and value.value in ("0", None) and self.role(self.is_dxf_ns(t.value)) == "clone"):
                    self.ev("map", t.attr, "discard")
                continue
            if isinstance(t, ast.Attribute):
                ns_root = self.is_dxf_ns(t.value)
                if ns_root is not None:
                    role = self.role(ns_root)
                    self.ev("map" if role == "clone" else "write_" + role, t.attr, v[0], v[1])
                    continue
                role = self.role(self.root_of(t))
                name = "@" + (self.field_of(self.resolve_chain(t)) or t.attr)
                self.ev("map" if role == "clone" else "write_" + role, name, v[0], v[1], _src(stmt)[:120])
            elif isinstance(t, ast.Subscript):
                role = self.role(self.root_of(t))
                names = self.names_of(t.slice)
                if names:    # copy_override[attrib_name] = ...
                    for a in names:
                        self.ev("map" if role == "clone" else "write_" + role, a, v[0], v[1], _src(stmt)[:120])
                    continue
                # tags[index] = DXFTag(code, mapping.get_handle(value)) : in-place rewrite of a list that belongs to root
                name = "@" + (self.field_of(self.resolve_chain(t.value)) or "?")
                reads = v[1] if v[1] != "-" else role
                self.ev("map" if role == "clone" else "write_" + role, name, v[0], reads, _src(stmt)[:120])

    def resolve_chain(self, node):
        """replace the root name of an attribute chain by its alias definition: tags -> clone.xdata.data.values()"""
        n = node
        while isinstance(n, (ast.Attribute, ast.Call, ast.Subscript)):
            n = n.func if isinstance(n, ast.Call) else n.value
        if isinstance(n, ast.Name) and n.id in self.alias and n is node:
            return self.resolve_chain(self.alias[n.id])
        if isinstance(n, ast.Name) and n.id in self.alias and not isinstance(self.alias[n.id], ast.Name):
            # only the field name matters to the caller: return the alias definition when the chain itself has no attribute
            has_attr = any(isinstance(x, ast.Attribute) for x in ast.walk(node))
            if not has_attr:
                return self.resolve_chain(self.alias[n.id])
        return node

    # ---- statements
    def walk(self):
        self.mapped_names: dict[str, tuple] = {}
        body = [s for s in self.fn.body if not (isinstance(s, ast.Expr) and isinstance(s.value, ast.Constant))]
        body = [s for s in body if not isinstance(s, ast.Assert)]
        if body and isinstance(body[0], ast.Expr) and isinstance(body[0].value, ast.Call):
            c = body[0].value
            self.super_first = (isinstance(c.func, ast.Attribute) and isinstance(c.func.value, ast.Call)
                                and isinstance(c.func.value.func, ast.Name) and c.func.value.func.id == "super")
        self.block(self.fn.body)

    def block(self, stmts):
        for s in stmts:
            self.stmt(s)

    def stmt(self, s):
        if isinstance(s, ast.FunctionDef):
            # nested helper (map_xdata_resources): walk its body in place when it is called; simplest: walk it now
            self.nested = getattr(self, "nested", {})
            self.nested[s.name] = s
            return
        if isinstance(s, ast.Return):
            self.early_returns.append("not (" + (" and ".join(self.guards) or "True") + ")")
            if len(self.gstack) == 1:
                t0, p0, n0 = self.gstack[0]
                self.gearly.append((t0, not p0, n0))
            return
        if isinstance(s, ast.If):
            t = _src(s.test)
            # `if cond: return` -> everything after runs under not(cond)
            if len(s.body) == 1 and isinstance(s.body[0], ast.Return) and not s.orelse:
                self.early_returns.append(f"not ({t})")
                self.gearly.append((s.test, False, s))
                return
            self.guards.append(t)
            self.gstack.append((s.test, True, s))
            self.block(s.body)
            self.guards.pop()
            self.gstack.pop()
            if s.orelse:
                self.guards.append(f"not ({t})")
                self.gstack.append((s.test, False, s))
                self.block(s.orelse)
                self.guards.pop()
                self.gstack.pop()
            return
        if isinstance(s, ast.For):
            vals = self.const_values(s.iter)
            if isinstance(s.target, ast.Name) and vals is not None:
                self.loops[s.target.id] = vals
            elif isinstance(s.target, ast.Name):
                self.alias[s.target.id] = s.iter     # `for tags in clone.xdata.data.values()` : root of tags = clone
            elif isinstance(s.target, ast.Tuple):
                for e in s.target.elts:
                    if isinstance(e, ast.Name):
                        it = s.iter
                        # zip(a, b): bind positionally
                        if isinstance(it, ast.Call) and isinstance(it.func, ast.Name) and it.func.id == "zip" and len(it.args) == len(s.target.elts):
                            it = it.args[s.target.elts.index(e)]
                        self.alias[e.id] = it
            self.block(s.body)
            return
        if isinstance(s, (ast.With, ast.Try)):
            self.block(s.body)
            for h in getattr(s, "handlers", []):
                self.block(h.body)
            return
        if isinstance(s, ast.Assign):
            self.visit_assign(s.targets, s.value, s)
            for c in [n for n in ast.walk(s.value) if isinstance(n, ast.Call)]:
                if not (isinstance(c.func, ast.Attribute) and isinstance(c.func.value, ast.Name) and c.func.value.id == "mapping"
                        and (c.func.attr in GET_KIND or c.func.attr in ("get_reference_of_copy", "map_acad_dict_entry"))):
                    self.visit_call(c, s)
            return
        if isinstance(s, ast.AnnAssign) and s.value is not None:
            self.visit_assign([s.target], s.value, s)
            return
        if isinstance(s, ast.Expr) and isinstance(s.value, ast.Call):
            c = s.value
            if isinstance(c.func, ast.Name) and c.func.id in getattr(self, "nested", {}):
                self.block(self.nested[c.func.id].body)
                return
            self.visit_call(c, s)
            for inner in [n for n in ast.walk(c) if isinstance(n, ast.Call) and n is not c]:
                if isinstance(inner.func, ast.Attribute) and isinstance(inner.func.value, ast.Name) and inner.func.value.id == "registry":
                    self.visit_call(inner, s)
                if isinstance(inner.func, ast.Attribute) and isinstance(inner.func.value, ast.Attribute) is False and \
                        isinstance(inner.func.value, ast.Name) and inner.func.attr in METHODS:
                    self.visit_call(inner, s)
            return


# ------------------------------------------------------------------ version gates -> Lean
VERSION_ORD = {"DXF12": 0, "DXF2000": 1, "DXF2004": 2, "DXF2007": 3, "DXF2010": 4, "DXF2013": 5, "DXF2018": 6}


def gate_to_lean(test: ast.AST) -> str | None:
    """translate a test over self.doc.dxfversion / clone.doc.dxfversion / const.DXFxx into a Lean Bool term over (sver tver : Nat)"""
    if isinstance(test, ast.BoolOp):
        parts = [gate_to_lean(v) for v in test.values]
        if any(p is None for p in parts):
            return None
        op = " || " if isinstance(test.op, ast.Or) else " && "
        return "(" + op.join(parts) + ")"
    if isinstance(test, ast.UnaryOp) and isinstance(test.op, ast.Not):
        p = gate_to_lean(test.operand)
        return None if p is None else f"(!{p})"
    if isinstance(test, ast.Compare) and len(test.ops) == 1:
        def term(n):
            s = _src(n)
            if s in ("self.doc.dxfversion", "self.dxfversion"):
                return "sver"
            if s in ("clone.doc.dxfversion", "copy.doc.dxfversion"):
                return "tver"
            if isinstance(n, ast.Attribute) and n.attr in VERSION_ORD:
                return str(VERSION_ORD[n.attr])
            if isinstance(n, ast.Name) and n.id in VERSION_ORD:
                return str(VERSION_ORD[n.id])
            return None
        a, b = term(test.left), term(test.comparators[0])
        ops = {ast.Gt: "decide ({a} > {b})", ast.GtE: "decide ({a} ≥ {b})", ast.Lt: "decide ({a} < {b})", ast.LtE: "decide ({a} ≤ {b})",
               ast.Eq: "({a} == {b})", ast.NotEq: "({a} != {b})"}
        f = ops.get(type(test.ops[0]))
        if a is None or b is None or f is None:
            return None
        return f.format(a=a, b=b)
    return None


def version_gates(fn: ast.FunctionDef):
    """for map_resources / register_resources of classes with DIMSTYLE overrides: the condition under which the R12 (name based)
    branch `...map_resources_r12(...)` / `...register_resources_r12(...)` is reached, as a Lean Bool term; None when there is no such call"""
    target = None
    for n in ast.walk(fn):
        if isinstance(n, ast.Call) and isinstance(n.func, ast.Attribute) and n.func.attr in ("map_resources_r12", "register_resources_r12"):
            target = n
    if target is None:
        return None
    conds: list[str] = []
    unknown: list[str] = []

    def walk(stmts, path):
        """-> True when target found; path = list of Lean terms that must hold"""
        cur = list(path)
        for s in stmts:
            if any(n is target for n in ast.walk(s)):
                if isinstance(s, ast.If):
                    t = gate_to_lean(s.test)
                    in_body = any(n is target for b in s.body for n in ast.walk(b))
                    if t is None:
                        unknown.append(_src(s.test))
                        t = "true"
                    return walk(s.body if in_body else s.orelse, cur + [t if in_body else f"(!{t})"])
                conds.extend(cur)
                return True
            if isinstance(s, ast.If) and len(s.body) == 1 and isinstance(s.body[0], ast.Return) and not s.orelse:
                t = gate_to_lean(s.test)
                if t is None:
                    # a data condition (has no overrides / no XDATA list): not a version gate
                    unknown.append(_src(s.test))
                else:
                    cur.append(f"(!{t})")
        return False

    walk(fn.body, [])
    return {"lean": "(" + " && ".join(conds) + ")" if conds else "true", "data_conditions": unknown}


# ------------------------------------------------------------------ whole table
def extract(read, list_files):
    """read(path) -> source text (recorded by the caller); list_files() -> paths of src/ezdxf/entities/*.py
    -> {"defs": {(module, class): {method: {...}}}, "gates": {...}}"""
    defs = {}
    gates = {}
    for path in list_files():
        text = read(path)
        if "register_resources" not in text and "map_resources" not in text:
            continue
        modname = "ezdxf." + path[len("src/ezdxf/"):-3].replace("/", ".")
        try:
            mod = importlib.import_module(modname)
            g = vars(mod)
        except Exception:  # noqa
            g = {}
        tree = ast.parse(text)
        for node in tree.body:
            if not isinstance(node, ast.ClassDef):
                continue
            for it in node.body:
                if isinstance(it, ast.FunctionDef) and it.name in METHODS:
                    w = FnWalker(node, it, g)
                    w.walk()
                    defs.setdefault((modname, node.name), {})[it.name] = {
                        "events": w.events, "calls_super": w.calls_super, "super_first": w.super_first, "line": it.lineno, "path": path}
                    vg = version_gates(it)
                    if vg is not None:
                        gates[(node.name, it.name)] = vg
    return {"defs": defs, "gates": gates}


def chain(cls, defs, method):
    """events of `method` along the MRO of the live class `cls`, base first (every override calls super() first: checked by the caller)"""
    out = []
    stop = False
    for k in cls.__mro__:
        d = defs.get((k.__module__, k.__name__), {}).get(method)
        if d is None:
            continue
        out.append((k.__name__, d))
        if not d["calls_super"]:
            break
    out.reverse()
    return out

"""T-ast for the flows of C16 (session 3): virtual_entities / explode / copy_to_layout / duplicate_entity / add_attrib.

The Lean theorem `flows_frame` is about heap programs of two kinds of steps: PRODUCE (the strategy copy of a value tree, or
a new object, is added to a collection) and WRITE THROUGH THE PRODUCTS.  This scanner reads the source text of the flow
functions and reports every statement that is NOT of one of these kinds - a store into, or a call with unknown effect on, an
object that is not a product of the function:

    product   a name bound to  x.copy(...) | copy_strategy.copy(x) | factory.new / create_db_entry / <Class>.new / <Class>() /
              <Class>.from_*(...) | cast(T, product) | a call of another flow function | an item of a flow (loop variable
              over a flow call, over a nested generator of the function, or over a parameter of a nested generator
              whose call sites pass flows)
    allowed   stores and calls on products and on local containers; calls of side-effect free methods (PURE) on anything
    effect    everything else: (function, kind 'store' | 'call' | 'hand-out', text)

The effects are written to Gen/HeapGraphs.lean (`flowEffects`); the counted theorem `flow_effects_allowed` checks each
against the explicit list `flowEffectsAllowed` of Model/HeapRecipe.lean (adding to the target layout, deleting the
exploded INSERT, binding the duplicate to the document ...).
"""
from __future__ import annotations

import ast
import inspect
import textwrap

# (module, qualified name)
FLOW_FUNCTIONS = [
    ("ezdxf.explode", "virtual_block_reference_entities"), ("ezdxf.explode", "explode_block_reference"),
    ("ezdxf.explode", "explode_entity"), ("ezdxf.explode", "attrib_to_text"),
    ("ezdxf.entities.dxfgfx", "DXFGraphic.copy_to_layout"), ("ezdxf.entitydb", "EntityDB.duplicate_entity"),
    ("ezdxf.entities.insert", "Insert.add_attrib"), ("ezdxf.entities.insert", "Insert.add_auto_attribs"),
    ("ezdxf.entities.insert", "Insert.virtual_entities"), ("ezdxf.entities.insert", "Insert.__virtual_entities__"),
    ("ezdxf.entities.insert", "Insert.explode"), ("ezdxf.entities.insert", "Insert.multi_insert"),
    ("ezdxf.entities.dimension", "Dimension.__virtual_entities__"), ("ezdxf.entities.dimension", "Dimension.virtual_entities"),
    ("ezdxf.entities.dimension", "Dimension.explode"), ("ezdxf.entities.dimension", "Dimension.copy_data"),
    ("ezdxf.entities.dxfentity", "DXFEntity.copy"), ("ezdxf.entities.subentity", "LinkedEntities._new_compound_entity"),
    # generators of new primitives
    ("ezdxf.entities.polyline", "Polyline.virtual_entities"), ("ezdxf.entities.polyline", "Polyline.explode"),
    ("ezdxf.entities.lwpolyline", "LWPolyline.virtual_entities"), ("ezdxf.entities.lwpolyline", "LWPolyline.explode"),
    ("ezdxf.entities.leader", "Leader.__virtual_entities__"), ("ezdxf.entities.leader", "Leader.virtual_entities"),
    ("ezdxf.entities.leader", "Leader.explode"), ("ezdxf.entities.point", "Point.virtual_entities"),
    ("ezdxf.entities.mleader", "MultiLeader.virtual_entities"), ("ezdxf.entities.mleader", "MultiLeader.__virtual_entities__"),
    ("ezdxf.entities.mleader", "MultiLeader.explode"), ("ezdxf.entities.mline", "MLine.__virtual_entities__"),
    ("ezdxf.entities.mline", "MLine.virtual_entities"), ("ezdxf.entities.mline", "MLine.explode"),
]
FLOW_CALLS = {"virtual_block_reference_entities", "explode_block_reference", "explode_entity", "attrib_to_text",
              "virtual_entities", "__virtual_entities__", "multi_insert", "copy_to_layout", "duplicate_entity",
              "_new_compound_entity", "add_attrib"}
PRODUCER_ATTRS = {"copy", "new", "create_db_entry"}
# methods without side effect on the receiver (read access, iteration, construction of new values)
PURE = {"dxftype", "get", "hasattr", "get_layout", "matrix44", "ocs", "dxfattribs", "entities_in_redraw_order", "items", "keys",
        "values", "replace", "to_wcs", "to_ocs", "translate", "is_alive", "get_attrib", "attdefs", "block", "get_dxf_attrib",
        "isclose", "normalize", "debug", "info", "warning", "format", "has_dxf_attrib", "get_geometry_block", "next_handle",
        "_block_content", "copy", "z_rotate", "rotate_deg", "rotate", "scale", "ucs", "entities", "query", "get_flag_state", "has_attdef", "get_attdef"}
LOCAL_CONTAINER_CTORS = {"list", "dict", "set", "EntityQuery"}


def walk_own(fd):
    """nodes of a function body without the bodies of nested functions"""
    todo = list(fd.body)
    while todo:
        n = todo.pop()
        yield n
        if isinstance(n, ast.FunctionDef):
            continue
        todo.extend(ast.iter_child_nodes(n))


def root_name(node):
    while isinstance(node, (ast.Attribute, ast.Subscript, ast.Call)):
        node = node.value if not isinstance(node, ast.Call) else node.func
    return node.id if isinstance(node, ast.Name) else None


class Scope:
    def __init__(self, fd: ast.FunctionDef, outer=None):
        self.fd, self.outer = fd, outer
        self.products, self.containers = set(), set()
        self.nested = {n.name: n for n in fd.body if isinstance(n, ast.FunctionDef)}
        self.params = [a.arg for a in fd.args.args + fd.args.kwonlyargs]

    def is_product(self, name):
        return name in self.products or (self.outer is not None and self.outer.is_product(name))

    def is_container(self, name):
        return name in self.containers or (self.outer is not None and self.outer.is_container(name))

    def nested_def(self, name):
        if name in self.nested:
            return self.nested[name]
        return self.outer.nested_def(name) if self.outer is not None else None


def is_producer_call(v, sc: Scope) -> bool:
    """does expression `v` evaluate to a product (new object / strategy copy / result of a flow)"""
    if isinstance(v, ast.Name):
        return sc.is_product(v.id)
    if isinstance(v, ast.IfExp):
        return is_producer_call(v.body, sc) and is_producer_call(v.orelse, sc)
    if not isinstance(v, ast.Call):
        return False
    f = v.func
    if isinstance(f, ast.Name):
        if f.id == "cast" and len(v.args) == 2:
            return is_producer_call(v.args[1], sc)
        if f.id in FLOW_CALLS or sc.nested_def(f.id) is not None or f.id.startswith("virtual_"):
            return True
        return f.id[:1].isupper() and f.id not in ("Vec3", "Vec2", "Matrix44", "OCS", "UCS")  # constructor
    if isinstance(f, ast.Attribute):
        if f.attr in PRODUCER_ATTRS or f.attr in FLOW_CALLS or f.attr.startswith("from_") or f.attr.startswith("virtual_"):
            return True
        if f.attr in ("transform",) and is_producer_call(f.value, sc):
            return True  # product.transform(m) returns the product
    return False


def analyse(fd: ast.FunctionDef, qual: str, outer=None, flow_params=(), container_params=()):
    """-> (effects [(qual, kind, text)], statements looked at)"""
    sc = Scope(fd, outer)
    for p in flow_params:
        sc.products.add(p)
    for p in container_params:
        sc.containers.add(p)
    effects, count = [], 0

    # pass 1: bindings (two rounds, so that a name bound after its first use in a loop is known)
    for _ in range(2):
        for n in walk_own(fd):
            if isinstance(n, ast.FunctionDef):
                continue
            if isinstance(n, (ast.Assign, ast.AnnAssign)) and n.value is not None:
                targets = n.targets if isinstance(n, ast.Assign) else [n.target]
                for t in targets:
                    if isinstance(t, ast.Name):
                        v = n.value
                        if is_producer_call(v, sc):
                            sc.products.add(t.id)
                        elif isinstance(v, (ast.List, ast.Dict, ast.Set, ast.ListComp, ast.DictComp)) or (
                                isinstance(v, ast.Call) and isinstance(v.func, ast.Name) and v.func.id in LOCAL_CONTAINER_CTORS) or (
                                isinstance(v, ast.Call) and isinstance(v.func, ast.Attribute) and v.func.attr == "dxfattribs"):
                            sc.containers.add(t.id)
                        elif isinstance(v, ast.Attribute) and root_name(v) is not None and sc.is_product(root_name(v)):
                            sc.products.add(t.id)  # dxf = product.dxf
            if isinstance(n, (ast.For, ast.comprehension)):
                it, tgt = n.iter, n.target
                if isinstance(tgt, ast.Name):
                    if is_producer_call(it, sc) or (isinstance(it, ast.Name) and (sc.is_product(it.id) or sc.is_container(it.id))):
                        sc.products.add(tgt.id)
                    elif isinstance(it, ast.Attribute) and root_name(it) is not None and sc.is_product(root_name(it)):
                        sc.products.add(tgt.id)  # for attrib in product.attribs
                    elif isinstance(it, ast.Tuple) and all(isinstance(e, ast.Name) and sc.is_product(e.id) for e in it.elts):
                        sc.products.add(tgt.id)
                    elif isinstance(it, ast.IfExp) and is_producer_call(it.body, sc) and isinstance(it.orelse, ast.Tuple) and all(
                            isinstance(e, ast.Name) and sc.is_product(e.id) for e in it.orelse.elts):
                        sc.products.add(tgt.id)  # x.multi_insert() if ... else (x,)

    def effect(kind, node):
        effects.append((qual, kind, " ".join(ast.unparse(node).split())[:70]))

    def check_call(c: ast.Call):
        f = c.func
        if isinstance(f, ast.Attribute):
            if is_producer_call(f.value, sc) or f.attr[:1].isupper():
                return  # method of a product expression / constructor or exception class of a module
            r = root_name(f.value)
            if r is None or sc.is_product(r):
                return
            if sc.is_container(r) and f.attr in ("pop", "update", "setdefault", "discard", "remove", "clear"):
                return
            if sc.is_container(r) and f.attr == "add":
                return  # a local set (of values)
            if sc.is_container(r) and f.attr in ("append", "extend"):
                for a in c.args:
                    if not is_producer_call(a, sc) and not (isinstance(a, ast.Name) and sc.is_container(a.id)):
                        effect("hand-out", c)
                return
            if f.attr in PURE or f.attr in FLOW_CALLS or f.attr in PRODUCER_ATTRS or f.attr.startswith("from_") or f.attr.startswith("virtual_"):
                return
            effect("call", f)
        elif isinstance(f, ast.Name):
            nd = sc.nested_def(f.id)
            if nd is not None or f.id in FLOW_CALLS or f.id.startswith("virtual_") or f.id in ("cast", "isinstance", "hasattr", "len", "abs", "dict", "list", "str", "set",
                                                               "iter", "next", "getattr", "callable", "tuple", "enumerate", "zip", "range"):
                return
            if f.id[:1].isupper():
                return  # constructor
            if f.id in sc.params or (sc.outer is not None and f.id in sc.outer.params):
                # a callback given by the caller (skipped_entity_callback): reported with its arguments
                effect("call", c.func)
                return
            effect("call", f)

    for n in walk_own(fd):
        if isinstance(n, ast.FunctionDef):
            continue
        if isinstance(n, ast.stmt):
            count += 1
        if isinstance(n, (ast.Assign, ast.AugAssign, ast.AnnAssign)):
            targets = n.targets if isinstance(n, ast.Assign) else [n.target]
            for t in targets:
                if isinstance(t, (ast.Attribute, ast.Subscript)):
                    r = root_name(t)
                    if r is not None and not sc.is_product(r) and not sc.is_container(r):
                        effect("store", t)
        elif isinstance(n, ast.Delete):
            for t in n.targets:
                r = root_name(t)
                if r is not None and not sc.is_product(r) and not sc.is_container(r):
                    effect("store", n)
        elif isinstance(n, ast.Call):
            check_call(n)
        elif isinstance(n, (ast.Yield, ast.Return)) and n.value is not None:
            v = n.value
            ok = (is_producer_call(v, sc) or isinstance(v, ast.Constant)
                  or (isinstance(v, ast.Name) and (sc.is_container(v.id)))
                  or (isinstance(v, ast.Call) and isinstance(v.func, ast.Name) and v.func.id in LOCAL_CONTAINER_CTORS
                      and all(isinstance(a, ast.Name) and sc.is_container(a.id) for a in v.args))
                  or isinstance(v, (ast.Compare, ast.Tuple, ast.BinOp, ast.BoolOp, ast.JoinedStr)))
            if not ok:
                effect("hand-out", n)
        elif isinstance(n, ast.YieldFrom):
            if not is_producer_call(n.value, sc):
                effect("hand-out", n)
    # nested generators / helpers: a parameter is a flow if every call site passes a flow
    for name, nd in sc.nested.items():
        sites = [c for c in ast.walk(fd) if isinstance(c, ast.Call) and isinstance(c.func, ast.Name) and c.func.id == name]
        sites = [c for c in sites if not any(c in ast.walk(x) for x in [nd])] or sites
        fparams = []
        for i, a in enumerate(nd.args.args):
            args = [c.args[i] for c in sites if i < len(c.args)]
            if args and all(is_producer_call(x, sc) or (isinstance(x, ast.Name) and sc.is_product(x.id)) for x in args):
                fparams.append(a.arg)
        cparams = []
        for i, a in enumerate(nd.args.args):
            args = [c.args[i] for c in sites if i < len(c.args)]
            if args and all(isinstance(x, ast.Name) and sc.is_container(x.id) for x in args):
                cparams.append(a.arg)
        e2, c2 = analyse(nd, f"{qual}.{name}", sc, fparams, cparams)
        effects += e2
        count += c2
    return effects, count


def scan_flows():
    """-> (effects, functions analysed, statements looked at, missing [(module, name)])"""
    import importlib
    effects, nfun, nstmt, missing = [], 0, 0, []
    for mod, qual in FLOW_FUNCTIONS:
        try:
            o = importlib.import_module(mod)
            for part in qual.split("."):
                o = inspect.getattr_static(o, part) if not isinstance(o, type(inspect)) else getattr(o, part)
            o = getattr(o, "__func__", o)
            fd = ast.parse(textwrap.dedent(inspect.getsource(o))).body[0]
        except Exception as ex:
            missing.append((mod, qual, f"{type(ex).__name__}: {ex}"[:60]))
            continue
        e, c = analyse(fd, f"{mod.split('.')[-1]}.{qual}", None, ())
        effects += e
        nfun += 1
        nstmt += c
    return sorted(set(effects)), nfun, nstmt, missing

"""py2lean (T-ast of DESIGN.md section 3.1): a symbolic executor over Python's `ast` that turns
arithmetic kernels of ezdxf (.py source, and .pyx source after translate.pyxprep) into Lean 4
definitions over core `Rat`.

Typical use (see harness/props/c11.py):

    prog = Program(read=ctx.src)                       # read(relpath) -> source text (records hashes)
    prog.link("ezdxf.math", ["src/ezdxf/acc/vector.pyx", "src/ezdxf/acc/matrix44.pyx"])
    d = translate(prog, "src/ezdxf/acc/matrix44.pyx", "Matrix44.inverse",
                  params=[("self", "m44")], result="self", lean_name="inverse",
                  opaque={"Matrix44.determinant": "determinant"})
    d.text      -> "def inverse (self : M44) : Except PyErr M44 := ..."

Supported subset: straight-line arithmetic (+ - * / unary -, abs/fabs, `** 0.5`, `** 2`), if/elif/else and
conditional expressions, comparisons and and/or/not, tuple (un)packing incl. one starred target, attribute
access on objects of classes defined in the translated modules (methods, properties, static/class methods,
constructors are *executed*, not assumed), flat array indexing and constant slices, calls to other functions
of the linked modules (inlined, or kept as a call when listed in `opaque`), `for` loops over constant ranges /
tuples (unrolled), `for v in <list parameter>` whose body yields exactly one value (becomes `List.map`),
`for i in range(<row count>)` over a 2-D array parameter whose body reads/writes row i only (becomes a
row-wise `List.map`), `raise`, `return`, augmented assignment.
`math.sqrt`/`hypot`/`** 0.5` of a symbolic value become extra parameters r1, r2, ... of the generated
definition; each comes with a generated definition `<name>_rad<k>` of its radicand so a theorem can state
`r_k * r_k = <name>_rad<k> ...`.  `sin/cos/tan` are allowed on *angle* parameters only and become parameters
`c_<angle>`, `s_<angle>`, `t_<angle>`.  A division by a non-constant denominator produces the guard
`if den = 0 then .error PyErr.zeroDivision` (Python and Cython without cdivision both raise).
Anything outside the subset raises `Unsupported` naming the construct and its source line: a translation is
never silently partial.

Branching is handled by path enumeration: the function is re-executed once per path, symbolic conditions
are decided by a decision list, the emitted definition is the decision tree.
"""
from __future__ import annotations

import ast
import os
from dataclasses import dataclass, field
from fractions import Fraction

from . import pyxprep


class Unsupported(Exception):
    pass


# =====================================================================================================
# expression trees: tuples, structural equality
#   numeric: ('c', Fraction) ('v', leantext) ('+',a,b) ('-',a,b) ('*',a,b) ('/',a,b) ('neg',a) ('abs',a)
#            ('ite', cond, a, b) ('call', leanfn, (args...))
#   boolean: ('T',) ('F',) ('<',a,b) ('<=',a,b) ('==',a,b) ('!=',a,b) ('and',p,q) ('or',p,q) ('not',p)
#            ('bv', leantext) ('bcall', leanfn, (args...))
# =====================================================================================================
def const(x) -> tuple:
    return ("c", Fraction(x))


def is_const(e) -> bool:
    return e[0] == "c"


ZERO, ONE = const(0), const(1)


class Num:
    __slots__ = ("e",)

    def __init__(self, e):
        self.e = e

    def __repr__(self):
        return f"Num({show(self.e)})"

    @property
    def is_const(self):
        return self.e[0] == "c"

    @property
    def value(self) -> Fraction:
        assert self.e[0] == "c"
        return self.e[1]


class BoolV:
    __slots__ = ("e",)

    def __init__(self, e):
        self.e = e

    def __repr__(self):
        return f"Bool({show(self.e)})"


class Angle:
    """opaque angle parameter: only sin/cos/tan may be applied to it"""

    def __init__(self, name):
        self.name = name


class Arr:
    """mutable flat array of values (double[n], numpy 1-D array); Python reference semantics = aliasing"""

    def __init__(self, cells):
        self.cells = list(cells)


class Tup:
    """immutable tuple / list literal"""

    def __init__(self, items):
        self.items = list(items)


class Obj:
    def __init__(self, cls: "ClassInfo"):
        self.cls = cls
        self.attrs: dict = {}


class SymList:
    """list parameter iterated by a map-shaped loop"""

    def __init__(self, lean, elem_type):
        self.lean, self.elem_type = lean, elem_type


class SymRows:
    """2-D array parameter (rows of Rat) updated row-wise in place"""

    def __init__(self, lean):
        self.lean = lean
        self.updates = None  # dict col -> expr after the loop ran
        self.cur = None  # row state while the loop body is executed


class RowCount:
    def __init__(self, rows: SymRows):
        self.rows = rows


class RowIndex:
    def __init__(self, rows: SymRows):
        self.rows = rows


class MapResult:
    def __init__(self, lst: SymList, var: str, elem):
        self.lst, self.var, self.elem = lst, var, elem


class FoldResult:
    def __init__(self, lst: SymList, init, acc_var: str, var: str, body):
        self.lst, self.init, self.acc_var, self.var, self.body = lst, init, acc_var, var, body


class Func:
    def __init__(self, node: ast.FunctionDef, module: "Module", cls: "ClassInfo | None", kind: str):
        self.node, self.module, self.cls, self.kind = node, module, cls, kind  # kind: func|method|static|class|property

    @property
    def qualname(self):
        return (self.cls.name + "." if self.cls else "") + self.node.name


class Bound:
    def __init__(self, func: Func, self_obj):
        self.func, self.self_obj = func, self_obj


class Builtin:
    def __init__(self, name):
        self.name = name


class ModuleV:
    def __init__(self, name):
        self.name = name


class ClassInfo:
    def __init__(self, node: ast.ClassDef, module: "Module"):
        self.node, self.module, self.name = node, module, node.name
        self.members: dict = {}
        self.setters: dict = {}
        self.assigns: dict = {}
        for st in node.body:
            if isinstance(st, ast.FunctionDef):
                kind = "method"
                for d in st.decorator_list:
                    dn = ast.unparse(d)
                    if dn == "staticmethod":
                        kind = "static"
                    elif dn == "classmethod":
                        kind = "class"
                    elif dn == "property":
                        kind = "property"
                    elif dn.endswith(".setter"):
                        kind = "setter"
                f = Func(st, module, self, kind)
                if kind == "setter":
                    self.setters[st.name] = f
                else:
                    self.members[st.name] = f
            elif isinstance(st, ast.Assign) and len(st.targets) == 1 and isinstance(st.targets[0], ast.Name):
                self.assigns[st.targets[0].id] = st.value
        self.c_arrays = {}
        self.c_scalars = []
        self._class_values: dict = {}

    def lookup(self, name):
        if name in self.members:
            return self.members[name]
        if name in self.assigns:
            v = self.assigns[name]
            if isinstance(v, ast.Name) and v.id in self.members:  # alias: ocs_to_wcs = transform_direction
                return self.members[v.id]
            return ("classattr", v)
        for b in self.node.bases:
            if isinstance(b, ast.Name):
                base = self.module.lookup_static(b.id)
                if isinstance(base, ClassInfo):
                    r = base.lookup(name)
                    if r is not None:
                        return r
        return None

    def is_subclass_of(self, other: "ClassInfo") -> bool:
        if self is other or self.name == other.name and self.module.path == other.module.path:
            return True
        for b in self.node.bases:
            if isinstance(b, ast.Name):
                base = self.module.lookup_static(b.id)
                if isinstance(base, ClassInfo) and base.is_subclass_of(other):
                    return True
        return False


MATH_FUNCS = {"sin", "cos", "tan", "sqrt", "hypot", "fabs", "isclose", "atan2", "acos", "asin", "atan", "fmod",
              "degrees", "radians", "floor", "ceil", "pi", "tau", "M_PI", "copysign"}


class Module:
    def __init__(self, prog: "Program", path: str):
        self.prog, self.path = prog, path
        text = prog.read(path)
        self.kind = "pyx" if path.endswith(".pyx") else "py"
        self.c_consts = {}
        if self.kind == "pyx":
            try:
                text = pyxprep.preprocess(text)
            except pyxprep.PyxError as e:
                raise Unsupported(f"{path}: {e}")
        self.tree = ast.parse(text, filename=path)
        self.funcs, self.classes, self.assigns, self.imports = {}, {}, {}, {}
        self._globals: dict = {}
        self._evaluating: set = set()
        for st in self.tree.body:
            self._collect(st)
        if self.kind == "pyx":
            pxd = path[:-4] + ".pxd"
            try:
                info = pyxprep.parse_pxd(prog.read(pxd))
            except FileNotFoundError:
                info = {"arrays": {}, "scalars": {}}
            inline = pyxprep.parse_inline_attrs(prog.read(path))
            for cname, ci in self.classes.items():
                ci.c_arrays = dict(info["arrays"].get(cname, {}))
                ci.c_scalars = list(info["scalars"].get(cname, []))
                ci.c_arrays.update(inline.get(cname, {}).get("arrays", {}))
                ci.c_scalars += [a for a in inline.get(cname, {}).get("scalars", []) if a not in ci.c_scalars]
            hdr = os.path.join(os.path.dirname(path), "constants.h")
            try:
                self.c_consts = pyxprep.parse_constants_h(prog.read(hdr))
            except FileNotFoundError:
                pass

    def _collect(self, st):
        if isinstance(st, ast.FunctionDef):
            self.funcs[st.name] = Func(st, self, None, "func")
        elif isinstance(st, ast.ClassDef):
            self.classes[st.name] = ClassInfo(st, self)
        elif isinstance(st, ast.Assign) and len(st.targets) == 1 and isinstance(st.targets[0], ast.Name):
            self.assigns[st.targets[0].id] = st.value
        elif isinstance(st, ast.ImportFrom):
            for a in st.names:
                self.imports[a.asname or a.name] = ("from", "." * st.level + (st.module or ""), a.name)
        elif isinstance(st, ast.Import):
            for a in st.names:
                self.imports[a.asname or a.name] = ("module", a.name, None)
        elif isinstance(st, ast.If):  # `if TYPE_CHECKING:` blocks carry typing imports only
            pass

    def lookup_static(self, name):
        """classes / functions / imported classes without evaluating anything"""
        if name in self.classes:
            return self.classes[name]
        if name in self.funcs:
            return self.funcs[name]
        if name in self.imports:
            return self._resolve_import(name, static=True)
        return None

    def _resolve_import(self, name, static=False):
        kind, mod, orig = self.imports[name]
        if kind == "module":
            return ModuleV(mod)
        if mod in ("math", "libc.math"):
            if orig in MATH_FUNCS:
                return Builtin("math." + orig)
            raise Unsupported(f"{self.path}: import of {mod}.{orig}")
        if mod == "itertools" and orig == "chain":
            return Builtin("chain")
        targets = self.prog.resolve(self.path, mod)
        for t in targets:
            m = self.prog.module(t)
            if name == orig or True:
                if orig in m.classes or orig in m.funcs:
                    return m.lookup_static(orig)
                if orig in m.assigns and not static:
                    return m.global_value(orig)
                if orig in m.assigns and static:
                    return None
        if static:
            return None
        raise Unsupported(f"{self.path}: cannot resolve import {orig!r} from {mod!r}")

    def global_value(self, name):
        if name in self._globals:
            return self._globals[name]
        if name in self.classes:
            return self.classes[name]
        if name in self.funcs:
            return self.funcs[name]
        if name in self.assigns:
            if name in self._evaluating:
                raise Unsupported(f"{self.path}: recursive global {name}")
            self._evaluating.add(name)
            try:
                ex = Exec(self.prog, self)
                v = ex.eval(self.assigns[name], Frame(self, None, {}))
                if ex.events:
                    raise Unsupported(f"{self.path}: global {name} is not a constant expression")
            finally:
                self._evaluating.discard(name)
            self._globals[name] = v
            return v
        if name in self.imports:
            v = self._resolve_import(name)
            return v
        if name in self.c_consts:
            return Num(const(Fraction(float(self.c_consts[name])))) if _is_floaty(self.c_consts[name]) else Num(const(Fraction(self.c_consts[name])))
        return None


def _is_floaty(s: str) -> bool:
    return any(c in s for c in ".eE")


class Program:
    """a set of source files with import resolution"""

    def __init__(self, read):
        self.read = read
        self._modules: dict = {}
        self.links: dict = {}

    def module(self, path) -> Module:
        if path not in self._modules:
            self._modules[path] = Module(self, path)
        return self._modules[path]

    def link(self, import_name: str, paths: list):
        """`from <import_name> import X` is looked up in these files (in order)"""
        self.links[import_name] = list(paths)

    def resolve(self, from_path: str, mod: str) -> list:
        if mod in self.links:
            return self.links[mod]
        if mod.startswith("."):
            base = os.path.dirname(from_path)
            rel = mod.lstrip(".")
            level = len(mod) - len(rel)
            for _ in range(level - 1):
                base = os.path.dirname(base)
            out = []
            for ext in (".pyx", ".py") if from_path.endswith(".pyx") else (".py", ".pyx"):
                p = os.path.join(base, *rel.split(".")) + ext
                try:
                    self.read(p)
                    out.append(p)
                except (FileNotFoundError, OSError):
                    pass
            if out:
                return out[:1]
        raise Unsupported(f"{from_path}: import from {mod!r} is not linked (Program.link)")


class Frame:
    def __init__(self, module: Module, func: Func | None, locals_: dict):
        self.module, self.func, self.locals = module, func, locals_
        self.yields = None


class _Return(Exception):
    def __init__(self, value):
        self.value = value


class _Raise(Exception):
    def __init__(self, name):
        self.name = name


PY_ERRORS = {"ZeroDivisionError": "zeroDivision", "TypeError": "typeError", "ValueError": "valueError",
             "IndexError": "indexError"}


# =====================================================================================================
class Exec:
    """one execution along one path (decision list)"""

    def __init__(self, prog: Program, module: Module, decisions=(), opaque=None, ctx=None):
        self.prog, self.module = prog, module
        self.decisions = list(decisions)
        self.events: list = []  # ('branch', cond, bool) | ('guard', den) | ('sqrt', name, radicand)
        self.nbranch = 0
        self.opaque = opaque or {}
        self.ctx = ctx  # TranslateCtx: sqrt/trig parameter registry shared by all paths
        self.depth = 0
        self.line = 0

    # ------------------------------------------------------------------ helpers
    def err(self, node, what):
        ln = getattr(node, "lineno", self.line)
        raise Unsupported(f"{self.module.path}:{ln}: {what}")

    def decide(self, cond, node=None) -> bool:
        if isinstance(cond, bool):
            return cond
        if isinstance(cond, BoolV):
            e = cond.e
            if e == ("T",):
                return True
            if e == ("F",):
                return False
            for ev in self.events:
                if ev[0] == "branch":
                    if ev[1] == e:
                        return ev[2]
                    if ev[1] == ("not", e) or e == ("not", ev[1]):
                        return not ev[2]
            if self.nbranch < len(self.decisions):
                d = self.decisions[self.nbranch]
            else:
                d = True
                self.decisions.append(True)
            self.nbranch += 1
            self.events.append(("branch", e, d))
            return d
        if cond is None:
            return False
        if isinstance(cond, Num) and cond.is_const:
            return cond.value != 0
        if isinstance(cond, (Tup,)):
            return len(cond.items) > 0
        self.err(node, f"truth value of {type(cond).__name__} is not supported")

    def guard(self, den):
        if is_const(den):
            if den[1] == 0:
                raise _Raise("ZeroDivisionError")
            return
        if ("guard", den) not in self.events:
            self.events.append(("guard", den))

    # ------------------------------------------------------------------ arithmetic
    def num(self, v, node=None) -> Num:
        if isinstance(v, Num):
            return v
        if isinstance(v, bool):
            return Num(const(int(v)))
        self.err(node, f"number expected, got {type(v).__name__}")

    def binop(self, op, a, b, node):
        if isinstance(a, Obj) or isinstance(b, Obj):
            return self.obj_binop(op, a, b, node)
        if isinstance(op, ast.Pow):
            a, b = self.num(a, node), self.num(b, node)
            if b.is_const and b.value == Fraction(1, 2):
                return self.sqrt(a)
            if b.is_const and b.value == 2:
                return Num(mk("*", a.e, a.e))
            self.err(node, "power other than ** 0.5 / ** 2")
        if isinstance(a, Angle) or isinstance(b, Angle):
            self.err(node, "arithmetic on an angle parameter (only sin/cos/tan of the parameter itself is modelled)")
        if isinstance(a, (RowIndex,)) or isinstance(b, (RowIndex,)):
            self.err(node, "arithmetic on a row index")
        a, b = self.num(a, node), self.num(b, node)
        if isinstance(op, ast.Add):
            return Num(mk("+", a.e, b.e))
        if isinstance(op, ast.Sub):
            return Num(mk("-", a.e, b.e))
        if isinstance(op, ast.Mult):
            return Num(mk("*", a.e, b.e))
        if isinstance(op, ast.Div):
            self.guard(b.e)
            return Num(mk("/", a.e, b.e))
        self.err(node, f"operator {type(op).__name__}")

    OPNAMES = {ast.Add: ("__add__", "__radd__"), ast.Sub: ("__sub__", "__rsub__"), ast.Mult: ("__mul__", "__rmul__"),
               ast.Div: ("__truediv__", "__rtruediv__"), ast.MatMult: ("__matmul__", "__rmatmul__")}

    def obj_binop(self, op, a, b, node):
        names = self.OPNAMES.get(type(op))
        if not names:
            self.err(node, f"operator {type(op).__name__} on objects")
        if isinstance(a, Obj):
            f = a.cls.lookup(names[0])
            if isinstance(f, Func):
                return self.call_func(f, [a, b], {}, node)
        if isinstance(b, Obj):
            f = b.cls.lookup(names[1])
            if isinstance(f, Func):
                return self.call_func(f, [b, a], {}, node)
        self.err(node, f"no {names[0]} for operands")

    def sqrt(self, a: Num) -> Num:
        if a.is_const:
            from math import isqrt
            v = a.value
            if v >= 0:
                n, d = isqrt(v.numerator), isqrt(v.denominator)
                if n * n == v.numerator and d * d == v.denominator:
                    return Num(const(Fraction(n, d)))
            raise Unsupported("sqrt of a non-square constant")
        if self.ctx is None:
            raise Unsupported("sqrt outside a translation context")
        for ev in self.events:
            if ev[0] == "sqrt" and ev[2] == a.e:
                return Num(("v", ev[1]))
        name = f"r{sum(1 for ev in self.events if ev[0] == 'sqrt') + 1}"
        self.events.append(("sqrt", name, a.e))
        return Num(("v", name))

    def compare(self, op, a, b, node):
        if isinstance(op, (ast.Is, ast.IsNot)):
            r = (a is b) or (a is None and b is None)
            if not (a is None or b is None or isinstance(a, bool) or isinstance(b, bool)):
                self.err(node, "`is` on values other than None/True/False")
            return r if isinstance(op, ast.Is) else not r
        if isinstance(a, Obj) and isinstance(op, (ast.Eq, ast.NotEq, ast.Lt)):
            name = {ast.Eq: "__eq__", ast.NotEq: "__ne__", ast.Lt: "__lt__"}[type(op)]
            f = a.cls.lookup(name)
            if isinstance(f, Func):
                return self.call_func(f, [a, b], {}, node)
            if isinstance(op, ast.NotEq):
                f = a.cls.lookup("__eq__")
                if isinstance(f, Func):
                    return self.not_(self.call_func(f, [a, b], {}, node))
            self.err(node, f"comparison {name} not defined")
        if isinstance(a, Tup) and isinstance(b, Tup) and isinstance(op, (ast.Eq, ast.NotEq)):
            if all(isinstance(x, Num) and x.is_const for x in a.items + b.items):
                r = [x.value for x in a.items] == [x.value for x in b.items]
                return r if isinstance(op, ast.Eq) else not r
            self.err(node, "comparison of symbolic tuples")
        if isinstance(op, (ast.In, ast.NotIn)):
            if isinstance(b, Tup) and _is_str(a) and all(_is_str(x) for x in b.items):
                r = a in b.items
                return r if isinstance(op, ast.In) else not r
            self.err(node, "`in` on values other than constant strings")
        if _is_str(a) and _is_str(b) and isinstance(op, (ast.Eq, ast.NotEq)):
            return (a == b) if isinstance(op, ast.Eq) else (a != b)
        a, b = self.num(a, node), self.num(b, node)
        table = {ast.Lt: "<", ast.LtE: "<=", ast.Eq: "==", ast.NotEq: "!=", ast.Gt: ">", ast.GtE: ">="}
        if type(op) not in table:
            self.err(node, f"comparison {type(op).__name__}")
        o = table[type(op)]
        if a.is_const and b.is_const:
            x, y = a.value, b.value
            return {"<": x < y, "<=": x <= y, "==": x == y, "!=": x != y, ">": x > y, ">=": x >= y}[o]
        if o == ">":
            return BoolV(("<", b.e, a.e))
        if o == ">=":
            return BoolV(("<=", b.e, a.e))
        return BoolV((o, a.e, b.e))

    def not_(self, v):
        if isinstance(v, bool):
            return not v
        if isinstance(v, BoolV):
            if v.e[0] == "not":
                return BoolV(v.e[1])
            return BoolV(("not", v.e))
        return not self.decide(v)

    def boolv(self, v, node=None):
        if isinstance(v, bool):
            return BoolV(("T",) if v else ("F",))
        if isinstance(v, BoolV):
            return v
        self.err(node, f"boolean expected, got {type(v).__name__}")

    # ------------------------------------------------------------------ expressions
    def eval(self, node, fr: Frame):
        self.line = getattr(node, "lineno", self.line)
        m = getattr(self, "e_" + type(node).__name__, None)
        if m is None:
            self.err(node, f"expression {type(node).__name__}")
        return m(node, fr)

    def e_Constant(self, node, fr):
        v = node.value
        if v is None or isinstance(v, bool):
            return v
        if isinstance(v, int):
            return Num(const(v))
        if isinstance(v, float):
            return Num(const(Fraction(v)))
        if isinstance(v, str):
            return ("str", v)
        self.err(node, f"constant {v!r}")

    def e_Name(self, node, fr):
        name = node.id
        if name in fr.locals:
            return fr.locals[name]
        v = fr.module.global_value(name)
        if v is not None:
            return v
        if name in ("float", "abs", "len", "isinstance", "range", "tuple", "list", "iter", "slice", "__c_array_copy__",
                    "min", "max", "int", "zip", "sum", "reversed"):
            return Builtin(name)
        if name in PY_ERRORS or name.endswith("Error"):
            return ("exc", name)
        if name in fr.module.assigns or name in fr.module.imports:
            return fr.module.global_value(name)
        self.err(node, f"unbound or unsupported name {name!r}")

    def e_UnaryOp(self, node, fr):
        v = self.eval(node.operand, fr)
        if isinstance(node.op, ast.USub):
            if isinstance(v, Obj):
                f = v.cls.lookup("__neg__")
                if isinstance(f, Func):
                    return self.call_func(f, [v], {}, node)
            return Num(mk("neg", self.num(v, node).e))
        if isinstance(node.op, ast.UAdd):
            return self.num(v, node)
        if isinstance(node.op, ast.Not):
            return self.not_(v)
        self.err(node, "unary operator")

    def e_BinOp(self, node, fr):
        return self.binop(node.op, self.eval(node.left, fr), self.eval(node.right, fr), node)

    def e_BoolOp(self, node, fr):
        """and / or.  An operand whose evaluation raises, branches or takes a root is evaluated by Python only if the
        operands before it do not decide: in that case the accumulated condition is decided first (path split) and
        the operand is re-evaluated on the continuing path; operands without such events are combined symbolically."""
        is_and = isinstance(node.op, ast.And)
        acc = None
        for i, vnode in enumerate(node.values):
            mark = (len(self.events), self.nbranch, len(self.decisions))
            v = self.eval(vnode, fr)
            if acc is not None and len(self.events) != mark[0]:
                del self.events[mark[0]:]
                self.nbranch = mark[1]
                del self.decisions[mark[2]:]
                if self.decide(acc, vnode) != is_and:
                    return BoolV(("F",)) if is_and else BoolV(("T",))
                acc = None
                v = self.eval(vnode, fr)
            if isinstance(v, bool) or v is None:
                if bool(v) != is_and:  # False in `and` / True in `or` decides
                    if acc is None:
                        return v
                    return BoolV(("F",)) if is_and else BoolV(("T",))
                continue
            if not isinstance(v, BoolV):
                if i == len(node.values) - 1 and acc is None:
                    return v
                self.err(vnode, "and/or on non-boolean symbolic values")
            acc = v if acc is None else BoolV(("and" if is_and else "or", acc.e, v.e))
        if acc is None:
            return is_and
        return acc

    def e_Compare(self, node, fr):
        left = self.eval(node.left, fr)
        acc = None
        for op, rn in zip(node.ops, node.comparators):
            right = self.eval(rn, fr)
            r = self.compare(op, left, right, node)
            left = right
            if isinstance(r, bool):
                if not r:
                    return False
                continue
            acc = r if acc is None else BoolV(("and", acc.e, r.e))
        return True if acc is None else acc

    def e_IfExp(self, node, fr):
        c = self.eval(node.test, fr)
        return self.eval(node.body if self.decide(c, node) else node.orelse, fr)

    def e_Tuple(self, node, fr):
        items = []
        for el in node.elts:
            if isinstance(el, ast.Starred):
                items += self.iterate(self.eval(el.value, fr), el)
            else:
                items.append(self.eval(el, fr))
        return Tup(items)

    e_List = e_Tuple

    def e_Attribute(self, node, fr):
        base = self.eval(node.value, fr)
        return self.getattr(base, node.attr, node)

    def getattr(self, base, attr, node):
        if isinstance(base, Obj):
            if attr in base.attrs:
                return base.attrs[attr]
            if attr == "__class__":
                return base.cls
            m = base.cls.lookup(attr)
            if isinstance(m, Func):
                if m.kind == "property":
                    return self.call_func(m, [base], {}, node)
                if m.kind == "static":
                    return m
                if m.kind == "class":
                    return Bound(m, base.cls)
                return Bound(m, base)
            if isinstance(m, tuple) and m[0] == "classattr":
                return self.class_value(base.cls, attr, m[1])
            raise _Raise("AttributeError")
        if isinstance(base, ClassInfo):
            if attr == "__name__":
                return ("str", base.name)
            m = base.lookup(attr)
            if isinstance(m, Func):
                if m.kind == "class":
                    return Bound(m, base)
                return m
            if isinstance(m, tuple) and m[0] == "classattr":
                return self.class_value(base, attr, m[1])
            self.err(node, f"class attribute {base.name}.{attr}")
        if isinstance(base, ModuleV):
            if base.name == "math":
                if attr in MATH_FUNCS:
                    return Builtin("math." + attr)
            if base.name == "numpy":
                if attr in ("array", "float64", "ravel"):
                    return Builtin("np." + attr)
                self.err(node, f"numpy.{attr} has no arithmetic model (model it by hand and tie by correspondence)")
            self.err(node, f"{base.name}.{attr}")
        if isinstance(base, Arr):
            if attr == "shape":
                return Tup([Num(const(len(base.cells)))])
            if attr == "copy":
                return Builtin(("arrcopy", base))
            self.err(node, f"array attribute {attr!r} (numpy) has no arithmetic model")
        if isinstance(base, SymRows) and attr == "shape":
            return Tup([RowCount(base), ("opaque", "ncols")])
        if isinstance(base, Tup) and attr == "append":
            return Builtin(("append", base))
        if isinstance(base, (Num, Tup, BoolV, bool)) or base is None:
            raise _Raise("AttributeError")
        self.err(node, f"attribute {attr!r} of {type(base).__name__}")

    def class_value(self, cls: ClassInfo, attr, vnode):
        key = attr
        if key not in cls._class_values:
            ex = Exec(self.prog, cls.module)
            cls._class_values[key] = ex.eval(vnode, Frame(cls.module, None, {}))
        return cls._class_values[key]

    def index_of(self, v, node) -> int:
        if isinstance(v, Num) and v.is_const and v.value.denominator == 1:
            return int(v.value)
        self.err(node, "non-constant index")

    def e_Subscript(self, node, fr):
        base = self.eval(node.value, fr)
        if isinstance(base, SymRows):
            r, c = self.row_index(node, fr, base)
            if c in base.cur:
                return base.cur[c]
            return Num(("v", f"(row.getD {c} 0)"))
        if isinstance(node.slice, ast.Slice):
            lo = self.index_of(self.eval(node.slice.lower, fr), node) if node.slice.lower else None
            hi = self.index_of(self.eval(node.slice.upper, fr), node) if node.slice.upper else None
            if node.slice.step is not None:
                self.err(node, "slice step")
            seq = base.cells if isinstance(base, Arr) else base.items if isinstance(base, Tup) else None
            if seq is None:
                self.err(node, "slice of non-sequence")
            return Tup(seq[lo:hi])
        i = self.index_of(self.eval(node.slice, fr), node)
        if isinstance(base, Arr):
            if not -len(base.cells) <= i < len(base.cells):
                raise _Raise("IndexError")
            return base.cells[i]
        if isinstance(base, Tup):
            if not -len(base.items) <= i < len(base.items):
                raise _Raise("IndexError")
            return base.items[i]
        if isinstance(base, Obj):
            f = base.cls.lookup("__getitem__")
            if isinstance(f, Func):
                return self.call_func(f, [base, Num(const(i))], {}, node)
        self.err(node, f"subscript of {type(base).__name__}")

    def row_index(self, node, fr, rows):
        sl = node.slice
        if not (isinstance(sl, ast.Tuple) and len(sl.elts) == 2):
            self.err(node, "2-D array access must be array[i, k]")
        r = self.eval(sl.elts[0], fr)
        if not (isinstance(r, RowIndex) and r.rows is rows):
            self.err(node, "2-D array access outside the row loop")
        if rows.cur is None:
            self.err(node, "2-D array access outside the row loop")
        return r, self.index_of(self.eval(sl.elts[1], fr), node)

    def e_Call(self, node, fr):
        f = self.eval(node.func, fr)
        args = []
        for a in node.args:
            if isinstance(a, ast.Starred):
                args += self.iterate(self.eval(a.value, fr), a)
            else:
                args.append(self.eval(a, fr))
        kwargs = {}
        for k in node.keywords:
            if k.arg is None:
                self.err(node, "**kwargs")
            kwargs[k.arg] = self.eval(k.value, fr)
        return self.call(f, args, kwargs, node)

    def e_GeneratorExp(self, node, fr):
        """comprehension over CONCRETE iterables (tuples, arrays, objects with __iter__): evaluated eagerly"""
        out = []

        def rec(i):
            if i == len(node.generators):
                out.append(self.eval(node.elt, fr))
                return
            gen = node.generators[i]
            if gen.is_async:
                self.err(node, "async comprehension")
            for v in self.iterate(self.eval(gen.iter, fr), node):
                self.assign(gen.target, v, fr)
                if all(self.decide(self.eval(c, fr), node) for c in gen.ifs):
                    rec(i + 1)

        saved = dict(fr.locals)
        rec(0)
        for n in ast.walk(node):
            if isinstance(n, ast.Name) and isinstance(n.ctx, ast.Store):
                if n.id in saved:
                    fr.locals[n.id] = saved[n.id]
                else:
                    fr.locals.pop(n.id, None)
        return Tup(out)

    e_ListComp = e_GeneratorExp

    # ------------------------------------------------------------------ calls
    def call(self, f, args, kwargs, node):
        if isinstance(f, Bound):
            return self.call_func(f.func, [f.self_obj] + args, kwargs, node)
        if isinstance(f, Func):
            return self.call_func(f, args, kwargs, node)
        if isinstance(f, ClassInfo):
            return self.instantiate(f, args, kwargs, node)
        if isinstance(f, Builtin):
            return self.call_builtin(f.name, args, kwargs, node)
        self.err(node, f"call of {type(f).__name__}")

    def instantiate(self, cls: ClassInfo, args, kwargs, node):
        obj = Obj(cls)
        for a, n in cls.c_arrays.items():
            obj.attrs[a] = Arr([Num(ZERO)] * n)
        for a in cls.c_scalars:
            obj.attrs[a] = Num(ZERO)
        for name in ("__cinit__", "__init__"):
            init = cls.lookup(name)
            if isinstance(init, Func):
                self.call_func(init, [obj] + args, kwargs, node)
                break
        else:
            if args or kwargs:
                self.err(node, f"{cls.name} has no constructor")
        return obj

    def call_func(self, f: Func, args, kwargs, node):
        if f.qualname in self.opaque and self.depth > 0:
            return self.opaque_call(f, args, kwargs, node)
        self.depth += 1
        if self.depth > 40:
            self.err(node, "call depth")
        try:
            fr = Frame(f.module, f, self.bind(f, args, kwargs, node))
            is_gen = any(isinstance(n, (ast.Yield, ast.YieldFrom)) for n in ast.walk(f.node))
            if is_gen:
                fr.yields = []
            saved_module = self.module
            self.module = f.module
            try:
                self.block(f.node.body, fr)
                ret = None
            except _Return as r:
                ret = r.value
            finally:
                self.module = saved_module
            if is_gen:
                if isinstance(fr.yields, MapResult):
                    return fr.yields
                return Tup(fr.yields)
            return ret
        finally:
            self.depth -= 1

    def bind(self, f: Func, args, kwargs, node) -> dict:
        a = f.node.args
        names = [x.arg for x in a.posonlyargs + a.args]
        loc = {}
        args = list(args)
        if len(args) > len(names) and not a.vararg:
            self.err(node, f"too many arguments for {f.qualname}")
        for n, v in zip(names, args):
            loc[n] = v
        if a.vararg:
            loc[a.vararg.arg] = Tup(args[len(names):])
        defaults = dict(zip(names[len(names) - len(a.defaults):], a.defaults))
        for k, v in kwargs.items():
            if k in loc:
                self.err(node, f"duplicate argument {k}")
            if k not in names and k not in [x.arg for x in a.kwonlyargs]:
                self.err(node, f"unexpected keyword {k} for {f.qualname}")
            loc[k] = v
        for n in names:
            if n not in loc:
                if n not in defaults:
                    self.err(node, f"missing argument {n} for {f.qualname}")
                loc[n] = self.eval_default(defaults[n], f)
        for x, d in zip(a.kwonlyargs, a.kw_defaults):
            if x.arg not in loc:
                if d is None:
                    self.err(node, f"missing keyword argument {x.arg}")
                loc[x.arg] = self.eval_default(d, f)
        return loc

    def eval_default(self, dnode, f: Func):
        saved = self.module
        self.module = f.module
        try:
            return self.eval(dnode, Frame(f.module, None, {}))
        finally:
            self.module = saved

    def opaque_call(self, f: Func, args, kwargs, node):
        if kwargs:
            self.err(node, "keyword arguments in opaque call")
        lean_fn = self.opaque[f.qualname]
        return Num(("call", lean_fn, tuple(self.ctx.lean_of_value(a, self, node) for a in args)))

    def iterate(self, v, node) -> list:
        if isinstance(v, Tup):
            return list(v.items)
        if isinstance(v, Arr):
            return list(v.cells)
        if isinstance(v, Obj):
            f = v.cls.lookup("__iter__")
            if isinstance(f, Func):
                r = self.call_func(f, [v], {}, node)
                return self.iterate(r, node)
        if isinstance(v, tuple) and v and v[0] == "range":
            return [Num(const(i)) for i in range(*v[1])]
        self.err(node, f"cannot iterate {type(v).__name__}")

    def call_builtin(self, name, args, kwargs, node):
        if isinstance(name, tuple) and name[0] == "arrcopy":
            return Arr(name[1].cells)
        if isinstance(name, tuple) and name[0] == "append":
            name[1].items.append(args[0])  # list.append: in place (the list object keeps its identity)
            return None
        if name == "zip":
            cols = [self.iterate(a, node) for a in args]
            return Tup([Tup(list(t)) for t in zip(*cols)])
        if name == "reversed":
            return Tup(list(reversed(self.iterate(args[0], node))))
        if name == "sum":
            acc = Num(ZERO) if len(args) < 2 else args[1]
            for v in self.iterate(args[0], node):
                acc = self.binop(ast.Add(), acc, v, node)
            return acc
        if name == "float":
            return self.num(args[0], node)
        if name in ("abs", "math.fabs"):
            v = args[0]
            if isinstance(v, Obj):
                f = v.cls.lookup("__abs__")
                if isinstance(f, Func):
                    return self.call_func(f, [v], {}, node)
            v = self.num(v, node)
            if v.is_const:
                return Num(const(abs(v.value)))
            return Num(("abs", v.e))
        if name == "len":
            v = args[0]
            if isinstance(v, Tup):
                return Num(const(len(v.items)))
            if isinstance(v, Arr):
                return Num(const(len(v.cells)))
            if isinstance(v, Obj):
                f = v.cls.lookup("__len__")
                if isinstance(f, Func):
                    return self.call_func(f, [v], {}, node)
            self.err(node, "len of symbolic value")
        if name == "isinstance":
            v, c = args
            cs = c.items if isinstance(c, Tup) else [c]
            for ci in cs:
                if isinstance(ci, ClassInfo):
                    if isinstance(v, Obj) and v.cls.is_subclass_of(ci):
                        return True
                elif isinstance(ci, Builtin) and ci.name == "slice":
                    pass
                elif isinstance(ci, Builtin) and ci.name in ("tuple", "list"):
                    if isinstance(v, Tup):
                        return True
                else:
                    self.err(node, "isinstance with unsupported class")
            return False
        if name == "range":
            vals = [self.index_of(a, node) if not isinstance(a, RowCount) else a for a in args]
            if len(vals) == 1 and isinstance(vals[0], RowCount):
                return ("rowrange", vals[0].rows)
            return ("range", vals)
        if name in ("tuple", "list"):
            return Tup(self.iterate(args[0], node)) if args else Tup([])
        if name == "chain":
            out = []
            for a in args:
                out += self.iterate(a, node)
            return Tup(out)
        if name == "__c_array_copy__":
            return Arr(self.iterate(args[0], node))
        if name == "np.array":
            return Arr(self.iterate(args[0], node))
        if name == "np.float64":
            return ("opaque", "dtype")
        if name in ("math.sin", "math.cos", "math.tan"):
            a = args[0]
            if not isinstance(a, Angle):
                self.err(node, f"{name} of an expression (only of an angle parameter is modelled)")
            return Num(("v", self.ctx.trig_param(name[5:], a.name)))
        if name == "math.sqrt":
            return self.sqrt(self.num(args[0], node))
        if name == "math.hypot":
            s = None
            for a in args:
                a = self.num(a, node)
                t = mk("*", a.e, a.e)
                s = t if s is None else mk("+", s, t)
            return self.sqrt(Num(s))
        if name == "math.isclose":
            a, b = self.num(args[0], node), self.num(args[1], node)
            rel = self.num(kwargs.get("rel_tol", Num(const(Fraction(1e-9)))), node)
            ab = self.num(kwargs.get("abs_tol", Num(ZERO)), node)
            return BoolV(("bcall", "pyIsclose", (a.e, b.e, rel.e, ab.e)))
        if name in ("min", "max") and len(args) == 2:
            a, b = self.num(args[0], node), self.num(args[1], node)
            c = ("<", b.e, a.e) if name == "min" else ("<", a.e, b.e)
            return Num(("ite", c, b.e, a.e))
        self.err(node, f"call of {name} has no arithmetic model")

    # ------------------------------------------------------------------ statements
    def block(self, stmts, fr):
        for st in stmts:
            self.line = getattr(st, "lineno", self.line)
            m = getattr(self, "s_" + type(st).__name__, None)
            if m is None:
                self.err(st, f"statement {type(st).__name__}")
            m(st, fr)

    def s_Expr(self, st, fr):
        if isinstance(st.value, ast.Constant):
            return  # docstring
        if isinstance(st.value, ast.Yield):
            v = self.eval(st.value.value, fr)
            if not isinstance(fr.yields, list):
                self.err(st, "yield outside generator or after a map loop")
            fr.yields.append(v)
            return
        if isinstance(st.value, ast.YieldFrom):
            self.err(st, "yield from")
        self.eval(st.value, fr)

    def s_Pass(self, st, fr):
        pass

    def s_Return(self, st, fr):
        raise _Return(self.eval(st.value, fr) if st.value is not None else None)

    def s_Raise(self, st, fr):
        if st.exc is None:
            self.err(st, "re-raise")
        e = st.exc.func if isinstance(st.exc, ast.Call) else st.exc
        if isinstance(e, ast.Name):
            raise _Raise(e.id)
        self.err(st, "raise of a computed exception")

    def s_Assert(self, st, fr):
        c = self.eval(st.test, fr)
        if c is True:
            return
        self.err(st, "assert on a symbolic condition")

    def s_Try(self, st, fr):
        if st.finalbody or st.orelse:
            self.err(st, "try with else/finally")
        try:
            self.block(st.body, fr)
        except _Raise as r:
            for h in st.handlers:
                names = []
                if h.type is None:
                    self.err(st, "bare except")
                for t in (h.type.elts if isinstance(h.type, ast.Tuple) else [h.type]):
                    names.append(ast.unparse(t).split(".")[-1])
                if h.name is not None:
                    self.err(st, "except ... as name")
                if r.name in names:
                    self.block(h.body, fr)
                    return
            raise

    def s_If(self, st, fr):
        c = self.eval(st.test, fr)
        self.block(st.body if self.decide(c, st) else st.orelse, fr)

    def s_Assign(self, st, fr):
        v = self.eval(st.value, fr)
        for t in st.targets:
            self.assign(t, v, fr)

    def s_AnnAssign(self, st, fr):
        if st.value is not None:
            self.assign(st.target, self.eval(st.value, fr), fr)

    def s_AugAssign(self, st, fr):
        cur = self.eval(_load(st.target), fr)
        rhs = self.eval(st.value, fr)
        if isinstance(cur, Obj):
            iname = {ast.Mult: "__imul__", ast.Add: "__iadd__", ast.Sub: "__isub__"}.get(type(st.op))
            f = cur.cls.lookup(iname) if iname else None
            if isinstance(f, Func):
                v = self.call_func(f, [cur, rhs], {}, st)
            else:
                v = self.obj_binop(st.op, cur, rhs, st)
        else:
            v = self.binop(st.op, cur, rhs, st)
        self.assign(st.target, v, fr)

    def assign(self, t, v, fr):
        if isinstance(t, ast.Name):
            fr.locals[t.id] = v
        elif isinstance(t, (ast.Tuple, ast.List)):
            items = self.iterate(v, t)
            star = [i for i, e in enumerate(t.elts) if isinstance(e, ast.Starred)]
            if star:
                k = star[0]
                after = len(t.elts) - k - 1
                if len(items) < len(t.elts) - 1:
                    raise _Raise("ValueError")
                parts = items[:k] + [Tup(items[k:len(items) - after])] + items[len(items) - after:]
                for e, x in zip(t.elts, parts):
                    self.assign(e.value if isinstance(e, ast.Starred) else e, x, fr)
            else:
                if len(items) != len(t.elts):
                    raise _Raise("ValueError")
                for e, x in zip(t.elts, items):
                    self.assign(e, x, fr)
        elif isinstance(t, ast.Attribute):
            base = self.eval(t.value, fr)
            if not isinstance(base, Obj):
                self.err(t, "attribute assignment on non-object")
            if t.attr in base.cls.c_arrays:  # C array attribute: memcpy
                base.attrs[t.attr] = Arr(self.iterate(v, t))
                return
            if t.attr in base.cls.setters:
                self.call_func(base.cls.setters[t.attr], [base, v], {}, t)
                return
            m = base.cls.lookup(t.attr)
            if isinstance(m, Func) and m.kind == "property":
                self.err(t, f"assignment to read-only property {t.attr}")
            if isinstance(v, Num) or isinstance(v, (BoolV, bool, Obj, Arr, Tup)) or v is None:
                base.attrs[t.attr] = v
            else:
                self.err(t, f"attribute assignment of {type(v).__name__}")
        elif isinstance(t, ast.Subscript):
            base = self.eval(t.value, fr)
            if isinstance(base, SymRows):
                r, c = self.row_index(t, fr, base)
                base.cur[c] = self.num(v, t)
                return
            if isinstance(t.slice, ast.Slice):
                self.err(t, "slice assignment")
            i = self.index_of(self.eval(t.slice, fr), t)
            if isinstance(base, Arr):
                if not 0 <= i < len(base.cells):
                    raise _Raise("IndexError")
                base.cells[i] = self.num(v, t)
            else:
                self.err(t, f"item assignment on {type(base).__name__}")
        else:
            self.err(t, f"assignment target {type(t).__name__}")

    def s_For(self, st, fr):
        if st.orelse:
            self.err(st, "for-else")
        it = self.eval(st.iter, fr)
        if isinstance(it, SymList):
            if isinstance(fr.yields, list):
                return self.map_loop(st, fr, it)
            return self.fold_loop(st, fr, it)
        if isinstance(it, tuple) and it and it[0] == "rowrange":
            return self.row_loop(st, fr, it[1])
        for v in self.iterate(it, st):
            self.assign(st.target, v, fr)
            self.block(st.body, fr)

    def _assigned_names(self, stmts) -> set:
        out = set()
        for n in ast.walk(ast.Module(body=list(stmts), type_ignores=[])):
            if isinstance(n, ast.Name) and isinstance(n.ctx, ast.Store):
                out.add(n.id)
        return out

    def map_loop(self, st, fr, lst: SymList):
        """for v in <list parameter>: ... yield <one value>   ==>   List.map"""
        if not isinstance(fr.yields, list) or fr.yields:
            self.err(st, "loop over a list parameter is only supported as the single yield-producing loop of a generator")
        if not isinstance(st.target, ast.Name):
            self.err(st, "loop target")
        assigned = self._assigned_names(st.body) | {st.target.id}
        saved = {k: fr.locals.pop(k) for k in list(fr.locals) if k in assigned}  # no loop-carried values
        n_events = len(self.events)
        var = "e"
        fr.locals[st.target.id] = self.ctx.symbolic(lst.elem_type, var, self, st)
        ys = fr.yields
        fr.yields = []
        self.block(st.body, fr)
        if len(fr.yields) != 1:
            self.err(st, "loop body must yield exactly once")
        if len(self.events) != n_events:
            self.err(st, "branch or division guard inside a map loop")
        elem = fr.yields[0]
        for k in assigned:
            fr.locals.pop(k, None)
        fr.yields = MapResult(lst, var, elem)

    def fold_loop(self, st, fr, lst: SymList):
        """acc = init; for v in <list parameter>: acc = f(acc, v)   ==>   List.foldl"""
        if not isinstance(st.target, ast.Name):
            self.err(st, "loop target")
        assigned = self._assigned_names(st.body)
        mutated = set()
        for n in ast.walk(ast.Module(body=list(st.body), type_ignores=[])):
            if isinstance(n, (ast.Attribute, ast.Subscript)) and isinstance(n.ctx, ast.Store):
                b = n.value
                while isinstance(b, (ast.Attribute, ast.Subscript)):
                    b = b.value
                if isinstance(b, ast.Name):
                    mutated.add(b.id)
        carried = [k for k in assigned | mutated if k in fr.locals and not isinstance(fr.locals[k], (Func, ClassInfo, Builtin, ModuleV))]
        if len(carried) != 1:
            self.err(st, f"fold loop needs exactly one loop-carried variable, found {sorted(carried)}")
        acc = carried[0]
        init = fr.locals[acc]
        typ = {"Matrix44": "m44", "Vec3": "v3", "Vec2": "v2"}.get(init.cls.name) if isinstance(init, Obj) else "rat" if isinstance(init, Num) else None
        if typ is None:
            self.err(st, "type of the loop-carried variable")
        for k in assigned - {acc}:
            fr.locals.pop(k, None)
        n_events = len(self.events)
        fr.locals[acc] = self.ctx.symbolic(typ, "acc", self, st)
        fr.locals[st.target.id] = self.ctx.symbolic(lst.elem_type, "e", self, st)
        self.block(st.body, fr)
        if len(self.events) != n_events:
            self.err(st, "branch or division guard inside a fold loop")
        body = fr.locals[acc]
        if self.ctx.type_of_value(body) != self.ctx.type_of_value(init):
            self.err(st, "loop-carried variable changes its type")
        for k in assigned | {st.target.id}:
            fr.locals.pop(k, None)
        fr.locals[acc] = FoldResult(lst, init, "acc", "e", body)

    def row_loop(self, st, fr, rows: SymRows):
        """for i in range(n_rows): reads/writes of array[i, k] only   ==>   row-wise List.map"""
        if rows.updates is not None:
            self.err(st, "second loop over the same array")
        if not isinstance(st.target, ast.Name):
            self.err(st, "loop target")
        assigned = self._assigned_names(st.body) | {st.target.id}
        for k in list(fr.locals):
            if k in assigned:
                fr.locals.pop(k)
        n_events = len(self.events)
        fr.locals[st.target.id] = RowIndex(rows)
        rows.cur = {}
        self.block(st.body, fr)
        if len(self.events) != n_events:
            self.err(st, "branch or division guard inside a row loop")
        rows.updates = dict(rows.cur)
        rows.cur = None
        for k in assigned:
            fr.locals.pop(k, None)


def _is_str(v) -> bool:
    return isinstance(v, tuple) and len(v) == 2 and v[0] == "str"


def _load(t):
    import copy

    t2 = copy.deepcopy(t)
    for n in ast.walk(t2):
        if hasattr(n, "ctx"):
            n.ctx = ast.Load()
    return t2


def mk(op, *args):
    """constructor with constant folding of constant (op) constant only: the source structure is kept"""
    if all(is_const(a) for a in args):
        v = [a[1] for a in args]
        if op == "+":
            return const(v[0] + v[1])
        if op == "-":
            return const(v[0] - v[1])
        if op == "*":
            return const(v[0] * v[1])
        if op == "/" and v[1] != 0:
            return const(v[0] / v[1])
        if op == "neg":
            return const(-v[0])
    return (op,) + args


# =====================================================================================================
# Lean emission
# =====================================================================================================
PREC = {"+": 65, "-": 65, "*": 70, "/": 70, "neg": 75}


def lean_const(f: Fraction, top=False) -> str:
    if f.denominator == 1:
        return f"({f.numerator} : Rat)" if (f.numerator < 0 or top) else str(f.numerator)
    return f"(({f.numerator} : Rat) / {f.denominator})"


def lean_num(e, prec=0) -> str:
    k = e[0]
    if k == "c":
        return lean_const(e[1], top=(prec == 0))
    if k == "v":
        return e[1]
    if k in ("+", "-", "*", "/"):
        p = PREC[k]
        s = f"{lean_num(e[1], p)} {k} {lean_num(e[2], p + 1)}"
        return f"({s})" if p < prec else s
    if k == "neg":
        return f"(-{lean_num(e[1], 75)})"
    if k == "abs":
        return f"(pyAbs {lean_num(e[1], 100)})"
    if k == "ite":
        return f"(if {lean_bool_prop(e[1])} then {lean_num(e[2])} else {lean_num(e[3])})"
    if k == "call":
        return "(" + e[1] + "".join(" " + a for a in e[2]) + ")"
    raise Unsupported(f"emit {k}")


def lean_bool_prop(e) -> str:
    """as a decidable Prop (for `if`)"""
    k = e[0]
    if k == "T":
        return "True"
    if k == "F":
        return "False"
    if k in ("<", "<="):
        return f"{lean_num(e[1], 51)} {'<' if k == '<' else '≤'} {lean_num(e[2], 51)}"
    if k == "==":
        return f"{lean_num(e[1], 51)} = {lean_num(e[2], 51)}"
    if k == "!=":
        return f"{lean_num(e[1], 51)} ≠ {lean_num(e[2], 51)}"
    if k == "and":
        return f"({lean_bool_prop(e[1])} ∧ {lean_bool_prop(e[2])})"
    if k == "or":
        return f"({lean_bool_prop(e[1])} ∨ {lean_bool_prop(e[2])})"
    if k == "not":
        return f"¬ ({lean_bool_prop(e[1])})"
    if k == "bv":
        return f"{e[1]} = true"
    if k == "bcall":
        return "(" + e[1] + "".join(" " + lean_num(a, 100) for a in e[2]) + ") = true"
    raise Unsupported(f"emit {k}")


def lean_bool(e) -> str:
    """as a Bool"""
    k = e[0]
    if k == "T":
        return "true"
    if k == "F":
        return "false"
    if k in ("<", "<=", "==", "!="):
        return f"decide ({lean_bool_prop(e)})"
    if k == "and":
        return f"({lean_bool(e[1])} && {lean_bool(e[2])})"
    if k == "or":
        return f"({lean_bool(e[1])} || {lean_bool(e[2])})"
    if k == "not":
        return f"(!{lean_bool(e[1])})"
    if k == "bv":
        return e[1]
    if k == "bcall":
        return "(" + e[1] + "".join(" " + lean_num(a, 100) for a in e[2]) + ")"
    raise Unsupported(f"emit {k}")


def show(e) -> str:
    try:
        return lean_num(e) if e[0] in ("c", "v", "+", "-", "*", "/", "neg", "abs", "ite", "call") else lean_bool(e)
    except Exception:
        return repr(e)


def atoms(e, out=None) -> set:
    """names of ('v', ...) leaves"""
    out = set() if out is None else out
    if isinstance(e, tuple):
        if e and e[0] == "v":
            out.add(e[1])
        elif e and e[0] in ("call", "bcall"):
            for a in e[2]:
                if isinstance(a, tuple):
                    atoms(a, out)
                else:
                    out.add(("text", a))
        else:
            for a in e[1:]:
                atoms(a, out)
    return out


@dataclass
class LeanDef:
    name: str
    params: list  # [(leanname, leantype)]
    ret_type: str
    body: str
    aux: list = field(default_factory=list)  # radicand definitions (text)
    sqrt_params: list = field(default_factory=list)  # [(r_k, radicand lean text)]
    trig_params: list = field(default_factory=list)  # [(kind, angle, leanname)]
    raises: bool = False
    source: str = ""

    @property
    def signature(self) -> str:
        ps = " ".join(f"({n} : {t})" for n, t in self.params)
        return f"def {self.name} {ps} : {self.ret_type}".replace("  ", " ")

    def sqrt_wrapper(self, suffix="S") -> str:
        """`<name>S (sqrt : Rat → Rat) params` : the definition with every root parameter r_k computed by `sqrt`
        from its radicand (used by drivers with an approximating sqrt, never by theorems)"""
        n = len(self.sqrt_params)
        base = self.params[: len(self.params) - n]
        ps = " ".join(f"({a} : {t})" for a, t in base)
        names = " ".join(a for a, _ in base)
        lets, rs = [], []
        for k in range(1, n + 1):
            lets.append(f"  let r{k} := sqrt ({self.name}_rad{k} {names}{''.join(' ' + r for r in rs)})")
            rs.append(f"r{k}")
        return (f"def {self.name}{suffix} (sqrt : Rat → Rat) {ps} : {self.ret_type} :=\n" + "\n".join(lets)
                + f"\n  {self.name} {names}{''.join(' ' + r for r in rs)}\n")

    @property
    def text(self) -> str:
        doc = f"/-- translated from {self.source} -/\n" if self.source else ""
        return "".join(a + "\n\n" for a in self.aux) + doc + self.signature + " :=\n" + self.body + "\n"


class TranslateCtx:
    """parameter registry shared by all paths of one translation"""

    def __init__(self, prog: Program, module: Module, vec_classes=None):
        self.prog, self.module = prog, module
        self.sqrts: list = []  # [(name, radicand expr)]
        self.trigs: list = []  # [(kind, angle, leanname)]
        self.params: list = []  # [(leanname, leantype)]
        self.obj_lean: dict = {}  # id(obj) -> (leanname, snapshot) for objects that are parameters

    def trig_param(self, kind, angle) -> str:
        n = {"cos": "c_", "sin": "s_", "tan": "t_"}[kind] + angle
        if (kind, angle, n) not in self.trigs:
            self.trigs.append((kind, angle, n))
        return n

    # ---- symbolic parameter values
    def find_class(self, name) -> ClassInfo:
        c = self.module.lookup_static(name)
        if not isinstance(c, ClassInfo):
            for paths in self.prog.links.values():
                for p in paths:
                    m = self.prog.module(p)
                    if name in m.classes:
                        return m.classes[name]
            raise Unsupported(f"class {name} not found from {self.module.path}")
        return c

    def symbolic(self, typ, lean: str, ex: Exec, node=None):
        if typ == "rat":
            return Num(("v", lean))
        if typ == "bool":
            return BoolV(("bv", lean))
        if typ == "angle":
            return Angle(lean)
        if typ == "v3":
            cls = self.find_class("Vec3")
            o = ex.instantiate(cls, [Num(("v", f"{lean}.x")), Num(("v", f"{lean}.y")), Num(("v", f"{lean}.z"))], {}, node)
            self.obj_lean[id(o)] = (lean, _snapshot(o))
            return o
        if typ == "v2":
            cls = self.find_class("Vec2")
            o = ex.instantiate(cls, [Num(("v", f"{lean}.x")), Num(("v", f"{lean}.y"))], {}, node)
            self.obj_lean[id(o)] = (lean, _snapshot(o))
            return o
        if typ == "m44":
            cls = self.find_class("Matrix44")
            o = ex.instantiate(cls, [Tup([Num(("v", f"{lean}.m{i}")) for i in range(16)])], {}, node)
            self.obj_lean[id(o)] = (lean, _snapshot(o))
            return o
        if typ == "arr16":
            return Arr([Num(("v", f"{lean}.m{i}")) for i in range(16)])
        if typ == "t3":  # plain tuple (x, y, z) given as V3
            return Tup([Num(("v", f"{lean}.x")), Num(("v", f"{lean}.y")), Num(("v", f"{lean}.z"))])
        if isinstance(typ, tuple) and typ[0] == "list":
            return SymList(lean, typ[1])
        if isinstance(typ, tuple) and typ[0] == "tuple":
            return Tup([self.symbolic(t, f"{lean}{i}", ex, node) for i, t in enumerate(typ[1])])
        if isinstance(typ, tuple) and typ[0] == "rows":
            return SymRows(lean)
        if isinstance(typ, tuple) and typ[0] == "rowcount":
            return None  # patched by translate()
        if isinstance(typ, tuple) and typ[0] == "obj":
            cls = self.find_class(typ[1])
            o = Obj(cls)
            for a, t in typ[2].items():
                o.attrs[a] = self.symbolic(t, f"{lean}_{a}" if lean != "self" else a, ex, node)
            return o
        raise Unsupported(f"parameter type {typ!r}")

    def lean_type(self, typ) -> str:
        return {"rat": "Rat", "bool": "Bool", "v3": "V3", "v2": "V2", "m44": "M44", "arr16": "M44", "t3": "V3"}[typ]

    # ---- values -> Lean text
    def lean_of_value(self, v, ex: Exec = None, node=None) -> str:
        if isinstance(v, Num):
            return lean_num(v.e, 100)
        if isinstance(v, bool):
            return "true" if v else "false"
        if isinstance(v, BoolV):
            return lean_bool(v.e)
        if isinstance(v, Obj):
            if id(v) in self.obj_lean and self.obj_lean[id(v)][1] == _snapshot(v):
                return self.obj_lean[id(v)][0]
            n = v.cls.name
            if n == "Vec3":
                f = self._fields(v, ("x", "y", "z"), ("_x", "_y", "_z"))
                return "(V3.mk " + " ".join(lean_num(x.e, 100) for x in f) + ")"
            if n == "Vec2":
                f = self._fields(v, ("x", "y"), ("_x", "_y"))
                return "(V2.mk " + " ".join(lean_num(x.e, 100) for x in f) + ")"
            if n == "Matrix44":
                arr = v.attrs.get("m") or v.attrs.get("_matrix")
                if not isinstance(arr, Arr) or len(arr.cells) != 16:
                    raise Unsupported("Matrix44 object without 16 cells")
                return "(M44.mk\n    " + "\n    ".join(lean_num(x.e, 100) for x in arr.cells) + ")"
            raise Unsupported(f"cannot emit object of class {n}")
        if isinstance(v, Tup):
            return "(" + ", ".join(self.lean_of_value(x) for x in v.items) + ")"
        if isinstance(v, Arr):
            if len(v.cells) == 16:
                return "(M44.mk\n    " + "\n    ".join(lean_num(x.e, 100) for x in v.cells) + ")"
            raise Unsupported("array result of length != 16")
        if isinstance(v, MapResult):
            return f"({v.lst.lean}.map fun {v.var} => {self.lean_of_value(v.elem)})"
        if isinstance(v, FoldResult):
            return f"({v.lst.lean}.foldl (fun {v.acc_var} {v.var} => {self.lean_of_value(v.body)}) {self.lean_of_value(v.init)})"
        if isinstance(v, SymRows):
            if v.updates is None:
                return v.lean
            body = "row"
            for c in sorted(v.updates):
                body = f"({body}.set {c} {lean_num(v.updates[c].e, 100)})"
            return f"({v.lean}.map fun row => {body})"
        if v is None:
            return "()"
        raise Unsupported(f"cannot emit value of type {type(v).__name__}")

    def _fields(self, o: Obj, *alts):
        for names in alts:
            if all(n in o.attrs for n in names):
                return [o.attrs[n] for n in names]
        raise Unsupported(f"{o.cls.name} object without fields {alts}")

    def type_of_value(self, v) -> str:
        if isinstance(v, Num):
            return "Rat"
        if isinstance(v, (bool, BoolV)):
            return "Bool"
        if isinstance(v, Obj):
            return {"Vec3": "V3", "Vec2": "V2", "Matrix44": "M44"}.get(v.cls.name) or _unsup(f"result class {v.cls.name}")
        if isinstance(v, Tup):
            return "(" + " × ".join(self.type_of_value(x) for x in v.items) + ")"
        if isinstance(v, Arr) and len(v.cells) == 16:
            return "M44"
        if isinstance(v, MapResult):
            return f"List {self.type_of_value(v.elem)}"
        if isinstance(v, FoldResult):
            return self.type_of_value(v.body)
        if isinstance(v, SymRows):
            return "List (List Rat)"
        if v is None:
            return "Unit"
        raise Unsupported(f"result type {type(v).__name__}")


def _unsup(msg):
    raise Unsupported(msg)


def _snapshot(o: Obj):
    out = []
    for k, v in sorted(o.attrs.items()):
        if isinstance(v, Num):
            out.append((k, v.e))
        elif isinstance(v, Arr):
            out.append((k, tuple(c.e if isinstance(c, Num) else id(c) for c in v.cells)))
        else:
            out.append((k, id(v)))
    return tuple(out)


def find_function(module: Module, qualname: str) -> Func:
    parts = qualname.split(".")
    if len(parts) == 1:
        f = module.funcs.get(parts[0])
    else:
        c = module.classes.get(parts[0])
        f = c.lookup(parts[1]) if c else None
    if not isinstance(f, Func):
        raise Unsupported(f"{module.path}: function {qualname} not found")
    return f


class _ExprFunc:
    """a Python expression evaluated in the context of a module with the parameters bound as local names
    (`translate(..., expr="Bezier4P((p0, p1, p2, p3)).point(t)")`)"""

    def __init__(self, module: Module, expr: str):
        self.module, self.expr = module, expr
        self.node = ast.parse(expr, mode="eval").body
        self.kind, self.cls = "expr", None
        self.qualname = f"<{expr}>"


def translate(prog: Program, path: str, qualname: str | None, params: list, *, lean_name: str | None = None,
              result: str | None = None, opaque: dict | None = None, max_paths: int = 64,
              expr: str | None = None) -> LeanDef:
    """Translate one function/method.

    params: [(python_parameter_name, type)] in Lean parameter order; every Python parameter without a default
      must be listed.  type is one of "rat" "bool" "angle" "v3" "v2" "m44" "arr16" "t3" ("list", elem)
      ("rows",) ("rowcount", <rows param>) ("obj", Class, {attr: type}) ("const", python value)
      ("alias", <other param>) = the very same object as another parameter (aliasing, e.g. `m *= m`).
      A ("const", v) parameter is bound to the Python value v (None/True/False/int/float) and does not appear
      in the Lean signature.  An optional third element renames the Lean parameter.
    result: Python expression evaluated in the final frame on paths that return None (e.g. "self" for methods
      that mutate the receiver, "array" for in-place array kernels); default: the return value.
    opaque: {python qualname: lean function name} calls kept as calls (numeric result) instead of inlined.
    """
    module = prog.module(path)
    f = _ExprFunc(module, expr) if expr is not None else find_function(module, qualname)
    ctx = TranslateCtx(prog, module)
    lean_params = []
    for p in params:
        pn, typ = p[0], p[1]
        ln = p[2] if len(p) > 2 else pn
        if isinstance(typ, tuple) and typ[0] in ("const", "rowcount", "alias"):
            continue
        if typ == "angle":
            continue  # trig parameters are appended in order of use below
        if isinstance(typ, tuple) and typ[0] == "obj":
            def _flat(prefix, objtyp):  # nested object parameters (C12: OCSTransform holding two OCS objects)
                for a, t in objtyp[2].items():
                    n = a if prefix == "self" else f"{prefix}_{a}"
                    if isinstance(t, tuple) and t[0] == "obj":
                        _flat(n, t)
                    else:
                        lean_params.append((n, ctx.lean_type(t)))
            _flat(ln, typ)
        elif isinstance(typ, tuple) and typ[0] == "list":
            lean_params.append((ln, f"List {ctx.lean_type(typ[1])}"))
        elif isinstance(typ, tuple) and typ[0] == "tuple":
            lean_params += [(f"{ln}{i}", ctx.lean_type(t)) for i, t in enumerate(typ[1])]
        elif isinstance(typ, tuple) and typ[0] == "rows":
            lean_params.append((ln, "List (List Rat)"))
        else:
            lean_params.append((ln, ctx.lean_type(typ)))
    result_node = ast.parse(result, mode="eval").body if result else None

    runs = []
    decisions: list = []
    while True:
        ex = Exec(prog, module, decisions, opaque, ctx)
        leaf = _run_once(ex, f, params, ctx, result_node)
        runs.append((list(ex.events), leaf))
        if len(runs) > max_paths:
            raise Unsupported(f"{qualname or expr}: more than {max_paths} paths")
        d = ex.decisions
        while d and d[-1] is False:
            d.pop()
        if not d:
            break
        d[-1] = False
        decisions = d

    # result type
    types = {ctx.type_of_value(l[1]) for _, l in runs if l[0] == "ret"}
    rets = [l[1] for _, l in runs if l[0] == "ret"]
    if len(types) == 2 and "Unit" in types:  # Optional[T]: `return None` on some paths
        inner = (types - {"Unit"}).pop()
        ctx.wrap = ("option", inner)
        types = {f"Option {inner}" if " " not in inner or inner.startswith("(") else f"Option ({inner})"}
    elif len(types) > 1 and all(isinstance(v, Tup) for v in rets):
        elem = {ctx.type_of_value(x) for v in rets for x in v.items}
        if len(elem) == 1:  # tuples of different lengths with one element type: a list
            ctx.wrap = ("list", elem.copy().pop())
            types = {f"List {elem.pop()}"}
    if len(types) != 1:
        raise Unsupported(f"{qualname or expr}: result types differ between paths or no returning path: {types}")
    rtype = types.pop()
    raises = any(l[0] == "raise" for _, l in runs) or any(ev[0] == "guard" for evs, _ in runs for ev in evs)
    body = _emit_tree(runs, 0, ctx, raises, "  ")
    # trig params in order of first use, sqrt params
    sig = list(lean_params)
    angle_order = [(p[2] if len(p) > 2 else p[0]) for p in params if p[1] == "angle"]
    ctx.trigs.sort(key=lambda t: (angle_order.index(t[1]), ("cos", "sin", "tan").index(t[0])))
    for kind, angle, ln in ctx.trigs:
        sig.append((ln, "Rat"))
    aux = []
    sqrt_info = []
    name = lean_name or (qualname or "expr").replace(".", "_")
    nsqrt = max([sum(1 for ev in evs if ev[0] == "sqrt") for evs, _ in runs] + [0])
    for k in range(1, nsqrt + 1):
        ps = " ".join(f"({n} : {t})" for n, t in sig)
        rtxt = _emit_rad_tree(runs, 0, f"r{k}", "  ")
        aux.append(f"/-- radicand of the k-th square root (k = {k}) evaluated by `{name}`, which takes the root as parameter r{k};\n"
                   f"    0 on paths that evaluate fewer square roots -/\n"
                   f"def {name}_rad{k} {ps} : Rat :=\n{rtxt}")
        sqrt_info.append((f"r{k}", rtxt))
        sig.append((f"r{k}", "Rat"))
    ret_type = f"Except PyErr {rtype}" if raises else rtype
    if raises and " " in rtype and not rtype.startswith("("):
        ret_type = f"Except PyErr ({rtype})"
    ctx.wrap = None
    return LeanDef(name=name, params=sig, ret_type=ret_type, body=body, aux=aux, sqrt_params=sqrt_info,
                   trig_params=list(ctx.trigs), raises=raises, source=f"{path}: {qualname or expr}")


def _run_once(ex: Exec, f: Func, params, ctx: TranslateCtx, result_node):
    args = {}
    rows_by_name = {}
    try:
        for p in params:
            pn, typ = p[0], p[1]
            ln = p[2] if len(p) > 2 else pn
            if isinstance(typ, tuple) and typ[0] == "const":
                v = typ[1]
                args[pn] = Num(const(Fraction(v))) if isinstance(v, (int, float)) and not isinstance(v, bool) else v
            elif isinstance(typ, tuple) and typ[0] == "rowcount":
                args[pn] = RowCount(rows_by_name[typ[1]])
            elif isinstance(typ, tuple) and typ[0] == "alias":
                args[pn] = args[typ[1]]  # the SAME object as another parameter (m *= m)
            else:
                v = ctx.symbolic(typ, ln, ex)
                if isinstance(v, SymRows):
                    rows_by_name[pn] = v
                args[pn] = v
        if isinstance(f, _ExprFunc):
            ex.depth = 1
            return ("ret", ex.eval(f.node, Frame(f.module, None, dict(args))))
        a = f.node.args
        names = [x.arg for x in a.posonlyargs + a.args]
        pos = []
        kw = {}
        star_list = None
        for n in names[1:] if f.kind == "class" else names:
            if n in args:
                pos.append(args.pop(n))
            else:
                break
        if a.vararg and a.vararg.arg in args:
            v = args.pop(a.vararg.arg)
            if isinstance(v, SymList):
                star_list = v
            else:
                pos += ex.iterate(v, f.node)
        kw = dict(args)
        if f.kind == "class":
            pos = [f.cls] + pos
        elif f.kind == "method" and names and names[0] not in [p[0] for p in params]:
            raise Unsupported(f"{f.qualname}: receiver parameter {names[0]!r} missing from params")
        ex.depth = 0
        fr = Frame(f.module, f, ex.bind(f, pos, kw, f.node))
        if star_list is not None:
            fr.locals[a.vararg.arg] = star_list  # `*args` given as a list parameter: only iteration is supported
        is_gen = any(isinstance(n, (ast.Yield, ast.YieldFrom)) for n in ast.walk(f.node))
        if is_gen:
            fr.yields = []
        ex.depth = 1
        try:
            ex.block(f.node.body, fr)
            ret = None
        except _Return as r:
            ret = r.value
        if is_gen:
            ret = fr.yields if isinstance(fr.yields, MapResult) else Tup(fr.yields)
        if ret is None and result_node is not None:
            ret = ex.eval(result_node, fr)
        return ("ret", ret)
    except _Raise as r:
        if r.name not in PY_ERRORS:
            raise Unsupported(f"{f.qualname}: raises {r.name} (not in the modelled error enum)")
        return ("raise", r.name)


def _emit_tree(runs, depth, ctx: TranslateCtx, raises: bool, ind: str) -> str:
    """runs: [(events, leaf)] all sharing events[:depth]"""
    evs, leaf = runs[0]
    if depth == len(evs):
        if len(runs) != 1:
            raise Unsupported("internal: ambiguous paths")
        if leaf[0] == "raise":
            return f"{ind}.error PyErr.{PY_ERRORS[leaf[1]]}"
        facts = {ev[1]: ev[2] for ev in evs if ev[0] == "branch"}
        val = _apply_facts(leaf[1], facts)
        wrap = getattr(ctx, "wrap", None)
        if wrap and wrap[0] == "option":
            txt = "none" if val is None else f"(some {ctx.lean_of_value(val)})"
        elif wrap and wrap[0] == "list":
            txt = "[" + ", ".join(ctx.lean_of_value(x) for x in val.items) + "]"
        else:
            txt = ctx.lean_of_value(val)
        return f"{ind}.ok {txt}" if raises else f"{ind}{txt}"
    ev = evs[depth]
    if ev[0] == "sqrt":
        if any(len(r[0]) <= depth or r[0][depth] != ev for r in runs):
            raise Unsupported("internal: sqrt mismatch between paths")
        return _emit_tree(runs, depth + 1, ctx, raises, ind)
    if ev[0] == "guard":
        if any(r[0][depth] != ev for r in runs):
            raise Unsupported("internal: guard mismatch between paths")
        rest = _emit_tree(runs, depth + 1, ctx, raises, ind)
        return f"{ind}if {lean_num(ev[1], 51)} = 0 then .error PyErr.zeroDivision else\n{rest}"
    t = [r for r in runs if r[0][depth][2] is True]
    e = [r for r in runs if r[0][depth][2] is False]
    if any(r[0][depth][:2] != ev[:2] for r in runs) or not t or not e:
        raise Unsupported("internal: branch mismatch between paths")
    return (f"{ind}if {lean_bool_prop(ev[1])} then\n{_emit_tree(t, depth + 1, ctx, raises, ind + '  ')}\n"
            f"{ind}else\n{_emit_tree(e, depth + 1, ctx, raises, ind + '  ')}")


def simplify_bool(e, facts: dict):
    """replace sub-conditions whose truth value was decided on this path by that value"""
    if e in facts:
        return ("T",) if facts[e] else ("F",)
    k = e[0]
    if k == "not":
        x = simplify_bool(e[1], facts)
        return ("F",) if x == ("T",) else ("T",) if x == ("F",) else ("not", x)
    if k in ("and", "or"):
        a, b = simplify_bool(e[1], facts), simplify_bool(e[2], facts)
        unit, zero = (("T",), ("F",)) if k == "and" else (("F",), ("T",))
        if a == zero or b == zero:
            return zero
        if a == unit:
            return b
        if b == unit:
            return a
        return (k, a, b)
    return e


def _apply_facts(v, facts: dict):
    if not facts:
        return v
    if isinstance(v, BoolV):
        return BoolV(simplify_bool(v.e, facts))
    if isinstance(v, Tup):
        return Tup([_apply_facts(x, facts) for x in v.items])
    return v


def _emit_rad_tree(runs, depth, rname, ind) -> str:
    evs = runs[0][0]
    if depth >= len(evs):
        if len(runs) != 1:
            raise Unsupported("internal: ambiguous paths")
        return f"{ind}0"
    ev = evs[depth]
    if ev[0] == "sqrt" and ev[1] == rname:
        return f"{ind}{lean_num(ev[2])}"
    if ev[0] in ("sqrt", "guard"):
        return _emit_rad_tree(runs, depth + 1, rname, ind)
    t = [r for r in runs if r[0][depth][2] is True]
    e = [r for r in runs if r[0][depth][2] is False]
    a, b = _emit_rad_tree(t, depth + 1, rname, ind + "  "), _emit_rad_tree(e, depth + 1, rname, ind + "  ")
    if a.strip() == b.strip():
        return f"{ind}{a.strip()}"
    return f"{ind}if {lean_bool_prop(ev[1])} then\n{a}\n{ind}else\n{b}"


def lean_file(namespace: str, defs: list, imports=("EzdxfVerif.Model.Rat3",), opens=("EzdxfVerif.Rat3",), extra: str = "") -> str:
    out = "".join(f"import {i}\n" for i in imports)
    out += "\nset_option linter.unusedVariables false\n"
    out += f"\nnamespace {namespace}\n" + "".join(f"open {o}\n" for o in opens) + "\n"
    for d in defs:
        out += (d.text if isinstance(d, LeanDef) else d) + "\n"
    out += extra + f"end {namespace}\n"
    return out

"""Pre-pass that turns the arithmetic subset of a Cython .pyx file into source that Python's `ast`
can parse, keeping the two Cython idioms that are semantically significant:

  cdef double[16] m = self.m      ->  m = __c_array_copy__(self.m)      (snapshot copy)
  cdef double *m = self.m         ->  m = self.m                        (alias)

plus a side table of C-array attributes per class (read from the .pxd): an assignment to such an
attribute (`self.m = IDENTITY`, `_copy.m = self.m`) is a memcpy.  Everything else that is Cython
only (cdef/cpdef function headers, C types of parameters and locals, casts `<T> x`, `cimport`,
`cdef extern` blocks, `except -1000` clauses, `swap(&a, &b)`) is stripped or rewritten.  Line
numbers are preserved (a logical line is rewritten on its first physical line, continuation lines
become blank) so error messages point into the .pyx file.
"""
from __future__ import annotations

import re

C_TYPES = (
    "double", "float", "int", "long", "bint", "Py_ssize_t", "size_t", "object", "tuple", "list", "void",
    "unsigned", "char", "short", "bool",
)
_CAST = re.compile(r"<\s*(?:[A-Za-z_][\w\.]*)\s*\**\s*>\s*(?=[A-Za-z_(])")
_SWAP = re.compile(r"\bswap\(\s*&\s*([^,]+?)\s*,\s*&\s*([^)]+?)\s*\)\s*$")


class PyxError(Exception):
    pass


def _logical_lines(text: str):
    """yield (first_lineno0, n_physical, joined_text) ; comments are kept only outside joins"""
    lines = text.split("\n")
    i = 0
    while i < len(lines):
        start = i
        buf = lines[i]
        depth = _depth(buf)
        while (depth > 0 or _strip_comment(buf).rstrip().endswith("\\")) and i + 1 < len(lines):
            b = _strip_comment(buf).rstrip()
            if b.endswith("\\"):
                b = b[:-1]
            i += 1
            buf = b + " " + lines[i].strip()
            depth = _depth(buf)
        yield start, i - start + 1, buf
        i += 1


def _strip_comment(s: str) -> str:
    out, q = [], None
    i = 0
    while i < len(s):
        c = s[i]
        if q:
            out.append(c)
            if c == "\\" and i + 1 < len(s):
                out.append(s[i + 1])
                i += 1
            elif c == q:
                q = None
        elif c in "\"'":
            q = c
            out.append(c)
        elif c == "#":
            break
        else:
            out.append(c)
        i += 1
    return "".join(out)


def _depth(s: str) -> int:
    s = _strip_comment(s)
    d, q = 0, None
    i = 0
    while i < len(s):
        c = s[i]
        if q:
            if c == "\\":
                i += 1
            elif c == q:
                q = None
        elif c in "\"'":
            if s.startswith(c * 3, i):  # docstrings: treat as opaque to the end of line
                j = s.find(c * 3, i + 3)
                if j < 0:
                    return d  # multi-line docstring start: handled by caller state
                i = j + 2
            else:
                q = c
        elif c in "([{":
            d += 1
        elif c in ")]}":
            d -= 1
        i += 1
    return d


def _split_top(s: str, sep=","):
    parts, d, cur, q = [], 0, [], None
    for c in s:
        if q:
            cur.append(c)
            if c == q:
                q = None
            continue
        if c in "\"'":
            q = c
        if c in "([{":
            d += 1
        elif c in ")]}":
            d -= 1
        if c == sep and d == 0:
            parts.append("".join(cur))
            cur = []
        else:
            cur.append(c)
    parts.append("".join(cur))
    return parts


def _strip_param(p: str) -> str:
    """`double x = 1.0` -> `x = 1.0`; `Vec3 a` -> `a`; `double [:, ::1] array` -> `array`;
    `axis: UVec` -> `axis`; `*args` kept"""
    p = p.strip()
    if not p:
        return p
    default = None
    eq = _split_top(p, "=")
    if len(eq) > 1:
        p, default = eq[0].strip(), "=".join(eq[1:]).strip()
    colon = _split_top(p, ":")
    if len(colon) > 1 and "[" not in colon[0]:
        p = colon[0].strip()
    # memoryview / pointer types
    p = re.sub(r"\[[^\]]*\]", " ", p)
    p = p.replace("*", " * ") if not p.startswith("*") else p
    toks = p.split()
    if p.startswith("*"):
        name = p.replace(" ", "")
    else:
        name = toks[-1]
        if name == "*":
            raise PyxError(f"cannot parse parameter {p!r}")
    return name + (f"={default}" if default is not None else "")


def _def_header(line: str, indent: str, kw: str) -> str:
    """`cdef inline double f(Vec3 a, double b) except -1000:` -> `def f(a, b):`"""
    body = _strip_comment(line).strip()
    m = re.match(r"^(?:cdef|cpdef|def)\s+(.*?)\s*\((.*)\)\s*(?:->\s*[^:]+?)?\s*(?:(?:except|noexcept)[^:]*)?:\s*$", body)
    if not m:
        raise PyxError(f"cannot parse function header: {body!r}")
    name = m.group(1).split()[-1]
    params = ", ".join(_strip_param(p) for p in _split_top(m.group(2)) if p.strip())
    return f"{indent}def {name}({params}):"


def parse_pxd(text: str) -> dict:
    """{class: {attr: n}} for C-array attributes `cdef double m[16]`, and {class: [scalar attrs]}"""
    arrays, scalars, cls = {}, {}, None
    for ln in text.split("\n"):
        s = _strip_comment(ln).rstrip()
        m = re.match(r"^cdef class (\w+)\s*:", s)
        if m:
            cls = m.group(1)
            arrays.setdefault(cls, {})
            scalars.setdefault(cls, [])
            continue
        if s and not s[0].isspace():
            cls = None
        if cls:
            m = re.match(r"^\s+cdef\s+(?:readonly\s+|public\s+)?double\s+(\w+)\[(\d+)\]\s*$", s)
            if m:
                arrays[cls][m.group(1)] = int(m.group(2))
                continue
            m = re.match(r"^\s+cdef\s+(?:readonly\s+|public\s+)?double\s+([\w\s,]+)$", s)
            if m:
                scalars[cls] += [a.strip() for a in m.group(1).split(",")]
    return {"arrays": arrays, "scalars": scalars}


def parse_constants_h(text: str) -> dict:
    return {m.group(1): m.group(2) for m in re.finditer(r"^#define\s+(\w+)\s+([-+\w\.]+)\s*$", text, flags=re.M)}


def _expand_cdef_blocks(text: str) -> str:
    """`cdef:` followed by an indented block of declarations -> one `cdef <decl>` per line (same line numbers)"""
    lines = text.split("\n")
    out = []
    i = 0
    while i < len(lines):
        ln = lines[i]
        m = re.match(r"^(\s*)cdef\s*:\s*(#.*)?$", ln)
        if not m:
            out.append(ln)
            i += 1
            continue
        base = m.group(1)
        out.append("")
        i += 1
        while i < len(lines):
            nxt = lines[i]
            if nxt.strip() == "" or nxt.strip().startswith("#"):
                out.append("" if nxt.strip() == "" else nxt)
                i += 1
                continue
            ind = nxt[: len(nxt) - len(nxt.lstrip())]
            if len(ind) <= len(base):
                break
            out.append(base + "cdef " + nxt.strip())
            i += 1
    return "\n".join(out)


def parse_inline_attrs(text: str) -> dict:
    """C attributes declared inside `cdef class` bodies of a .pyx file (not in a .pxd):
    {class: {"arrays": {name: n}, "scalars": [names]}}"""
    text = _expand_cdef_blocks(text)
    out, cls, cls_indent = {}, None, 0
    for ln in text.split("\n"):
        s = _strip_comment(ln).rstrip()
        if not s.strip():
            continue
        ind = len(s) - len(s.lstrip())
        m = re.match(r"^\s*cdef class (\w+)", s)
        if m:
            cls, cls_indent = m.group(1), ind
            out.setdefault(cls, {"arrays": {}, "scalars": []})
            continue
        if cls and ind <= cls_indent:
            cls = None
        if cls and ind == cls_indent + 4:
            body = s.strip()
            m = re.match(r"^cdef\s+(?:readonly\s+|public\s+)?double\s*\[\s*(\d+)\s*\]\s+(\w+)\s*$", body) or None
            if m:
                out[cls]["arrays"][m.group(2)] = int(m.group(1))
                continue
            m = re.match(r"^cdef\s+(?:readonly\s+|public\s+)?double\s+(\w+)\s*\[\s*(\d+)\s*\]\s*$", body)
            if m:
                out[cls]["arrays"][m.group(1)] = int(m.group(2))
                continue
            m = re.match(r"^cdef\s+(?:readonly\s+|public\s+)?(?:double|int|bint)\s+([\w\s,]+)$", body)
            if m and "(" not in body:
                out[cls]["scalars"] += [a.strip() for a in m.group(1).split(",")]
    return out


def preprocess(text: str) -> str:
    text = _expand_cdef_blocks(text)
    out_lines = []
    in_doc = None
    extern_indent = None
    for start, nphys, line in _logical_lines(text):
        raw = line
        stripped = line.strip()
        indent = line[: len(line) - len(line.lstrip())]
        # multi-line docstrings pass through untouched
        if in_doc:
            if in_doc in line:
                in_doc = None
            new = raw
        elif stripped.startswith(('"""', "'''")) and stripped.count(stripped[:3]) == 1:
            in_doc = stripped[:3]
            new = raw
        else:
            code = _strip_comment(line).rstrip()
            cs = code.strip()
            if extern_indent is not None:
                if cs and len(indent) <= len(extern_indent):
                    extern_indent = None
                else:
                    out_lines += [""] * nphys
                    continue
            if re.match(r"^cdef extern from\b", cs):
                extern_indent = indent
                out_lines += [""] * nphys
                continue
            new = _rewrite(code, cs, indent)
        out_lines.append(new)
        out_lines += [""] * (nphys - 1)
    return "\n".join(out_lines)


def _rewrite(code: str, cs: str, indent: str) -> str:
    if not cs:
        return code
    code = _CAST.sub("", code)
    cs = code.strip()
    m = _SWAP.match(cs)
    if m:
        a, b = m.group(1), m.group(2)
        return f"{indent}{a}, {b} = {b}, {a}"
    if "&" in cs and not re.search(r"['\"].*&.*['\"]", cs):
        raise PyxError(f"address-of / bit-and outside swap(): {cs!r}")
    if re.match(r"^(from\s+\S+\s+cimport|cimport)\b", cs):
        return indent + cs.replace("cimport", "import", 1)
    if re.match(r"^cdef class\b", cs):
        return indent + cs[5:]
    if re.match(r"^with\s+cython\.\w+(\(.*\))?\s*:\s*$", cs):
        return indent + "if True:"
    if re.match(r"^ctypedef\b", cs):
        return indent + "pass"
    if re.match(r"^(cdef|cpdef)\b", cs):
        if cs.endswith(":") and "(" in cs:
            return _def_header(cs, indent, "cdef")
        return indent + _cdef_decl(cs)
    if re.match(r"^def\b", cs) and cs.endswith(":"):
        return _def_header(cs, indent, "def")
    return code


def _cdef_decl(cs: str) -> str:
    """local / module level C declaration"""
    body = re.sub(r"^(cdef|cpdef)\s+", "", cs)
    parts = _split_top(body, ",")
    if len(parts) > 1 and "=" in body:
        # `double lwr = 0.0, upr = 1.0` / `double t0 = 0.0, t1`: scalar declarations sharing one type
        m = re.match(r"^((?:const\s+)?(?:unsigned\s+)?[\w\.]+)\s+(.*)$", parts[0].strip())
        if not m or "[" in m.group(1) or "*" in parts[0]:
            raise PyxError(f"cannot parse C declaration {cs!r}")
        items = [m.group(2)] + [p.strip() for p in parts[1:]]
        stmts = [it for it in items if "=" in it]
        if any(not re.match(r"^\w+\s*=", it) for it in stmts):
            raise PyxError(f"cannot parse C declaration {cs!r}")
        return "; ".join(stmts) if stmts else "pass"
    if "=" in body:
        lhs, rhs = [t.strip() for t in _split_top(body, "=")[:2]]
        rhs = "=".join(t for t in _split_top(body, "=")[1:]).strip()
        m = re.match(r"^(?:const\s+)?[\w\.]+\s*\[\s*\d+\s*\]\s+(\w+)$", lhs) or re.match(r"^(?:const\s+)?[\w\.]+\s+(\w+)\s*\[\s*\d+\s*\]$", lhs)
        if m:  # fixed-size C array initialised from another array / list literal: memcpy
            return f"{m.group(1)} = __c_array_copy__({rhs})"
        m = re.match(r"^(?:const\s+)?[\w\.]+\s*\*\s*(\w+)$", lhs)
        if m:  # pointer: alias
            return f"{m.group(1)} = {rhs}"
        m = re.match(r"^(?:const\s+)?(?:unsigned\s+)?[\w\.]+\s+(\w+)$", lhs)
        if m:
            return f"{m.group(1)} = {rhs}"
        raise PyxError(f"cannot parse C declaration {cs!r}")
    # declaration without initialiser (possibly several names) or function prototype
    return "pass"

"""py2lean_c10: additive extension of py2lean for property C10 (loops of the accelerated twins).

py2lean translates whole functions of the straight-line / unrolled-loop subset.  The B-spline basis, the line type
renderer, the numpy helpers and earcut are loops over arrays of symbolic length, which py2lean rejects.  This module
cuts the loop BODIES and loop TESTS out of the function's AST, turns each cut into a synthetic function of its free
scalars and hands that to the unchanged `py2lean.translate`:

    cut = Cut(prog, path, "Basis.basis_funcs")
    d = cut.kernel("bfInner", cut.loop("for r in range(j)").body, params=[("N_r","rat"), ...],
                   returns=["N_r", "saved"], scalar={"N[r]": "N_r", "right[r + 1]": "right_r1", "left[j - r]": "left_jr"})

`scalar` maps source text of array cells / attributes (as printed by `ast.unparse`) to the scalar names of the
synthetic function: the cell a body reads/writes is named by the hand written loop skeleton (Model/TwinLoops.lean),
the arithmetic done with it is translated.  What remains of the function after all cuts are replaced by
`KERNEL_<name>` place holders is the loop SKELETON; `Cut.skeleton()` prints it in a normal form and
`check_skeletons` compares it with the pinned text (harness/props/c10_skeletons.json), so an edit of the loop structure
of either twin is reported as a broken translation instead of being silently ignored by the hand written skeleton.
Nothing in py2lean.py is changed; the synthetic functions are registered in the per-run `Module` object only.
"""
from __future__ import annotations

import ast
import copy
import difflib
import json

from .py2lean import Func, Program, Unsupported, find_function, translate, LeanDef  # noqa: F401


class _Scalarize(ast.NodeTransformer):
    def __init__(self, table: dict):
        self.table = dict(table)
        self.used: set = set()

    def visit(self, node):
        if isinstance(node, ast.expr):  # any expression: cells, attributes, calls kept opaque, identity tests (`p is not a`)
            txt = ast.unparse(node)
            if txt in self.table:
                self.used.add(txt)
                return ast.copy_location(ast.Name(id=self.table[txt], ctx=getattr(node, "ctx", ast.Load())), node)
        return self.generic_visit(node)


class _DropCasts(ast.NodeTransformer):
    """pyxprep leaves C casts `<double> x` as calls `__cast__(x)`-free text; nothing to do for the forms met so far"""


class Cut:
    """the cuts made in ONE function"""

    def __init__(self, prog: Program, path: str, qualname: str, fn_node: ast.FunctionDef | None = None):
        self.prog, self.path, self.qualname = prog, path, qualname
        self.module = prog.module(path)
        self.fn = fn_node if fn_node is not None else find_function(self.module, qualname).node
        self.kernels: list = []

    # ------------------------------------------------------------------ selecting AST nodes
    def nodes(self, typ, contains: str | None = None, within=None) -> list:
        out = []
        for n in ast.walk(within if within is not None else self.fn):
            if isinstance(n, typ) and (contains is None or contains in ast.unparse(n)):
                out.append(n)
        out.sort(key=lambda n: (n.lineno, n.col_offset))
        return out

    def node(self, typ, contains: str | None = None, nth: int = 0, within=None):
        ns = self.nodes(typ, contains, within)
        if len(ns) <= nth:
            raise Unsupported(f"{self.path}: {self.qualname}: no {typ.__name__ if isinstance(typ, type) else typ} #{nth} containing {contains!r}")
        return ns[nth]

    def loop(self, header: str, nth: int = 0, within=None):
        """the nth `for`/`while` statement whose header text is exactly `header` (e.g. 'for r in range(j)', 'while lo < hi')"""
        found = []
        for n in self.nodes((ast.For, ast.While), None, within):
            h = (f"for {ast.unparse(n.target)} in {ast.unparse(n.iter)}" if isinstance(n, ast.For) else f"while {ast.unparse(n.test)}")
            if h == header:
                found.append(n)
        if len(found) <= nth:
            raise Unsupported(f"{self.path}: {self.qualname}: loop {header!r} #{nth} not found")
        return found[nth]

    def expr(self, text: str, nth: int = 0, within=None):
        """the nth expression node that prints exactly as `text`"""
        found = [n for n in self.nodes(ast.expr, None, within) if ast.unparse(n) == text]
        if len(found) <= nth:
            raise Unsupported(f"{self.path}: {self.qualname}: expression {text!r} #{nth} not found")
        return found[nth]

    def test(self, text: str, nth: int = 0, within=None):
        """the test expression of the nth if / conditional expression / while whose test prints exactly as `text`"""
        found = [n.test for n in self.nodes((ast.If, ast.IfExp, ast.While), None, within) if ast.unparse(n.test) == text]
        if len(found) <= nth:
            raise Unsupported(f"{self.path}: {self.qualname}: test {text!r} #{nth} not found")
        return found[nth]

    def stmts(self, first: str, count: int = 1, within=None) -> list:
        """`count` consecutive statements of one block, the first one printing as `first`"""
        for n in ast.walk(within if within is not None else self.fn):
            for fld in ("body", "orelse"):
                blk = getattr(n, fld, None)
                if isinstance(blk, list):
                    for i, st in enumerate(blk):
                        if isinstance(st, ast.stmt) and ast.unparse(st).split("\n")[0].strip() == first and i + count <= len(blk):
                            return blk[i:i + count]
        raise Unsupported(f"{self.path}: {self.qualname}: statement {first!r} not found")

    # ------------------------------------------------------------------ kernels
    def kernel(self, lean_name: str, sel, params: list, returns: list | None = None, scalar: dict | None = None,
               opaque: dict | None = None, max_paths: int = 64, keep: bool = False) -> LeanDef:
        """sel: an ast.expr (kernel returns its value) or a list of statements (kernel returns the tuple of the
        variables named in `returns`, after the statements ran)"""
        sc = _Scalarize(scalar or {})
        name = f"c10cut_{lean_name}"
        if isinstance(sel, ast.expr):
            marks = [sel]
            body = [ast.Return(value=sc.visit(copy.deepcopy(sel)))]
            what = "expression"
        else:
            sel = [s for s in sel if not isinstance(s, ast.Pass)]
            if not sel or not returns:
                raise Unsupported(f"{self.qualname}/{lean_name}: a statement kernel needs statements and `returns`")
            marks = sel
            body = [sc.visit(copy.deepcopy(s)) for s in sel]
            rv = [ast.Name(id=r, ctx=ast.Load()) for r in returns]
            body.append(ast.Return(value=rv[0] if len(rv) == 1 else ast.Tuple(elts=rv, ctx=ast.Load())))
            what = f"{len(sel)} statement(s)"
        missing = set(scalar or {}) - sc.used
        if missing:
            raise Unsupported(f"{self.path}: {self.qualname}/{lean_name}: cells {sorted(missing)} do not occur in the cut (source changed?)")
        for i, m in enumerate([] if keep else marks):  # keep=True: translated, but the text stays in the skeleton
            if getattr(m, "_c10_cut", None) is not None:
                pass  # the same text may feed two kernels (e.g. a test and its value)
            m._c10_cut = (lean_name, i)
        fdef = ast.FunctionDef(name=name, args=ast.arguments(posonlyargs=[], args=[ast.arg(arg=p[0]) for p in params], kwonlyargs=[],
                                                               kw_defaults=[], defaults=[]), body=body, decorator_list=[], type_params=[])
        ast.copy_location(fdef, marks[0])
        ast.fix_missing_locations(fdef)
        self.module.funcs[name] = Func(fdef, self.module, None, "func")
        d = translate(self.prog, self.path, name, params, lean_name=lean_name, opaque=opaque, max_paths=max_paths)
        # py2lean prints a Bool leaf of a raising kernel as `.ok decide (p)` (missing parentheses; no kernel of the other properties has that
        # shape): parenthesised here, py2lean.py itself stays untouched
        d.body = "\n".join((ln[: len(ln) - len(ln.lstrip())] + ".ok (" + ln.strip()[4:] + ")") if ln.strip().startswith(".ok decide ") else ln
                           for ln in d.body.split("\n"))
        src = ast.unparse(marks[0] if len(marks) == 1 else ast.Module(body=list(marks), type_ignores=[])).replace("\n", "; ")
        d.source = f"{self.path}: {self.qualname}, {what} at line {marks[0].lineno}: `{src[:160]}`" + (
            f" with cells {scalar}" if scalar else "")
        d.source = d.source.replace("-/", "- /")
        self.kernels.append(d)
        return d

    # ------------------------------------------------------------------ skeleton
    def skeleton(self) -> str:
        """the function with every cut replaced by KERNEL_<name>, docstring / pass / type annotations removed"""
        fn = copy.deepcopy(self.fn)

        class R(ast.NodeTransformer):
            def visit(self, node):
                c = getattr(node, "_c10_cut", None)
                if c is not None:
                    nm, i = c
                    if isinstance(node, ast.expr):
                        return ast.Name(id=f"KERNEL_{nm}", ctx=ast.Load())
                    if i == 0:
                        return ast.Expr(value=ast.Name(id=f"KERNEL_{nm}", ctx=ast.Load()))
                    return None
                if isinstance(node, ast.Pass):
                    return None
                if isinstance(node, ast.Expr) and isinstance(node.value, ast.Constant) and isinstance(node.value.value, str):
                    return None
                if isinstance(node, ast.AnnAssign) and node.value is not None and node.simple:
                    node = ast.Assign(targets=[node.target], value=node.value)
                    ast.fix_missing_locations(node)
                if isinstance(node, ast.arg):
                    node.annotation = None
                    return node
                return self.generic_visit(node)

        fn = R().visit(fn)
        fn.returns = None
        fn.decorator_list = [d for d in fn.decorator_list if "cdivision" in ast.unparse(d)]
        for n in ast.walk(fn):  # blocks emptied by the removal of `pass` / docstrings
            for fld in ("body", "orelse"):
                blk = getattr(n, fld, None)
                if isinstance(blk, list) and fld == "body" and not blk:
                    blk.append(ast.Pass())
        ast.fix_missing_locations(fn)
        return ast.unparse(fn)


def check_skeletons(actual: dict, pinned_path: str, write: bool = False) -> list:
    """actual: {"<path>::<qualname>": skeleton text}.  Returns the list of problems (empty = all pinned skeletons match)."""
    if write:
        with open(pinned_path, "w") as f:
            json.dump(actual, f, indent=1, sort_keys=True)
            f.write("\n")
        return []
    try:
        with open(pinned_path) as f:
            pinned = json.load(f)
    except FileNotFoundError:
        return [f"pinned skeletons {pinned_path} missing"]
    out = []
    for k in sorted(set(actual) | set(pinned)):
        a, p = actual.get(k), pinned.get(k)
        if a == p:
            continue
        if a is None or p is None:
            out.append(f"{k}: {'not pinned' if p is None else 'no longer cut'}")
            continue
        diff = "\n".join(list(difflib.unified_diff(p.split("\n"), a.split("\n"), "pinned", "current", lineterm="", n=1))[:24])
        out.append(f"{k}: differs from the pinned text (loop skeleton modelled by Model/TwinLoops.lean, or pinned twin diff):\n{diff}")
    return out


# ------------------------------------------------------------------------------------------------ n-ary min / max
# py2lean models `min(a, b)` / `max(a, b)` (first minimal / maximal argument wins, as in CPython); the n-ary forms are the left fold of the
# binary one - exactly CPython's loop over the arguments.  Added here (wrapping, not editing, Exec.call_builtin) for earcut's 3-argument calls.
from . import py2lean as _p2l

if not getattr(_p2l.Exec, "_c10_nary_minmax", False):
    _orig_call_builtin = _p2l.Exec.call_builtin

    def _call_builtin(self, name, args, kwargs, node):
        if name in ("min", "max") and len(args) > 2 and not kwargs:
            acc = args[0]
            for a in args[1:]:
                acc = _orig_call_builtin(self, name, [acc, a], {}, node)
            return acc
        return _orig_call_builtin(self, name, args, kwargs, node)

    _p2l.Exec.call_builtin = _call_builtin
    _p2l.Exec._c10_nary_minmax = True

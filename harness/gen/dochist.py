"""Operation histories on a real ezdxf document (shared by C04 C05 C06).

A history is a list of abstract operations chosen by a seeded generator that looks only at the
*harness' own bookkeeping* (never at the model).  `Runner` applies them to a real Drawing through the
public API and renders, after every step, the observables that the Lean `Doc` machine must reproduce:

    outcome ; seed ; containers ; entities ; blocks ; layouts ; layers

Request lines carry the handles the implementation chose (the model is non-deterministic in the
choice of fresh handles and *checks* freshness instead of predicting the value).
"""
from __future__ import annotations

import io
import logging

logging.getLogger("ezdxf").setLevel(logging.CRITICAL)

ERR = {
    "DXFValueError": "DXFValueError", "DXFKeyError": "DXFKeyError", "DXFTableEntryError": "DXFTableEntryError",
    "DXFBlockInUseError": "DXFBlockInUseError", "DXFStructureError": "DXFStructureError", "ValueError": "ValueError",
    "KeyError": "KeyError", "DXFTypeError": "DXFTypeError",
}


def hx(h) -> int:
    return int(h, 16)


class Runner:
    def __init__(self, version="R2010"):
        import ezdxf

        self.ezdxf = ezdxf
        self.doc = ezdxf.new(version)
        self.other = ezdxf.new(version)  # a second, empty document for cross-document requests
        self.version = version
        self.ents: dict[int, object] = {}  # handle -> python entity (every entity the history created)
        self.order: list[int] = []
        self.subs: dict[int, list] = {}    # handle of a linked parent -> its sub-entity objects as last seen alive

    def tables_line(self) -> str:
        out = []
        for t, tab in sorted(self.tabs().items()):
            for e in tab:
                out.append((t, e.dxf.name.lower()))
        return " ".join(f"{t}:{enc(n)}" for t, n in sorted(out))

    def tabs(self):
        d = self.doc
        return {1: d.linetypes, 2: d.styles, 3: d.dimstyles, 4: d.appids, 5: d.ucs, 6: d.views}

    def init_line(self) -> str:
        doc = self.doc
        ks = " ".join(str(hx(br.dxf.handle)) for br in doc.block_records)
        bs = " ".join(f"{enc(doc.blocks.key(br.dxf.name))}:{enc(br.dxf.name)}:{hx(br.dxf.handle)}" for br in doc.block_records)
        ls = " ".join(f"{enc(l.name)}:{hx(l.block_record_handle)}:{l.dxf.taborder}" for l in doc.layouts)
        ly = " ".join(enc(l.dxf.name.lower()) for l in doc.layers)
        return f"init|{self.seed()}|{ks}|{bs}|{ls}|{ly}|{self.tables_line()}"

    # ---- helpers
    def seed(self) -> int:
        return self.doc.entitydb.handles._handle

    def containers(self):
        """block record handle -> layout object, for every live block record"""
        out = {}
        for br in self.doc.block_records:
            if br.is_alive:
                out[hx(br.dxf.handle)] = br.block_layout if br.block_layout is not None else None
        return out

    def layout_of(self, k: int):
        br = self.doc.entitydb.get("%X" % k)
        if br is None or not br.is_alive or br.dxftype() != "BLOCK_RECORD":
            return None
        name = br.dxf.name
        lay = self.doc.blocks.get(name)
        return lay

    def container_of_layoutname(self, name):
        return hx(self.doc.layouts.get(name).block_record_handle)

    # ---- one operation: returns (request_line, response_prefix)
    def apply(self, op) -> tuple[str, str]:
        doc = self.doc
        kind = op[0]
        req = None
        try:
            if kind == "add":
                k = op[1]
                e = self.layout_of(k).add_line((0, 0), (1, 1))
                h = hx(e.dxf.handle)
                self.ents[h] = e
                self.order.append(h)
                req = f"add|{k}|{h}"
            elif kind == "ins":
                k, name = op[1], op[2]
                e = self.layout_of(k).add_blockref(name, (0, 0))
                h = hx(e.dxf.handle)
                self.ents[h] = e
                self.order.append(h)
                # an INSERT always owns a SEQEND (`LinkedEntities.post_bind_hook`): a linked parent without attribs
                req = f"addl|{k}|{enc(name)}|{h}|{self.sub_handles(e)}"
            elif kind == "unlink":
                req = f"unlink|{op[1]}|{op[2]}"
                self.layout_of(op[1]).unlink_entity(self.ents[op[2]])
            elif kind == "addex":
                req = f"addex|{op[1]}|{op[2]}"
                self.layout_of(op[1]).add_entity(self.ents[op[2]])
            elif kind == "move":
                req = f"move|{op[1]}|{op[2]}|{op[3]}"
                self.layout_of(op[1]).move_to_layout(self.ents[op[2]], self.layout_of(op[3]))
            elif kind == "del":
                req = f"del|{op[1]}|{op[2]}"
                self.layout_of(op[1]).delete_entity(self.ents[op[2]])
            elif kind == "destroy":
                req = f"destroy|{op[1]}"
                self.ents[op[1]].destroy()
            elif kind == "copy":
                src = self.ents[op[1]]
                e = src.copy_to_layout(self.layout_of(op[2]))
                h = hx(e.dxf.handle)
                self.ents[h] = e
                self.order.append(h)
                req = f"copy|{op[1]}|{op[2]}|{h}|{self.sub_handles(e)}"
            elif kind == "addl":
                # a linked parent: POLYLINE + VERTEX... + SEQEND, or INSERT + ATTRIB... + SEQEND
                k, name = op[1], op[2]
                lay = self.layout_of(k)
                if name is None:
                    e = lay.add_polyline2d([(0, 0), (1, 0), (1, 1)][: op[3]])
                else:
                    e = lay.add_blockref(name, (1, 1))
                    for i in range(op[3]):
                        e.add_attrib("TAG%d" % i, "v", (0, i))
                h = hx(e.dxf.handle)
                self.ents[h] = e
                self.order.append(h)
                req = f"addl|{k}|{'-' if name is None else enc(name)}|{h}|{self.sub_handles(e)}"
            elif kind == "explode":
                e = self.ents[op[1]]
                req0 = f"explode|{op[1]}|"
                nattr = len(e.attribs) if e.is_alive and e.dxftype() == "INSERT" else 0
                try:
                    new = list(e.explode())
                except Exception:
                    req = req0
                    raise
                for x in new:
                    h = hx(x.dxf.handle)
                    self.ents[h] = x
                    self.order.append(h)
                # the TEXT entities replacing the attached ATTRIBs come last and take the handles of the ATTRIBs:
                # the model derives them, only the copies of the block content carry new handles
                copies = new[: len(new) - nattr]
                req = req0 + " ".join(f"{hx(x.dxf.handle)}/{self.sub_handles(x)}" for x in copies)
            elif kind == "auditstep":
                req = "auditstep"
                doc.audit()
            elif kind == "addentry":
                t, name = op[1], op[2]
                req = f"addentry|{t}|{enc(name)}"
                tab = self.tabs()[t]
                if t == 1:
                    tab.add(name, pattern=[0.2, 0.1, -0.1])
                elif t == 2:
                    tab.add(name, font="arial.ttf")
                else:
                    tab.add(name)
            elif kind == "delentry":
                req = f"delentry|{op[1]}|{enc(op[2])}"
                self.tabs()[op[1]].remove(op[2])
            elif kind == "dupentry":
                req = f"dupentry|{op[1]}|{enc(op[2])}|{enc(op[3])}"
                self.tabs()[op[1]].duplicate_entry(op[2], op[3])
            elif kind == "newgroup":
                req0 = f"newgroup|{enc(op[1])}"
                try:
                    g = doc.groups.new(op[1])
                except Exception:
                    req = req0 + "|0"
                    raise
                req = req0 + f"|{hx(g.dxf.handle)}"
            elif kind == "setgroup":
                req = f"setgroup|{enc(op[1])}|{','.join(str(h) for h in op[2])}"
                doc.groups.get(op[1]).set_data([self.ents[h] for h in op[2]])
            elif kind == "delgroup":
                req = f"delgroup|{enc(op[1])}"
                doc.groups.delete(op[1])
            elif kind == "purge":
                req = "purge"
                doc.entitydb.purge()
                for lay in list(doc.blocks):
                    lay.purge()
            elif kind == "newblock":
                req0 = f"newblock|{enc(op[1])}"
                try:
                    blk = doc.blocks.new(op[1])
                except Exception:
                    req = req0 + "|0"
                    raise
                req = req0 + f"|{hx(blk.block_record_handle)}"
            elif kind == "delblock":
                req = f"delblock|{enc(op[1])}|{int(op[2])}"
                doc.blocks.delete_block(op[1], safe=op[2])
            elif kind == "renblock":
                req = f"renblock|{enc(op[1])}|{enc(op[2])}"
                doc.blocks.rename_block(op[1], op[2])
            elif kind == "newlayout":
                req0 = f"newlayout|{enc(op[1])}"
                try:
                    lay = doc.layouts.new(op[1])
                except Exception:
                    req = req0 + "|0"
                    raise
                req = req0 + f"|{hx(lay.block_record_handle)}"
            elif kind == "dellayout":
                req = f"dellayout|{enc(op[1])}"
                doc.layouts.delete(op[1])
            elif kind == "renlayout":
                req = f"renlayout|{enc(op[1])}|{enc(op[2])}"
                doc.layouts.rename(op[1], op[2])
            elif kind == "activate":
                req = f"activate|{enc(op[1])}"
                doc.layouts.set_active_layout(op[1])
            elif kind == "addlayer":
                req = f"addlayer|{enc(op[1])}"
                doc.layers.add(op[1])
            elif kind == "dellayer":
                req = f"dellayer|{enc(op[1])}"
                doc.layers.remove(op[1])
            elif kind == "reload":
                req = "reload"
                s = io.StringIO()
                doc.write(s)
                s.seek(0)
                self.doc = self.ezdxf.read(s)
                new = {}
                for h in self.ents:
                    e = self.doc.entitydb.get("%X" % h)
                    if e is not None:
                        new[h] = e
                    else:
                        new[h] = _Dead()
                self.ents = new
                self.subs = {}
            elif kind == "foreign":
                req = f"foreign|{op[1]}|{op[2]}"
                e = self.ents[op[2]]
                target = self.other.modelspace()
                if op[1] == 0:    # layout.move_to_layout(entity, layout of another document)
                    self.layout_of(hx(e.dxf.owner)).move_to_layout(e, target)
                elif op[1] == 1:  # other_layout.add_entity(entity)
                    target.add_entity(e)
                else:             # entity.copy_to_layout(layout of another document)
                    e.copy_to_layout(target)
            elif kind == "dmgowner":
                req = f"dmgowner|{op[1]}|{'-' if op[2] is None else op[2]}"
                self.ents[op[1]].dxf.owner = None if op[2] is None else "%X" % op[2]
            elif kind == "dmgappend":
                req = f"dmgappend|{op[1]}|{op[2]}"
                self.layout_of(op[1]).entity_space.add(self.ents[op[2]])
            elif kind == "auditfix":
                req = "audit"
                a = doc.audit()
                return req + f"|{self.seed()}", f"ok:{len(a.fixes)}"
            elif kind in RICH_OPS:
                req = "rich:" + kind
                self.apply_rich(op)
            else:
                raise AssertionError(kind)
            out = "ok"
        except AssertionError:
            raise
        except Exception as ex:  # noqa
            name = type(ex).__name__
            out = "err:" + ERR.get(name, "other")
        assert req is not None, op
        return req + f"|{self.seed()}", out

    def sub_entities(self, e):
        if e.is_alive and hasattr(e, "all_sub_entities"):
            if e.dxftype() == "INSERT" and not len(e.attribs):
                # the SEQEND of an INSERT without ATTRIBs is never written (a new one is created on loading)
                return []
            return [x for x in e.all_sub_entities() if x is not None]
        return []

    def sub_handles(self, e) -> str:
        return ",".join(str(hx(x.dxf.handle)) for x in self.sub_entities(e))

    # ---- operations outside the Lean model (C04/C06 oracle histories only)
    def track(self, e):
        h = hx(e.dxf.handle)
        self.ents[h] = e
        self.order.append(h)
        return e

    def apply_rich(self, op):
        doc = self.doc
        kind = op[0]
        r12 = self.version == "R12"
        if kind == "addpoly":
            lay = self.layout_of(op[1])
            self.track(lay.add_polyline2d([(0, 0), (1, 0), (1, 1)]))
        elif kind == "addpoly3d":
            self.track(self.layout_of(op[1]).add_polyline3d([(0, 0, 0), (1, 0, 1), (1, 1, 2)]))
        elif kind == "addattr":
            # valid boundary values of the common graphic attributes
            lay = self.layout_of(op[1])
            color, lw, trans = op[2]
            e = lay.add_line((0, 0), (1, 1), dxfattribs={"color": color} if r12 else {"color": color, "lineweight": lw})
            if trans is not None and not r12:
                e.transparency = trans
            self.track(e)
        elif kind == "groupedit":
            if r12:
                return
            groups = [g for _, g in doc.groups]
            if not groups:
                return
            g = groups[op[1] % len(groups)]
            new = [self.ents[h] for h in op[2] if self.ents[h].is_alive and self.ents[h].dxf.owner is not None]
            with g.edit_data() as data:   # keeps the old members, adds new ones
                for e in new:
                    if not data or e.dxf.owner == data[0].dxf.owner:
                        if e not in data:
                            data.append(e)
        elif kind == "addmisc":
            lay = self.layout_of(op[1])
            which = op[2]
            if which == 0:
                self.track(lay.add_circle((0, 0), 1.5))
            elif which == 1:
                self.track(lay.add_text("txt", dxfattribs={"style": "Standard"}))
            elif which == 2:
                self.track(lay.add_point((1, 2, 3)))
            elif which == 3 and not r12:
                self.track(lay.add_lwpolyline([(0, 0, 0, 0, 0.5), (1, 0), (1, 1)]))
            elif which == 4 and not r12:
                self.track(lay.add_mtext("multi\\Pline"))
            elif which == 5 and not r12:
                self.track(lay.add_spline([(0, 0), (1, 1), (2, 0), (3, 1)]))
            elif which == 6 and not r12:
                h = lay.add_hatch(color=2)
                h.paths.add_polyline_path([(0, 0), (1, 0), (1, 1)], is_closed=True)
                self.track(h)
            elif which == 7 and not r12:
                self.track(lay.add_ellipse((0, 0), (2, 0), 0.5))
            elif which == 8 and not r12:
                m = lay.add_mesh()
                with m.edit_data() as d:
                    d.vertices = [(0, 0, 0), (1, 0, 0), (1, 1, 0)]
                    d.faces = [[0, 1, 2]]
                self.track(m)
            elif which == 9:
                self.track(lay.add_solid([(0, 0), (1, 0), (0, 1)]))
            elif which == 10 and not r12:
                self.track(lay.add_leader([(0, 0), (1, 1), (2, 1)]))
            elif which == 11 and not r12:
                dim = lay.add_linear_dim(base=(0, 2), p1=(0, 0), p2=(3, 0))
                dim.render()
                self.track(dim.dimension)
            else:
                self.track(lay.add_arc((0, 0), 1, 0, 90))
        elif kind == "insattr":
            lay = self.layout_of(op[1])
            ins = lay.add_blockref(op[2], (1, 1))
            ins.add_attrib("TAG", "value", (0, 0))
            ins.add_attrib("TAG2", "v2", (0, 1))
            self.track(ins)
        elif kind == "delattribs":
            e = self.ents[op[1]]
            if e.is_alive and e.dxftype() == "INSERT":
                e.delete_all_attribs()
                if len(op) > 2 and op[2] and e.dxf.owner is not None:
                    e.add_attrib("AGAIN", "v", (0, 0))   # attribs again after all were deleted
        elif kind == "addattrib":
            e = self.ents[op[1]]
            if e.is_alive and e.dxftype() == "INSERT" and e.dxf.owner is not None:
                e.add_attrib("T%d" % len(e.attribs), "v", (0, 0))
        elif kind == "customprop":
            doc.header.custom_vars.append("Key%d" % len(doc.header.custom_vars), "value")
        elif kind == "group":
            if r12:
                return
            members = [self.ents[h] for h in op[1] if self.ents[h].is_alive and self.ents[h].dxf.owner is not None]
            g = doc.groups.new()
            g.set_data(members)
        elif kind == "xdict":
            e = self.ents[op[1]]
            if r12 or not e.is_alive:
                return
            xd = e.new_extension_dict() if not e.has_extension_dict else e.get_extension_dict()
            key = "VERIF"
            while key in xd:   # replacing an entry orphans the old one (finding F19, probed separately)
                key += "X"
            xr = xd.add_xrecord(key)
            xr.reset([(1, "payload"), (90, 7)])
        elif kind == "xdata":
            e = self.ents[op[1]]
            if not e.is_alive:
                return
            if "VERIFAPP" not in doc.appids:
                doc.appids.add("VERIFAPP")
            e.set_xdata("VERIFAPP", [(1000, "s"), (1070, 5), (1005, e.dxf.handle)])
        elif kind == "reactor":
            e, t = self.ents[op[1]], self.ents[op[2]]
            if r12 or not (e.is_alive and t.is_alive) or t.dxf.owner is None:
                return
            e.append_reactor_handle(t.dxf.handle)
        elif kind == "explode":
            e = self.ents[op[1]]
            if not e.is_alive or e.dxf.owner is None or e.dxftype() != "INSERT":
                return
            if doc.blocks.get(e.dxf.name) is None:
                return
            for x in e.explode():
                self.track(x)
        elif kind == "copylinked":
            e = self.ents[op[1]]
            if not e.is_alive:
                return
            self.track(e.copy_to_layout(self.layout_of(op[2])))
        elif kind == "audit":
            doc.audit()
        elif kind == "dellinked":
            e = self.ents[op[1]]
            if not e.is_alive or e.dxf.owner is None:
                return
            e.get_layout().delete_entity(e)
        elif kind == "newlayer_used":
            lay = self.layout_of(op[1])
            if op[2] not in doc.layers:
                doc.layers.add(op[2])
            self.track(lay.add_line((0, 0), (1, 0), dxfattribs={"layer": op[2]}))

    # ---- observables
    def observe(self) -> str:
        doc = self.doc
        cont = []
        for br in doc.block_records:
            if not br.is_alive:
                continue
            k = hx(br.dxf.handle)
            space = br.entity_space
            cont.append((k, len(space), [hx(e.dxf.handle) for e in space]))
        cont.sort()
        cs = " ".join(f"{k}:{n}:{','.join(map(str, hs))}" for k, n, hs in cont)
        es = []
        for h in self.order:
            e = self.ents[h]
            if not e.is_alive:
                # the sub-entities of a destroyed parent must be destroyed as well
                stale = [x for x in self.subs.get(h, []) if x.is_alive]
                es.append(f"{h}:dead" + ("".join(":LIVE-SUB-%s" % x.dxf.handle for x in stale)))
                continue
            subs = self.sub_entities(e)
            if subs:
                self.subs[h] = subs
            owner = e.dxf.owner
            indb = doc.entitydb.get("%X" % h) is e
            lay = None
            try:
                lay = e.get_layout()
            except Exception as ex:  # noqa
                lay = "EXC" + type(ex).__name__
            # a dangling owner makes get_layout() raise KeyError instead of returning None: shown as "?"
            layk = "-" if lay is None else ("?" if isinstance(lay, str) else str(hx(lay.block_record_handle)))
            sb = "/".join(
                f"{hx(x.dxf.handle)},{'-' if x.dxf.owner is None else hx(x.dxf.owner)},"
                f"{int(doc.entitydb.get(x.dxf.handle) is x)},{int(x.dxf.get('paperspace', 0))}" for x in subs)
            es.append(f"{h}:{'-' if owner is None else hx(owner)}:{int(indb)}:{layk}:{int(e.dxf.get('paperspace', 0))}:{sb}")
        bl = sorted((doc.blocks.key(b.name), hx(b.block_record_handle)) for b in doc.blocks)
        bs = " ".join(f"{enc(n)}:{k}" for n, k in bl)
        try:
            ls = " ".join(f"{enc(n)}:{hx(doc.layouts.get(n).block_record_handle)}" for n in doc.layouts.names_in_taborder())
        except Exception as ex:  # noqa
            ls = "EXC" + type(ex).__name__
        try:
            act = hx(doc.layouts.get_active_layout_key())
        except Exception as ex:  # noqa  (no active paperspace layout: a broken document, shown as such)
            act = "EXC" + type(ex).__name__
        ly = " ".join(enc(n) for n in sorted(l.dxf.name.lower() for l in doc.layers))
        gs = " ".join(f"{enc(n)}:{hx(g.dxf.handle)}:{','.join(str(hx(x.dxf.handle)) for x in g)}"
                      for n, g in sorted(doc.groups, key=lambda p: [ord(c) for c in p[0]]))
        return f"{cs};{' '.join(es)};{bs};{ls};{act};{ly};{self.tables_line()};{gs}"


RICH_OPS = {"addattr", "groupedit", "delattribs", "addattrib", "customprop", "addpoly", "addpoly3d", "addmisc", "insattr", "group", "xdict", "xdata", "reactor", "explode",
            "copylinked", "audit", "dellinked", "newlayer_used"}


def gen_rich(rng):
    """chooser for histories of the C04/C06 oracle: model ops + rich ops, always within documented use"""
    base = gen_history(rng, 0, misuse=False)

    def choose(r: Runner):
        ks = sorted(r.containers().keys())
        live = [h for h in r.order if r.ents[h].is_alive]
        linked = [h for h in live if r.ents[h].dxf.owner is not None]
        x = rng.random()
        if x < 0.45 or not linked:
            op = base(r)
            # stay inside documented/safe use for a closed file
            if op[0] == "delblock":
                return ("delblock", op[1], True)
            if op[0] == "dellayer":
                return ("purge",)          # removing layers in use / layer 0 is not safe use
            if op[0] == "renblock":
                return ("purge",)          # low-level tool: does not rename block references
            if op[0] == "ins" or (op[0] == "addl" and op[2] is not None):
                blocks = [b.name for b in r.doc.blocks if not b.name.startswith("*")]
                if not blocks:
                    return ("newblock", op[2])
                # block references only in layouts: a block that (transitively) contains itself is invalid DXF
                if op[0] == "addl":
                    return ("addl", rng.choice(layout_keys(r)), rng.choice(blocks), op[3])
                return ("ins", rng.choice(layout_keys(r)), rng.choice(blocks))
            if op[0] in ("move", "addex", "copy"):
                e = r.ents[op[2] if op[0] != "copy" else op[1]]
                if e.is_alive and e.dxftype() == "INSERT":
                    tgt = {"move": 3, "addex": 1, "copy": 2}[op[0]]
                    op = op[:tgt] + (rng.choice(layout_keys(r)),) + op[tgt + 1:]
            return op
        if x < 0.49:
            return ("addattr", rng.choice(ks), (rng.choice([0, 1, 7, 255, 256, 257]), rng.choice([-3, -2, -1, 0, 13, 211]),
                                                rng.choice([None, None, 0.0, 0.5, 1.0])))
        if x < 0.505:
            return ("groupedit", rng.randrange(8), rng.sample(linked, min(len(linked), 2)))
        if x < 0.52:
            return ("addpoly", rng.choice(ks))
        if x < 0.55:
            return ("addpoly3d", rng.choice(ks))
        if x < 0.68:
            return ("addmisc", rng.choice(ks), rng.randrange(13))
        if x < 0.74:
            blocks = [b.name for b in r.doc.blocks if not b.name.startswith("*")]
            if not blocks:
                return ("newblock", "B1")
            return ("insattr", rng.choice(layout_keys(r)), rng.choice(blocks))
        if x < 0.78:
            inserts = [h for h in linked if r.ents[h].dxftype() == "INSERT"]
            if inserts:
                k = rng.choice(["delattribs", "addattrib", "addattrib"])
                return (k, rng.choice(inserts), rng.random() < 0.6)
            return ("customprop",)
        if x < 0.80:
            return ("group", rng.sample(linked, min(len(linked), rng.randint(1, 3))))
        if x < 0.82:
            return ("xdict", rng.choice(linked))
        if x < 0.85:
            return ("xdata", rng.choice(linked))
        if x < 0.87:
            return ("reactor", rng.choice(linked), rng.choice(linked))
        if x < 0.90:
            return ("explode", rng.choice(linked))
        if x < 0.94:
            h = rng.choice(live)
            tgt = layout_keys(r) if r.ents[h].dxftype() == "INSERT" else ks
            return ("copylinked", h, rng.choice(tgt))
        if x < 0.96:
            return ("audit",)
        if x < 0.98:
            return ("dellinked", rng.choice(linked))
        return ("newlayer_used", rng.choice(ks), rng.choice(LAYERS))

    return choose


def layout_keys(r: Runner):
    return sorted(hx(l.block_record_handle) for l in r.doc.layouts)


class _Dead:
    is_alive = False

    def destroy(self):
        pass


def enc(s: str) -> str:
    return ",".join(str(ord(c)) for c in s)


# ---------------------------------------------------------------------------------- generator
BLOCKS = ["B1", "b1", "B2", "Blk3"]
LAYOUTS = ["L1", "l1", "Second", "Model", "Layout1"]
LAYERS = ["LA", "la", "LB", "0"]
USER_ENTRIES = ["E1", "e1", "E2"]
ENTRIES = USER_ENTRIES + ["Standard", "ACAD", "Continuous", "BYLAYER"]
GROUPS = ["G1", "g1", "G2"]


class Book:
    """the generator's own bookkeeping (what it believes exists); used only to choose mostly-valid ops"""

    def __init__(self, r: Runner):
        self.r = r

    def containers(self):
        return sorted(self.r.containers().keys())

    def entities(self):
        return list(self.r.order)


def gen_history(rng, length, misuse=False, with_reload=True):
    """yields ops lazily: needs the runner state, so it is a coroutine-like function"""

    def choose_new(r: Runner, ks, hs, live, linked):
        """operations added in session 3: linked parents, explode, audit, table entries, groups"""
        y = rng.random()
        existing = [b.name for b in r.doc.blocks if not b.name.startswith("*")]
        if y < 0.14:
            return ("addl", rng.choice(ks), None, rng.choice([2, 3]))
        if y < 0.28:
            name = rng.choice(existing) if existing and rng.random() < 0.8 else rng.choice(BLOCKS)
            return ("addl", rng.choice(ks), rng.choice([name, name.upper(), name.lower()]), rng.choice([0, 1, 2]))
        if y < 0.42:
            def selfref(e):
                # an INSERT inside the block it references is a cyclic definition (invalid DXF): explode() iterates
                # the block while it appends the copies to it and never returns
                b = r.doc.blocks.get(e.dxf.name)
                return b is not None and e.dxf.owner is not None and b.block_record_handle == e.dxf.owner

            inserts = [h for h in hs if r.ents[h].is_alive and r.ents[h].dxftype() == "INSERT" and not selfref(r.ents[h])]
            dead = [h for h in hs if not r.ents[h].is_alive]
            defined = [h for h in inserts if r.doc.blocks.get(r.ents[h].dxf.name) is not None]
            if defined and rng.random() < 0.8:
                return ("explode", rng.choice(defined))
            if inserts:
                return ("explode", rng.choice(inserts))
            return None
        if y < 0.47:
            return ("auditstep",)
        if y < 0.60:
            return ("addentry", rng.randint(1, 6), rng.choice(ENTRIES))
        if y < 0.66:
            t = rng.randint(1, 6)
            have = [e.dxf.name for e in r.tabs()[t] if misuse or e.dxf.name.upper() in ("E1", "E2")]
            name = rng.choice(have) if have and rng.random() < 0.7 else rng.choice(ENTRIES if misuse else USER_ENTRIES)
            return ("delentry", t, rng.choice([name, name.upper(), name.lower()]))
        if y < 0.70:
            t = rng.choice([1, 2, 3, 4, 5, 6])
            have = [e.dxf.name for e in r.tabs()[t]]
            src = rng.choice(have) if have and rng.random() < 0.8 else rng.choice(ENTRIES)
            return ("dupentry", t, rng.choice([src, src.upper(), src.lower()]), rng.choice(USER_ENTRIES))
        if y < 0.78:
            return ("newgroup", rng.choice(GROUPS))
        if y < 0.92:
            names = [n for n, _ in r.doc.groups]
            if not names or not live:
                return None
            pool = linked if (linked and rng.random() < 0.85) else live
            first = rng.choice(pool)
            same = [h for h in pool if r.ents[h].dxf.owner == r.ents[first].dxf.owner]
            ms = rng.sample(same, min(len(same), rng.randint(1, 3))) if rng.random() < 0.85 else \
                rng.sample(pool, min(len(pool), rng.randint(1, 3)))
            return ("setgroup", rng.choice(names), ms)
        names = [n for n, _ in r.doc.groups]
        name = rng.choice(names) if names and rng.random() < 0.6 else rng.choice(GROUPS)
        return ("delgroup", rng.choice([name, name.upper(), name.lower()]))

    def choose(r: Runner):
        ks = sorted(r.containers().keys())
        hs = list(r.order)
        x = rng.random()
        live = [h for h in hs if r.ents[h].is_alive]
        linked = [h for h in live if r.ents[h].dxf.owner is not None]
        unlinked = [h for h in live if r.ents[h].dxf.owner is None]

        def owner_of(h):
            return hx(r.ents[h].dxf.owner)

        if hs and rng.random() < 0.30:
            op = choose_new(r, ks, hs, live, linked)
            if op is not None:
                return op
        if x < 0.20 or not hs:
            return ("add", rng.choice(ks))
        if x < 0.22 and linked:
            return ("foreign", rng.randrange(3), rng.choice(linked))
        if x < 0.27:
            # prefer existing blocks, spelled in another case half of the time
            existing = [b.name for b in r.doc.blocks if not b.name.startswith("*")]
            if existing and rng.random() < 0.7:
                n = rng.choice(existing)
                return ("ins", rng.choice(ks), rng.choice([n, n.upper(), n.lower(), n.swapcase()]))
            return ("ins", rng.choice(ks), rng.choice(BLOCKS))
        if x < 0.35 and linked:
            h = rng.choice(linked)
            return ("unlink", owner_of(h) if rng.random() < 0.85 else rng.choice(ks), h)
        if x < 0.43 and (unlinked or misuse):
            pool = unlinked if (unlinked and not misuse) else (live or hs)
            return ("addex", rng.choice(ks), rng.choice(pool))
        if x < 0.51 and linked:
            h = rng.choice(linked)
            return ("move", owner_of(h) if rng.random() < 0.85 else rng.choice(ks), h, rng.choice(ks))
        if x < 0.58 and linked:
            h = rng.choice(linked)
            return ("del", owner_of(h) if rng.random() < 0.85 else rng.choice(ks), h)
        if x < 0.62 and hs:
            return ("destroy", rng.choice(hs))
        if x < 0.68 and live:
            return ("copy", rng.choice(live), rng.choice(ks))
        if x < 0.71:
            return ("purge",)
        if x < 0.76:
            return ("newblock", rng.choice(BLOCKS))
        if x < 0.80:
            existing = [b.name for b in r.doc.blocks if not b.name.startswith("*")]
            name = rng.choice(BLOCKS + ["*Model_Space", "*Paper_Space", "nope"] + existing * 3)
            if rng.random() < 0.3:
                name = rng.choice([name.upper(), name.lower()])
            # unsafe deletion of a layout block destroys the document (documented misuse): only safe there
            return ("delblock", name, True if name.startswith("*") else rng.random() < 0.7)
        if x < 0.83:
            return ("renblock", rng.choice(BLOCKS), rng.choice(BLOCKS + ["B9"]))
        if x < 0.87:
            return ("newlayout", rng.choice(LAYOUTS))
        if x < 0.90:
            return ("dellayout", rng.choice(LAYOUTS + ["nope"]))
        if x < 0.92:
            return ("renlayout", rng.choice(LAYOUTS), rng.choice(LAYOUTS + ["L9"]))
        if x < 0.94:
            return ("activate", rng.choice(LAYOUTS))
        if x < 0.96:
            return ("addlayer", rng.choice(LAYERS))
        if x < 0.975:
            return ("dellayer", rng.choice(LAYERS))
        if with_reload:
            return ("reload",)
        return ("purge",)

    return choose

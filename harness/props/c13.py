"""C13  Curve evaluation and curve surgery are exact (DESIGN.md section 7, C13)."""
from __future__ import annotations

import ast
import math
import re
import textwrap
from fractions import Fraction as Fr

ID = "C13"
LEAN_MODULES = ["EzdxfVerif.Props.C13"]
DRIVER_DEPS = ["EzdxfVerif.Model.Curve", "EzdxfVerif.Gen.CurveKernels", "Drivers.Proto"]
REL_TOL = 1e-9  # float result vs exact rational referee: |impl - exact| <= REL_TOL * max(1, |exact|, scale)
RULE = (
    "correspondence (Lean model over exact Rat vs real code, BOTH twins ezdxf.math._bspline/_bezier4p/_bezier3p and "
    "ezdxf.acc.*): X1 find_span exact integers (clamped, unclamped, non uniform knots, u on knots, below/above the "
    "domain); X2 basis_funcs/point incl. rational weights and the ZeroDivisionError class, floats compared with the "
    f"model's exact rationals within rel. tolerance {REL_TOL}; X3 Bezier4P/Bezier3P point/tangent/reverse/transform via "
    "kernels translated from the current .py and .pyx source; X4 insert_knot/reverse knots; X5 bulge_center/radius "
    "closed form vs the trigonometric code. Non-trivial = the case reaches a non-default branch (interior span, "
    "repeated knot, weights, error). oracle (real code only, referee = independent Cox-de Boor / de Casteljau in "
    "Fractions): points and derivatives for degrees 1..7, curve sampled before/after insert_knot, knot_refinement, "
    "transform, reverse, degree_elevation, bezier_decomposition, split; interpolation hits fit points and end "
    "tangents; rational arcs/ellipses lie on the conic; bulge/arc and angle/param round trips."
)
TRUSTED_BASE = [
    "Vec3/Vec2/Matrix44 arithmetic is component-wise as modelled by V3/Affine (property C10/C11; here validated by correspondence)",
    "the mini translator in harness/props/c13.py (Bezier point/tangent kernels, signed_bulge_radius: straight-line arithmetic only) emits Lean text that means what the source means; cross-checked by stream X3/X5",
    "hand model of find_span/basis_funcs/span_weighting/Evaluator.point/insert_knot tied to the code by correspondence only",
    "closed form of bulge_center: derived by hand from the trig code (angle addition, cos/sin of 2*atan b), validated numerically by stream X5",
    "float arithmetic of the implementation is compared with exact rationals within 1e-9 relative tolerance; rounding is not modelled",
]
ASSUMPTIONS = [
    "knot vectors handed to BSpline start at 0 (otherwise the constructor rescales them; covered by one oracle stream only)",
    "parameters are passed exactly (dyadic or small rationals rounded once to double)",
]
OPEN = [
    "findSpan_spec_partial / evalPoint_total_partial: the domain end needs knots[count-1] < knots[count] (false without it: F13 counterexample theorem)",
    "insert_knot_preserves (Boehm), knot refinement, degree elevation, Bezier decomposition, split, reverse of B-splines: not proved, oracle on the real code only",
    "basis_funcs_derivatives (A2.3) and the rational derivative (A4.2): not modelled, oracle vs exact derivative only",
    "interpolation solvers, conic -> NURBS constructions, ellipse/arc angle<->parameter conversions: oracle only",
]

SRC_FILES = [
    "src/ezdxf/math/_bezier4p.py", "src/ezdxf/math/_bezier3p.py", "src/ezdxf/acc/bezier4p.pyx", "src/ezdxf/acc/bezier3p.pyx",
    "src/ezdxf/math/_bspline.py", "src/ezdxf/acc/bspline.pyx", "src/ezdxf/math/bspline.py", "src/ezdxf/math/bulge.py",
    "src/ezdxf/math/linalg.py", "src/ezdxf/acc/constants.h",
]


# ====================================================================== mini translator (T-ast)
class Untranslatable(Exception):
    pass


def _rat(v) -> str:
    fr = Fr(v)
    if fr.denominator == 1:
        return f"({fr.numerator} : Rat)" if fr.numerator >= 0 else f"(({fr.numerator}) : Rat)"
    return f"(({fr.numerator} : Rat) / {fr.denominator})"


class Sym:
    """symbolic executor for straight-line arithmetic; values are ('s', leantext) scalars,
    ('v', leantext) V3 valued terms, or ('acc', {'x','y','z'}) mutable Vec3 accumulators"""

    def __init__(self, env: dict, funcs: dict | None = None, opaque=None):
        self.env = dict(env)
        self.lets: list[str] = []
        self.funcs = funcs or {}
        self.opaque = opaque
        self.ret = None

    def name(self, n: str) -> str:
        return "v_" + n

    def expr(self, e):
        if isinstance(e, ast.Constant) and isinstance(e.value, (int, float)) and not isinstance(e.value, bool):
            return ("s", _rat(e.value))
        if isinstance(e, ast.Name):
            if e.id not in self.env:
                raise Untranslatable(f"unknown name {e.id}")
            return self.env[e.id]
        if isinstance(e, ast.Attribute):
            key = ast.unparse(e)
            if key in self.env:
                return self.env[key]
            base = self.expr(e.value)
            if base[0] == "acc" and e.attr in "xyz":
                return ("s", base[1][e.attr])
            if base[0] == "v" and e.attr in "xyz":
                return ("s", f"{base[1]}.{e.attr}")
            raise Untranslatable(f"attribute {key}")
        if isinstance(e, ast.Subscript):
            base = self.expr(e.value)
            if base[0] == "v" and isinstance(e.slice, ast.Constant) and e.slice.value in (0, 1, 2):
                return ("s", f"{base[1]}.{'xyz'[e.slice.value]}")
            raise Untranslatable(f"subscript {ast.unparse(e)}")
        if isinstance(e, ast.UnaryOp) and isinstance(e.op, ast.USub):
            k, t = self.expr(e.operand)
            if k != "s":
                raise Untranslatable("negated vector")
            return ("s", f"(-{t})")
        if isinstance(e, ast.BinOp):
            (ka, a), (kb, b) = self.expr(e.left), self.expr(e.right)
            op = type(e.op)
            if ka == "s" and kb == "s":
                sym = {ast.Add: "+", ast.Sub: "-", ast.Mult: "*", ast.Div: "/"}.get(op)
                if sym is None:
                    raise Untranslatable(f"operator {op.__name__}")
                return ("s", f"({a} {sym} {b})")
            if ka == "v" and kb == "v" and op in (ast.Add, ast.Sub):
                return ("v", f"(V3.{'add' if op is ast.Add else 'sub'} {a} {b})")
            if op is ast.Mult and {ka, kb} == {"v", "s"}:
                v, s = (a, b) if ka == "v" else (b, a)
                return ("v", f"(V3.scale {v} {s})")
            raise Untranslatable(f"operand kinds {ka} {op.__name__} {kb}")
        if isinstance(e, ast.Call):
            if self.opaque:
                r = self.opaque(self, e)
                if r is not None:
                    return r
            raise Untranslatable(f"call {ast.unparse(e)}")
        raise Untranslatable(f"expression {ast.dump(e)[:80]}")

    def bind_scalar(self, name: str, val):
        k, t = val
        if k == "s":
            self.lets.append(f"let {self.name(name)} : Rat := {t}")
            self.env[name] = ("s", self.name(name))
        else:
            self.env[name] = val

    def run(self, body):
        for st in body:
            if isinstance(st, ast.Expr) and isinstance(st.value, ast.Constant):
                continue  # docstring
            if isinstance(st, ast.Assign) and len(st.targets) == 1:
                tg = st.targets[0]
                if isinstance(tg, ast.Tuple):
                    src = ast.unparse(st.value)
                    if src not in self.env or self.env[src][0] != "tuple":
                        raise Untranslatable(f"tuple assignment from {src}")
                    items = self.env[src][1]
                    if len(items) != len(tg.elts):
                        raise Untranslatable("tuple arity")
                    for el, it in zip(tg.elts, items):
                        if not isinstance(el, ast.Name):
                            raise Untranslatable("tuple target")
                        self.env[el.id] = it
                    continue
                if isinstance(tg, ast.Name):
                    if isinstance(st.value, ast.Call) and ast.unparse(st.value) == "Vec3()":
                        self.env[tg.id] = ("acc", {"x": "(0 : Rat)", "y": "(0 : Rat)", "z": "(0 : Rat)"})
                    else:
                        self.bind_scalar(tg.id, self.expr(st.value))
                    continue
            if isinstance(st, ast.AnnAssign) and isinstance(st.target, ast.Name) and st.value is not None:
                self.bind_scalar(st.target.id, self.expr(st.value))
                continue
            if isinstance(st, ast.AugAssign) and isinstance(st.op, ast.Add) and isinstance(st.target, ast.Attribute):
                base = self.expr(st.target.value)
                if base[0] != "acc" or st.target.attr not in "xyz":
                    raise Untranslatable(f"augmented assignment {ast.unparse(st)}")
                k, t = self.expr(st.value)
                if k != "s":
                    raise Untranslatable("vector added to component")
                base[1][st.target.attr] = f"({base[1][st.target.attr]} + {t})"
                continue
            if isinstance(st, ast.Expr) and isinstance(st.value, ast.Call) and isinstance(st.value.func, ast.Name) \
                    and st.value.func.id in self.funcs:
                params, fbody = self.funcs[st.value.func.id]
                if len(params) != len(st.value.args):
                    raise Untranslatable("call arity")
                sub = Sym({p: self.expr(a) for p, a in zip(params, st.value.args)}, self.funcs, self.opaque)
                sub.run(fbody)
                if sub.lets or sub.ret is not None:
                    raise Untranslatable("inlined helper is not a pure accumulator update")
                continue
            if isinstance(st, ast.Return) and st.value is not None:
                self.ret = self.expr(st.value)
                return
            raise Untranslatable(f"statement {ast.unparse(st)[:80]}")

    def lean(self) -> str:
        if self.ret is None:
            raise Untranslatable("no return value")
        k, t = self.ret
        if k == "acc":
            t = f"V3.mk {t['x']} {t['y']} {t['z']}"
        return "".join(f"  {l}\n" for l in self.lets) + "  " + t


def py_method(src: str, cls: str, meth: str) -> ast.FunctionDef:
    tree = ast.parse(src)
    for node in tree.body:
        if isinstance(node, ast.ClassDef) and node.name == cls:
            for f in node.body:
                if isinstance(f, ast.FunctionDef) and f.name == meth:
                    return f
        if cls == "" and isinstance(node, ast.FunctionDef) and node.name == meth:
            return node
    raise Untranslatable(f"{cls}.{meth} not found")


CTYPE = r"(?:double|int|Vec3|bint)"


def pyx_function(src: str, cls: str, header_re: str) -> tuple[list[str], list]:
    """(parameter names, python ast body) of a cdef function after stripping cdef/type syntax"""
    lines = src.splitlines()
    start = 0
    if cls:
        for i, l in enumerate(lines):
            if re.match(rf"cdef class {cls}\b", l):
                start = i
                break
        else:
            raise Untranslatable(f"cdef class {cls} not found")
    hdr = None
    for i in range(start, len(lines)):
        if i > start and cls and re.match(r"\S", lines[i]) and not lines[i].startswith("#"):
            break
        if re.match(header_re, lines[i]):
            hdr = i
            break
    if hdr is None:
        raise Untranslatable(f"header {header_re} not found")
    indent = len(lines[hdr]) - len(lines[hdr].lstrip())
    m = re.search(r"\((.*)\)", lines[hdr])
    params = [p.strip().split()[-1].split("[")[0] for p in m.group(1).split(",") if p.strip() and p.strip() != "self"]
    body = []
    for l in lines[hdr + 1:]:
        if l.strip() and (len(l) - len(l.lstrip())) <= indent:
            break
        body.append(l)
    out = []
    in_cdef, cdef_indent = False, 0
    for l in body:
        code = l.split("#", 1)[0].rstrip()
        if not code.strip():
            continue
        ind = len(code) - len(code.lstrip())
        if re.match(r"\s*cdef:\s*$", code):
            in_cdef, cdef_indent = True, ind
            continue
        if in_cdef and ind > cdef_indent:
            code = " " * cdef_indent + code.lstrip()
        else:
            in_cdef = False
        code = re.sub(rf"^(\s*)(?:cdef\s+)?{CTYPE}(?:\[\d+\])?\s+(\w+\s*=)", r"\1\2", code)
        code = re.sub(rf"^(\s*)cdef\s+", r"\1", code)
        out.append(code)
    text = textwrap.dedent("\n".join(out))
    return params, ast.parse(text).body


def translate_kernels(ctx) -> str:
    b4py, b3py = ctx.src("src/ezdxf/math/_bezier4p.py"), ctx.src("src/ezdxf/math/_bezier3p.py")
    b4x, b3x = ctx.src("src/ezdxf/acc/bezier4p.pyx"), ctx.src("src/ezdxf/acc/bezier3p.pyx")
    bulge = ctx.src("src/ezdxf/math/bulge.py")
    V = lambda n: ("v", n)
    defs = []

    def emit(name, params, sym):
        defs.append(f"def {name} {params} :=\n{sym.lean()}\n")

    # --- pure Python twins
    for cls, src, tag, qs in (("Bezier4P", b4py, "bez4", ["q1", "q2", "q3"]), ("Bezier3P", b3py, "bez3", ["q1", "q2"])):
        for meth, suffix, has_o in (("_get_curve_point", "Point", True), ("_get_curve_tangent", "Tangent", False)):
            f = py_method(src, cls, meth)
            if [a.arg for a in f.args.args] != ["self", "t"]:
                raise Untranslatable(f"{cls}.{meth} signature")
            env = {"t": ("s", "t"), "self._control_points": ("tuple", [V("V3.zero")] + [V(q) for q in qs]),
                   "self._offset": V("o")}
            s = Sym(env)
            s.run(f.body)
            if s.ret[0] != "v":
                raise Untranslatable("kernel does not return a vector")
            ps = ("(o " if has_o else "(") + " ".join(qs) + " : V3) (t : Rat) : V3"
            emit(f"{tag}{suffix}Py", ps, s)
    # --- Cython twins
    for cls, src, tag, qs in (("FastCubicCurve", b4x, "bez4", ["q1", "q2", "q3"]), ("FastQuadCurve", b3x, "bez3", ["q1", "q2"])):
        funcs = {"iadd_mul": pyx_function(src, "", r"cdef void iadd_mul\(")}
        for meth, suffix, has_o in (("point", "Point", True), ("tangent", "Tangent", False)):
            params, body = pyx_function(src, cls, rf"\s+cdef Vec3 {meth}\(self, double t\):")
            if params != ["t"]:
                raise Untranslatable(f"{cls}.{meth} signature {params}")
            env = {"t": ("s", "t"), "self.offset": V("o")}
            for i, q in enumerate(qs):
                env[f"self.p{i + 1}"] = V(q)
            s = Sym(env, funcs)
            s.run(body)
            if s.ret[0] != "acc":
                raise Untranslatable("kernel does not return the accumulator")
            ps = ("(o " if has_o else "(") + " ".join(qs) + " : V3) (t : Rat) : V3"
            emit(f"{tag}{suffix}Pyx", ps, s)
        # constructor: stored points are p - p0, offset = p0
        params, body = pyx_function(src, cls, r"\s+def __cinit__\(self, ")
        text = "\n".join(ast.unparse(b) for b in body)
        for i, q in enumerate(qs):
            for k, c in enumerate("xyz"):
                ok = re.search(rf"self\.p{i + 1}\[{k}\] = p{i + 1}\.{c} - (x|y|z|p0\.{c})\b", text)
                if not ok:
                    raise Untranslatable(f"{cls}.__cinit__: stored point p{i + 1}[{k}] is not p{i + 1}.{c} - p0.{c}")
    # --- bulge radius kernel
    f = py_method(bulge, "", "signed_bulge_radius")

    def opaque(sym, call):
        if ast.unparse(call) == "Vec2(start_point).distance(Vec2(end_point))":
            return ("s", "dist")
        return None

    s = Sym({"bulge": ("s", "bulge")}, opaque=opaque)
    s.run(f.body)
    if s.ret[0] != "s":
        raise Untranslatable("signed_bulge_radius")
    emit("signedBulgeRadiusPy", "(dist bulge : Rat) : Rat", s)
    return "\n".join(defs)


def regenerate(ctx):
    for f in SRC_FILES:
        ctx.src(f)
    kernels = translate_kernels(ctx)
    # FACTORIAL table of bspline.pyx (used by the rational derivative, A4.2)
    pyx = ctx.src("src/ezdxf/acc/bspline.pyx")
    m = re.search(r"cdef double\[(\d+)\] FACTORIAL = \[(.*?)\]", pyx, re.S)
    if not m:
        raise Untranslatable("FACTORIAL table not found")
    fact = [Fr(x.strip().rstrip(".") if x.strip().endswith(".") else x.strip()) for x in m.group(2).split(",") if x.strip()]
    if len(fact) != int(m.group(1)) or any(x.denominator != 1 for x in fact):
        raise Untranslatable("FACTORIAL table shape")
    mx = re.search(r"#define MAX_SPLINE_ORDER (\d+)", ctx.src("src/ezdxf/acc/constants.h"))
    if not mx:
        raise Untranslatable("MAX_SPLINE_ORDER")
    from ezdxf.math.linalg import binomial_coefficient

    nmax = 12
    binom = []
    for k in range(nmax + 1):
        row = []
        for i in range(nmax + 1):
            v = Fr(binomial_coefficient(k, i))
            if v.denominator != 1:
                raise Untranslatable("binomial_coefficient is not integral")
            row.append(int(v))
        binom.append(row)
    text = f"""
import EzdxfVerif.Model.Curve
namespace EzdxfVerif.Gen.CurveKernels
open EzdxfVerif.Curve

/-! kernels translated from `_bezier4p.py`, `_bezier3p.py`, `bezier4p.pyx`, `bezier3p.pyx`, `bulge.py`
    (`o` = offset = first defining point, `q*` = stored control points `p* - o`) -/

{kernels}
/-- `FACTORIAL` of acc/bspline.pyx -/
def factorialPyx : List Nat := [{", ".join(str(int(x)) for x in fact)}]

/-- MAX_SPLINE_ORDER of acc/constants.h -/
def maxSplineOrder : Nat := {mx.group(1)}

/-- `linalg.binomial_coefficient(k, i)` for k, i in 0..{nmax} (row k, column i) -/
def binomialPy : List (List Nat) := [{", ".join("[" + ", ".join(map(str, r)) + "]" for r in binom)}]

end EzdxfVerif.Gen.CurveKernels
"""
    ctx.write_gen("CurveKernels", text, SRC_FILES)

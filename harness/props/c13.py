"""C13  Curve evaluation and curve surgery are exact (DESIGN.md section 7, C13)."""
from __future__ import annotations

import ast
import math
import re
import textwrap
from fractions import Fraction as Fr

ID = "C13"
LEAN_MODULES = ["EzdxfVerif.Props.C13"]
DRIVER_DEPS = ["EzdxfVerif.Model.Curve", "EzdxfVerif.Gen.CurveKernels", "Drivers.Proto"]
REL_TOL = 1e-9  # float result vs exact rational referee: |impl - exact| <= REL_TOL * max(1, |exact|, scale)
RULE = (
    "correspondence (Lean model over exact Rat vs real code, BOTH twins ezdxf.math._bspline/_bezier4p/_bezier3p and "
    "ezdxf.acc.*, imported directly; BSpline level code run on a chosen twin): X1 find_span, exact integers, on every knot "
    "vector as generated, shifted so that knots[p]==0 (binary search branch) and shifted by +1 (linear search branch), u on "
    "every knot, between knots, below and above the domain; X2 basis_funcs for the found span and for arbitrary spans (empty "
    f"span = ZeroDivisionError class), Basis.basis_vector and Evaluator.point incl. rational weights, floats compared with the model's exact "
    f"rationals within rel. tolerance {REL_TOL} (excluded and counted: rational cases outside the span whose exact weight sum "
    "is 0, the decision band of `s == 0.0`); X2 reference: the Lean Cox-de Boor sum = the harness referee, exactly; X3 "
    "Bezier4P/Bezier3P point/tangent/reverse/transform against the kernels translated from the current .py and .pyx source; "
    "X4 insert_knot non rational AND rational (knots, weights, control points, error class; excluded and counted: rational "
    "insertion beyond the domain end, where the new weight is an extrapolation that can be exactly 0) and reverse knots; X5 "
    "bulge_center/radius/apex closed form vs the trigonometric code; X6 knot_refinement (repeated, existing and invalid "
    "knots); X7 curvetools.split_bezier (1..12 points, Vec3 and Vec2, t inside/outside [0,1]); X8 reverse().point at the "
    "mirrored parameter incl. weights (a parameter ON a knot is taken from the reversed spline's own knots); X9 "
    "basis_funcs_derivatives (A2.3) for n = 1, p, p+2 on one span and n = min(p,2) on a second one, and "
    "Evaluator.derivative (A3.2/A4.2, rational included); X10 BSpline.split, non rational and rational (both halves: knots, weights, control points, error "
    "classes incl. t on a knot, at both domain ends, outside); X11 curvetools.bezier_to_bspline (cubic/quadratic mixed, "
    "with and without gaps; on the real code every segment = its Bezier curve, exact referee); X12 the generic Bezier class "
    "(3..10 points): point and derivative() = (point, d1, d2) incl. both end formulas and the snapping of t near 1, reverse() and transform(m); X13 open_uniform_knot_vector / uniform_knot_vector for counts 2..13, orders 2..9, both normalize settings; X14 degree_elevation (A5.9) of single Bezier segments, degrees 1..7, t = 1..4 (order <= 11); X15 bezier_decomposition (A5.6): every yielded segment for all clamped splines of the corpus, also over knots scaled by 2^-30 and 2^20, TypeError for rational / unclamped ones; X16 _normalize_distances, averaged_knots_unconstrained. Non-trivial = the parameter "
    "lies inside the knot range / 0<t<1 / an operation was applied; distinct by hash of (stream, request, twin). "
    "oracle (real code only, referee = independent Cox-de Boor pieces / de Casteljau in Fractions): O1 points and derivatives "
    "up to order 3 for degrees 1..7, clamped/unclamped/non-uniform knots, rational weights, every knot of the domain and "
    "both ends; O2 curve sampled before/after insert_knot, knot_refinement, transform (any knot vector), reverse, "
    "degree_elevation, split (also at an existing knot), bezier_decomposition (clamped), rational weights in ~40 % of the "
    "splines of every operation that accepts them, and knots scaled by 2^-30 / 2^-10 / 2^20 (scale invariance: distinct knots closer than 1e-9); O3 interpolation hits fit points and end tangents (pairwise distinct fit "
    "points, degree >= 2; random sets plus adversarial ones: zig-zag and hair-pin data with direction reversals, very unequal "
    "spacing, a spiral); O4 rational arcs/ellipses lie on the conic, ellipses and ConstructionEllipse.from_arc circles with "
    "unit, NON-UNIT and tilted extrusion vectors (referee: textbook frame centre / major axis / unit normal, independent of "
    "the stored minor axis), cubic_bezier_from_ellipse within 0.2 %; O5 bulge/arc, angle/param, Rytz round trips and the "
    "ellipse-axis conversions: minor_axis() = unit normal x major * ratio, swap_axis() keeps the ellipse and is an involution, "
    "dxfattribs() for ratio > 1, and the arc constructors from_2p_angle / from_2p_radius / from_3p over the full angle range and both orientations (end points AND enclosed angle, radius, centre side); O6 Bezier curves vs Bernstein form and hodograph."
)
TRUSTED_BASE = [
    "Vec3/Vec2/Matrix44 arithmetic is component-wise as modelled by V3/Affine (property C10/C11; here validated by correspondence)",
    "the mini translator in harness/props/c13.py (Bezier point/tangent kernels, signed_bulge_radius: straight-line arithmetic only) emits Lean text that means what the source means; cross-checked by stream X3/X5",
    "hand model (Model/Curve.lean) of degree_elevation restricted to ONE Bezier segment (bezalfs with its two loop nests; the multi-segment path of A5.9 is not modelled), bezier_decomposition (A5.6, exact knot comparison instead of math.isclose), _normalize_distances, averaged_knots_unconstrained, unconstrained_global_bspline_interpolation with the linear solver as a parameter, the generic Bezier class (point, derivative), basis_vector, rational knot_refinement, find_span, basis_funcs, span_weighting, Evaluator.point, basis_funcs_derivatives (A2.3, all orders, the two persistent rows of `a` included), Evaluator.derivative (A3.2/A4.2), insert_knot, _insert_knot_rational (numpy 4-vectors read component-wise), knot_refinement, reverse, split_bspline (+ the BSpline constructor checks and knot normalisation), split_bezier, quadratic_to_cubic_bezier, bezier_to_bspline: tied to the code by the correspondence streams X1-X16; translated from source are only the Bezier4P/3P and bulge kernels and the kernels named in surgery_kernels_match_source (new_point of both insert_knot branches, de Casteljau level, quadratic_to_cubic_bezier, d1/d2 weights of Bezier.derivative)",
    "np.searchsorted(knots, t, side='right') is modelled by the bisect_right loop over the whole vector (same result on nondecreasing input)",
    "math.isclose snapping of u to max_t in Evaluator.point/derivative is not modelled (the harness passes exact parameters)",
    "closed form of bulge_center: derived by hand from the trig code (angle addition, cos/sin of 2*atan b), validated numerically by stream X5",
    "float arithmetic of the implementation is compared with exact rationals within 1e-9 relative tolerance; rounding is not modelled",
    "Mathlib's Polynomial.derivative / Polynomial.eval are THE derivative / evaluation of a polynomial (basis_derivative_is_polynomial_derivative ties cdbFD to them)",
]
ASSUMPTIONS = [
    "knot vectors handed to BSpline start at 0 (otherwise the constructor rescales them; covered by one oracle stream only); split_bspline_preserves states it as hypothesis",
    "parameters are passed exactly (dyadic or small rationals rounded once to double)",
    "bezier_to_bspline_segments: curves lined up seamlessly (`seamless`, decidable); with gaps the B-spline uses the end point of the previous curve (stream X11 covers both)",
]
OPEN = [
    "findSpan_spec / evalPoint_total / evalPoint_domain_end / bspline_affine / bspline_reverse need a non-degenerate domain knots[p] < knots[count] (necessary: a single-point domain has no non-empty span)",
    "insert_knot_preserves(+_domain_end), knot_refinement_preserves(+_domain_end), insert_knot_rational_preserves need t <= knots[count]: for knots[count] < t < max_t (unclamped knots only) insert_knot puts t in front of smaller knots (result knot vector not nondecreasing; the points on the domain still agree in every sample): observation, see reports/C13.md",
    "bspline_reverse / bspline_continuous_at_knot need interior multiplicity <= degree (multLeDegree; necessary, #guard counterexample); bspline_reverse_pieces / bspline_reverse_partial hold without it; rational reverse: bspline_reverse_rational under the same hypothesis",
    "split_bspline_preserves (+ split_bspline_second_half_domain_end): knots start at 0, t < knots[count], u in [U[p], t) resp. [t, U[count]]; split_bspline_first_half_cut adds u = t under multLeDegree and U[p] < t; split_bspline_rational_preserves: the NURBS case on the half open intervals (at the cut / end point: oracle + X10 only)",
    "derivatives of order >= 2 (A2.3 rows 2.., A4.2 k >= 2): modelled for every order and corresponded (X9); basis_derivative_higher_recurrence proves the recurrence (2.9) for the k-th Polynomial.derivative of the pieces, the identification of the A2.3 rows with them is proved only for order 1 (basis_derivative_first, evalDerivative_first, rational_derivative_first)",
    "degree_elevation (A5.9): proved for a single Bezier segment (degree_elevation_bezier_segment, any degree, any t); the multi-segment path (knot insertion + elevation + knot removal) is not modelled: oracle O2 only",
    "bezier_decomposition (A5.6): modelled for every clamped non rational spline and corresponded (X15); its curve preservation is proved for a single Bezier segment only (bezier_decomposition_single_segment; bspline_bezier_segment proves that a fully refined spline IS its Bezier segments): oracle O2",
    "interpolation_passes_through_fit_points is relative to the solver hypothesis A x = b (numpy / banded LU solvers are floating point code outside the model); end tangent variants and local_cubic_bspline_interpolation_from_tangents as a whole are not modelled: local_cubic_junction + cubic_double_knot_value state the law at one junction (same sign of the two alphas), oracle O3 checks the function",
    "generic Bezier class: d2 at t = 0 and t = 1 (closed formulas) corresponded (X12), not proved; fewer than 3 definition points are outside the documented domain (derivative(0) raises IndexError for 2 points)",
    "interpolation solvers (basis_vector_collocation reduces 'passes through the fit points' to the exactness of the linear solve), conic -> NURBS constructions, ellipse/arc angle<->parameter conversions: oracle only",
]

SRC_FILES = [
    "src/ezdxf/math/_bezier4p.py", "src/ezdxf/math/_bezier3p.py", "src/ezdxf/acc/bezier4p.pyx", "src/ezdxf/acc/bezier3p.pyx",
    "src/ezdxf/math/_bspline.py", "src/ezdxf/acc/bspline.pyx", "src/ezdxf/math/bspline.py", "src/ezdxf/math/bulge.py",
    "src/ezdxf/math/linalg.py", "src/ezdxf/acc/constants.h", "src/ezdxf/math/curvetools.py", "src/ezdxf/math/bezier.py",
]


# ====================================================================== mini translator (T-ast)
class Untranslatable(Exception):
    pass


def _rat(v) -> str:
    fr = Fr(v)
    if fr.denominator == 1:
        return f"({fr.numerator} : Rat)" if fr.numerator >= 0 else f"(({fr.numerator}) : Rat)"
    return f"(({fr.numerator} : Rat) / {fr.denominator})"


class Sym:
    """symbolic executor for straight-line arithmetic; values are ('s', leantext) scalars,
    ('v', leantext) V3 valued terms, or ('acc', {'x','y','z'}) mutable Vec3 accumulators"""

    def __init__(self, env: dict, funcs: dict | None = None, opaque=None):
        self.env = dict(env)
        self.lets: list[str] = []
        self.funcs = funcs or {}
        self.opaque = opaque
        self.ret = None

    def name(self, n: str) -> str:
        return "v_" + n

    def expr(self, e):
        if isinstance(e, ast.Constant) and isinstance(e.value, (int, float)) and not isinstance(e.value, bool):
            return ("s", _rat(e.value))
        if isinstance(e, ast.Name):
            if e.id not in self.env:
                raise Untranslatable(f"unknown name {e.id}")
            return self.env[e.id]
        if isinstance(e, ast.Attribute):
            key = ast.unparse(e)
            if key in self.env:
                return self.env[key]
            base = self.expr(e.value)
            if base[0] == "acc" and e.attr in "xyz":
                return ("s", base[1][e.attr])
            if base[0] == "v" and e.attr in "xyz":
                return ("s", f"{base[1]}.{e.attr}")
            raise Untranslatable(f"attribute {key}")
        if isinstance(e, ast.Subscript):
            key = ast.unparse(e)
            if key in self.env:
                return self.env[key]
            base = self.expr(e.value)
            if base[0] == "v" and isinstance(e.slice, ast.Constant) and e.slice.value in (0, 1, 2):
                return ("s", f"{base[1]}.{'xyz'[e.slice.value]}")
            raise Untranslatable(f"subscript {ast.unparse(e)}")
        if isinstance(e, ast.UnaryOp) and isinstance(e.op, ast.USub):
            k, t = self.expr(e.operand)
            if k != "s":
                raise Untranslatable("negated vector")
            return ("s", f"(-{t})")
        if isinstance(e, ast.BinOp):
            (ka, a), (kb, b) = self.expr(e.left), self.expr(e.right)
            op = type(e.op)
            if ka == "s" and kb == "s":
                sym = {ast.Add: "+", ast.Sub: "-", ast.Mult: "*", ast.Div: "/"}.get(op)
                if sym is None:
                    raise Untranslatable(f"operator {op.__name__}")
                return ("s", f"({a} {sym} {b})")
            if ka == "v" and kb == "v" and op in (ast.Add, ast.Sub):
                return ("v", f"(V3.{'add' if op is ast.Add else 'sub'} {a} {b})")
            if op is ast.Mult and {ka, kb} == {"v", "s"}:
                v, s = (a, b) if ka == "v" else (b, a)
                return ("v", f"(V3.scale {v} {s})")
            if op is ast.Div and ka == "v" and kb == "s":  # Vec3.__truediv__(scalar): component-wise division
                return ("v", f"(V3.scale {a} (1 / {b}))")
            raise Untranslatable(f"operand kinds {ka} {op.__name__} {kb}")
        if isinstance(e, ast.Call):
            if self.opaque:
                r = self.opaque(self, e)
                if r is not None:
                    return r
            raise Untranslatable(f"call {ast.unparse(e)}")
        raise Untranslatable(f"expression {ast.dump(e)[:80]}")

    def bind_scalar(self, name: str, val):
        k, t = val
        if k == "s":
            self.lets.append(f"let {self.name(name)} : Rat := {t}")
            self.env[name] = ("s", self.name(name))
        else:
            self.env[name] = val

    def run(self, body):
        for st in body:
            if isinstance(st, ast.Expr) and isinstance(st.value, ast.Constant):
                continue  # docstring
            if isinstance(st, ast.Assign) and len(st.targets) == 1:
                tg = st.targets[0]
                if isinstance(tg, ast.Tuple):
                    src = ast.unparse(st.value)
                    if src not in self.env or self.env[src][0] != "tuple":
                        raise Untranslatable(f"tuple assignment from {src}")
                    items = self.env[src][1]
                    if len(items) != len(tg.elts):
                        raise Untranslatable("tuple arity")
                    for el, it in zip(tg.elts, items):
                        if not isinstance(el, ast.Name):
                            raise Untranslatable("tuple target")
                        self.env[el.id] = it
                    continue
                if isinstance(tg, ast.Name):
                    if isinstance(st.value, ast.Call) and ast.unparse(st.value) == "Vec3()":
                        self.env[tg.id] = ("acc", {"x": "(0 : Rat)", "y": "(0 : Rat)", "z": "(0 : Rat)"})
                    else:
                        self.bind_scalar(tg.id, self.expr(st.value))
                    continue
            if isinstance(st, ast.AnnAssign) and isinstance(st.target, ast.Name) and st.value is not None:
                self.bind_scalar(st.target.id, self.expr(st.value))
                continue
            if isinstance(st, ast.AugAssign) and isinstance(st.op, ast.Add) and isinstance(st.target, ast.Attribute):
                base = self.expr(st.target.value)
                if base[0] != "acc" or st.target.attr not in "xyz":
                    raise Untranslatable(f"augmented assignment {ast.unparse(st)}")
                k, t = self.expr(st.value)
                if k != "s":
                    raise Untranslatable("vector added to component")
                base[1][st.target.attr] = f"({base[1][st.target.attr]} + {t})"
                continue
            if isinstance(st, ast.Expr) and isinstance(st.value, ast.Call) and isinstance(st.value.func, ast.Name) \
                    and st.value.func.id in self.funcs:
                params, fbody = self.funcs[st.value.func.id]
                if len(params) != len(st.value.args):
                    raise Untranslatable("call arity")
                sub = Sym({p: self.expr(a) for p, a in zip(params, st.value.args)}, self.funcs, self.opaque)
                sub.run(fbody)
                if sub.lets or sub.ret is not None:
                    raise Untranslatable("inlined helper is not a pure accumulator update")
                continue
            if isinstance(st, ast.Return) and st.value is not None:
                self.ret = self.expr(st.value)
                return
            raise Untranslatable(f"statement {ast.unparse(st)[:80]}")

    def lean(self) -> str:
        if self.ret is None:
            raise Untranslatable("no return value")
        k, t = self.ret
        if k == "acc":
            t = f"V3.mk {t['x']} {t['y']} {t['z']}"
        return "".join(f"  {l}\n" for l in self.lets) + "  " + t


def py_method(src: str, cls: str, meth: str) -> ast.FunctionDef:
    tree = ast.parse(src)
    for node in tree.body:
        if isinstance(node, ast.ClassDef) and node.name == cls:
            for f in node.body:
                if isinstance(f, ast.FunctionDef) and f.name == meth:
                    return f
        if cls == "" and isinstance(node, ast.FunctionDef) and node.name == meth:
            return node
    raise Untranslatable(f"{cls}.{meth} not found")


CTYPE = r"(?:double|int|Vec3|bint)"


def pyx_function(src: str, cls: str, header_re: str) -> tuple[list[str], list]:
    """(parameter names, python ast body) of a cdef function after stripping cdef/type syntax"""
    lines = src.splitlines()
    start = 0
    if cls:
        for i, l in enumerate(lines):
            if re.match(rf"cdef class {cls}\b", l):
                start = i
                break
        else:
            raise Untranslatable(f"cdef class {cls} not found")
    hdr = None
    for i in range(start, len(lines)):
        if i > start and cls and re.match(r"\S", lines[i]) and not lines[i].startswith("#"):
            break
        if re.match(header_re, lines[i]):
            hdr = i
            break
    if hdr is None:
        raise Untranslatable(f"header {header_re} not found")
    indent = len(lines[hdr]) - len(lines[hdr].lstrip())
    m = re.search(r"\((.*)\)", lines[hdr])
    params = [p.strip().split()[-1].split("[")[0] for p in m.group(1).split(",") if p.strip() and p.strip() != "self"]
    body = []
    for l in lines[hdr + 1:]:
        if l.strip() and (len(l) - len(l.lstrip())) <= indent:
            break
        body.append(l)
    out = []
    in_cdef, cdef_indent = False, 0
    for l in body:
        code = l.split("#", 1)[0].rstrip()
        if not code.strip():
            continue
        ind = len(code) - len(code.lstrip())
        if re.match(r"\s*cdef:\s*$", code):
            in_cdef, cdef_indent = True, ind
            continue
        if in_cdef and ind > cdef_indent:
            code = " " * cdef_indent + code.lstrip()
        else:
            in_cdef = False
        code = re.sub(rf"^(\s*)(?:cdef\s+)?{CTYPE}(?:\[\d+\])?\s+(\w+\s*=)", r"\1\2", code)
        code = re.sub(rf"^(\s*)cdef\s+", r"\1", code)
        out.append(code)
    text = textwrap.dedent("\n".join(out))
    return params, ast.parse(text).body


def translate_kernels(ctx) -> str:
    b4py, b3py = ctx.src("src/ezdxf/math/_bezier4p.py"), ctx.src("src/ezdxf/math/_bezier3p.py")
    b4x, b3x = ctx.src("src/ezdxf/acc/bezier4p.pyx"), ctx.src("src/ezdxf/acc/bezier3p.pyx")
    bulge = ctx.src("src/ezdxf/math/bulge.py")
    V = lambda n: ("v", n)
    defs = []

    def emit(name, params, sym):
        defs.append(f"def {name} {params} :=\n{sym.lean()}\n")

    # --- pure Python twins
    for cls, src, tag, qs in (("Bezier4P", b4py, "bez4", ["q1", "q2", "q3"]), ("Bezier3P", b3py, "bez3", ["q1", "q2"])):
        for meth, suffix, has_o in (("_get_curve_point", "Point", True), ("_get_curve_tangent", "Tangent", False)):
            f = py_method(src, cls, meth)
            if [a.arg for a in f.args.args] != ["self", "t"]:
                raise Untranslatable(f"{cls}.{meth} signature")
            env = {"t": ("s", "t"), "self._control_points": ("tuple", [V("V3.zero")] + [V(q) for q in qs]),
                   "self._offset": V("o")}
            s = Sym(env)
            s.run(f.body)
            if s.ret[0] != "v":
                raise Untranslatable("kernel does not return a vector")
            ps = ("(o " if has_o else "(") + " ".join(qs) + " : V3) (t : Rat) : V3"
            emit(f"{tag}{suffix}Py", ps, s)
    # --- Cython twins
    for cls, src, tag, qs in (("FastCubicCurve", b4x, "bez4", ["q1", "q2", "q3"]), ("FastQuadCurve", b3x, "bez3", ["q1", "q2"])):
        funcs = {"iadd_mul": pyx_function(src, "", r"cdef void iadd_mul\(")}
        for meth, suffix, has_o in (("point", "Point", True), ("tangent", "Tangent", False)):
            params, body = pyx_function(src, cls, rf"\s+cdef Vec3 {meth}\(self, double t\):")
            if params != ["t"]:
                raise Untranslatable(f"{cls}.{meth} signature {params}")
            env = {"t": ("s", "t"), "self.offset": V("o")}
            for i, q in enumerate(qs):
                env[f"self.p{i + 1}"] = V(q)
            s = Sym(env, funcs)
            s.run(body)
            if s.ret[0] != "acc":
                raise Untranslatable("kernel does not return the accumulator")
            ps = ("(o " if has_o else "(") + " ".join(qs) + " : V3) (t : Rat) : V3"
            emit(f"{tag}{suffix}Pyx", ps, s)
        # constructor: stored points are p - p0, offset = p0
        params, body = pyx_function(src, cls, r"\s+def __cinit__\(self, ")
        text = "\n".join(ast.unparse(b) for b in body)
        for i, q in enumerate(qs):
            for k, c in enumerate("xyz"):
                ok = re.search(rf"self\.p{i + 1}\[{k}\] = p{i + 1}\.{c} - ({c}|p0\.{c})\b", text)
                if not ok:
                    raise Untranslatable(f"{cls}.__cinit__: stored point p{i + 1}[{k}] is not p{i + 1}.{c} - p0.{c}")
    # --- bulge radius kernel
    f = py_method(bulge, "", "signed_bulge_radius")

    def opaque(sym, call):
        if ast.unparse(call) == "Vec2(start_point).distance(Vec2(end_point))":
            return ("s", "dist")
        return None

    s = Sym({"bulge": ("s", "bulge")}, opaque=opaque)
    s.run(f.body)
    if s.ret[0] != "s":
        raise Untranslatable("signed_bulge_radius")
    emit("signedBulgeRadiusPy", "(dist bulge : Rat) : Rat", s)
    return "\n".join(defs)


def _find_def(node, name):
    for n in ast.walk(node):
        if isinstance(n, ast.FunctionDef) and n.name == name:
            return n
    raise Untranslatable(f"def {name} not found")


def translate_kernels2(ctx) -> str:
    """kernels of the curve surgery code: Boehm's `new_point` (both branches of insert_knot), the de Casteljau level of
    split_bezier, quadratic_to_cubic_bezier, the derivative weights of the generic Bezier class"""
    bs = ast.parse(ctx.src("src/ezdxf/math/bspline.py"))
    ct = ast.parse(ctx.src("src/ezdxf/math/curvetools.py"))
    bz = ast.parse(ctx.src("src/ezdxf/math/bezier.py"))
    V = lambda n: ("v", n)
    S = lambda n: ("s", n)
    defs = []
    cls = next(n for n in bs.body if isinstance(n, ast.ClassDef) and n.name == "BSpline")
    for meth, arr, name in (("insert_knot", "cpoints", "insNewPointPy"), ("_insert_knot_rational", "hg_points", "insNewPointRatPy")):
        f = _find_def(_find_def(cls, meth), "new_point")
        if [a.arg for a in f.args.args] != ["index"]:
            raise Untranslatable(f"{meth}.new_point signature")
        sym = Sym({"t": S("t"), "knots[index]": S("ki"), "knots[index + p]": S("kip"), f"{arr}[index - 1]": V("c0"), f"{arr}[index]": V("c1")})
        sym.run(f.body)
        if sym.ret is None or sym.ret[0] != "v":
            raise Untranslatable(f"{meth}.new_point does not return a point")
        defs.append(f"def {name} (ki kip t : Rat) (c0 c1 : V3) : V3 :=\n{sym.lean()}\n")
        # the slice that is replaced and the position of the new knot
        src = ast.unparse(_find_def(cls, meth))
        if "[new_point(i) for i in range(k - p + 1, k + 1)]" not in src or "knots.insert(k + 1, t)" not in src or "[k - p + 1:k] =" not in src:
            raise Untranslatable(f"{meth}: slice assignment / knots.insert changed")
    # split_bezier: the generator expression of one de Casteljau level
    f = _find_def(_find_def(ct, "split_bezier"), "split")
    gens = [n for n in ast.walk(f) if isinstance(n, ast.GeneratorExp)]
    if len(gens) != 1 or ast.unparse(gens[0].generators[0].iter) != "range(n)":
        raise Untranslatable("split_bezier: level expression")
    sym = Sym({"t": S("t"), "points[i]": V("a"), "points[i + 1]": V("b")})
    k, tx = sym.expr(gens[0].elt)
    if k != "v":
        raise Untranslatable("split_bezier: level expression is not a point")
    defs.append(f"def lerpPy (a b : V3) (t : Rat) : V3 :=\n  {tx}\n")
    src = ast.unparse(f)
    if "left.append(points[0])" not in src or "right.append(points[n])" not in src:
        raise Untranslatable("split_bezier: left/right collection changed")
    # quadratic_to_cubic_bezier
    f = _find_def(ct, "quadratic_to_cubic_bezier")
    sym = Sym({"curve.control_points": ("tuple", [V("s0"), V("c"), V("e")])})
    body = [st for st in f.body if not isinstance(st, ast.Return)]
    sym.run(body)
    ret = [st for st in f.body if isinstance(st, ast.Return)]
    if len(ret) != 1 or ast.unparse(ret[0].value) != "Bezier4P((start, control_1, control_2, end))":
        raise Untranslatable("quadratic_to_cubic_bezier: return value")
    for nm in ("control_1", "control_2"):
        if sym.env.get(nm, ("", ""))[0] != "v":
            raise Untranslatable(f"quadratic_to_cubic_bezier: {nm}")
    defs.append(f"def quadC1Py (s0 c e : V3) : V3 :=\n  {sym.env['control_1'][1]}\n")
    defs.append(f"def quadC2Py (s0 c e : V3) : V3 :=\n  {sym.env['control_2'][1]}\n")
    # generic Bezier.derivative: the weights of pts[i] between the ends
    cls = next(n for n in bz.body if isinstance(n, ast.ClassDef) and n.name == "Bezier")
    f = _find_def(cls, "derivative")
    inner = [n for n in ast.walk(f) if isinstance(n, ast.If) and ast.unparse(n.test) == "0.0 < t < 1.0"]
    if len(inner) != 1:
        raise Untranslatable("Bezier.derivative: interior branch")
    sym = Sym({"t": S("t"), "t2": S("(t * t)"), "i": S("i"), "n0": S("n0"), "tmp_bas": S("bas")})
    if "t2 = t * t" not in ast.unparse(f):
        raise Untranslatable("Bezier.derivative: t2")
    for st in inner[0].body:
        if isinstance(st, ast.Assign):
            sym.run([st])
        elif isinstance(st, ast.AugAssign) and isinstance(st.op, ast.Add) and isinstance(st.target, ast.Name) and st.target.id in ("d1", "d2"):
            v = st.value
            if not (isinstance(v, ast.BinOp) and isinstance(v.op, ast.Mult) and ast.unparse(v.right) == "pts[i]"):
                raise Untranslatable("Bezier.derivative: weight * pts[i]")
            k, tx = sym.expr(v.left)
            if k != "s":
                raise Untranslatable("Bezier.derivative: weight is not a scalar")
            lets = "".join(f"  {l}\n" for l in sym.lets)
            defs.append(f"def bez{st.target.id.upper()}CoeffPy (i n0 t bas : Rat) : Rat :=\n{lets}  {tx}\n")
        else:
            raise Untranslatable(f"Bezier.derivative: statement {ast.unparse(st)[:60]}")
    # A5.9: the coefficient of the Bezier elevation table, A5.6: alpha and the in-place update of a Bezier point
    fe = _find_def(bs, "degree_elevation")
    asg = [n for n in ast.walk(fe) if isinstance(n, ast.Assign) and ast.unparse(n.targets[0]) == "bezalfs[i, j]"]
    if len(asg) != 2 or ast.unparse(asg[1].value) != "bezalfs[ph - i, p - j]":
        raise Untranslatable("degree_elevation: bezalfs assignments")
    srce = ast.unparse(fe)
    for frag in ("inv = 1.0 / binom(ph, i)", "for i in range(1, ph2 + 1):", "for j in range(max(0, i - t), mpi + 1):", "for i in range(ph2 + 1, ph):",
                 "bezalfs[0, 0] = 1.0", "bezalfs[ph, p] = 1.0", "ebpts[i] = ebpts[i] + bezalfs[i, j] * bpts[j]", "Qw[0] = Pw[0]"):
        if frag not in srce:
            raise Untranslatable(f"degree_elevation: {frag} changed")
    sym = Sym({"inv": S("(1 / cphi)"), "binom(p, j)": S("cpj"), "binom(t, i - j)": S("ctij")},
              opaque=lambda sy, call: sy.env.get(ast.unparse(call)))
    k, tx = sym.expr(asg[0].value)
    if k != "s":
        raise Untranslatable("degree_elevation: bezalfs value")
    defs.append(f"def bezalfsCoeffPy (cphi cpj ctij : Rat) : Rat :=\n  {tx}\n")
    fd = _find_def(next(n for n in bs.body if isinstance(n, ast.ClassDef) and n.name == "BSpline"), "bezier_decomposition")
    srcd = ast.unparse(fd)
    for frag in ("numer = knots[b] - knots[a]", "alphas[j - mult - 1] = numer / (knots[a + j] - knots[a])", "alpha = alphas[k - s]",
                 "for k in range(p, s - 1, -1):", "next_bezier_points[save] = bezier_points[p]", "next_bezier_points[i] = control_points[b - p + i]",
                 "math.isclose(knots[b + 1], knots[b])"):
        if frag not in srcd:
            raise Untranslatable(f"bezier_decomposition: {frag} changed")
    upd = [n for n in ast.walk(fd) if isinstance(n, ast.Assign) and ast.unparse(n.targets[0]) == "bezier_points[k]"]
    if len(upd) != 1:
        raise Untranslatable("bezier_decomposition: update of bezier_points[k]")
    sym = Sym({"alpha": S("alpha"), "bezier_points[k]": V("bk"), "bezier_points[k - 1]": V("bk1")})
    k, tx = sym.expr(upd[0].value)
    if k != "v":
        raise Untranslatable("bezier_decomposition: update is not a point")
    defs.append(f"def decompUpdatePy (alpha : Rat) (bk bk1 : V3) : V3 :=\n  {tx}\n")
    if len([d for d in defs if d.startswith("def bezD")]) != 2:
        raise Untranslatable("Bezier.derivative: d1/d2 weights")
    src = ast.unparse(f)
    for frag in ("d1 = n0 * (pts[1] - pts[0])", "d2 = n0 * n0_1 * (pts[0] - 2.0 * pts[1] + pts[2])", "d1 = n0 * (pts[n0] - pts[n0_1])",
                 "d2 = n0 * n0_1 * (pts[n0] - 2 * pts[n0_1] + pts[n0 - 2])", "1.0 - t < 5e-06"):
        if frag not in src:
            raise Untranslatable(f"Bezier.derivative: end formula changed ({frag})")
    return "\n".join(defs)


def regenerate(ctx):
    for f in SRC_FILES:
        ctx.src(f)
    kernels = translate_kernels(ctx) + "\n" + translate_kernels2(ctx)
    # FACTORIAL table of bspline.pyx (used by the rational derivative, A4.2)
    pyx = ctx.src("src/ezdxf/acc/bspline.pyx")
    m = re.search(r"cdef double\[(\d+)\] FACTORIAL = \[(.*?)\]", pyx, re.S)
    if not m:
        raise Untranslatable("FACTORIAL table not found")
    fact = [Fr(x.strip().rstrip(".") if x.strip().endswith(".") else x.strip()) for x in m.group(2).split(",") if x.strip()]
    if len(fact) != int(m.group(1)) or any(x.denominator != 1 for x in fact):
        raise Untranslatable("FACTORIAL table shape")
    mx = re.search(r"#define MAX_SPLINE_ORDER (\d+)", ctx.src("src/ezdxf/acc/constants.h"))
    if not mx:
        raise Untranslatable("MAX_SPLINE_ORDER")
    from ezdxf.math.linalg import binomial_coefficient

    nmax = 12
    binom = []
    for k in range(nmax + 1):
        row = []
        for i in range(nmax + 1):
            v = Fr(binomial_coefficient(k, i))
            if v.denominator != 1:
                raise Untranslatable("binomial_coefficient is not integral")
            row.append(int(v))
        binom.append(row)
    text = f"""
import EzdxfVerif.Model.Curve
namespace EzdxfVerif.Gen.CurveKernels
open EzdxfVerif.Curve

/-! kernels translated from `_bezier4p.py`, `_bezier3p.py`, `bezier4p.pyx`, `bezier3p.pyx`, `bulge.py`
    (`o` = offset = first defining point, `q*` = stored control points `p* - o`) -/

{kernels}
/-- `FACTORIAL` of acc/bspline.pyx -/
def factorialPyx : List Nat := [{", ".join(str(int(x)) for x in fact)}]

/-- MAX_SPLINE_ORDER of acc/constants.h -/
def maxSplineOrder : Nat := {mx.group(1)}

/-- `linalg.binomial_coefficient(k, i)` for k, i in 0..{nmax} (row k, column i) -/
def binomialPy : List (List Nat) := [{", ".join("[" + ", ".join(map(str, r)) + "]" for r in binom)}]

end EzdxfVerif.Gen.CurveKernels
"""
    ctx.write_gen("CurveKernels", text, SRC_FILES)


# ====================================================================== protocol helpers
def rs(x) -> str:
    x = Fr(x)
    return str(x.numerator) if x.denominator == 1 else f"{x.numerator}/{x.denominator}"


def rlist(xs) -> str:
    return ",".join(rs(x) for x in xs)


def vs(p) -> str:
    return ":".join(rs(c) for c in p)


def vlist(ps) -> str:
    return ",".join(vs(p) for p in ps)


def parse_r(s: str) -> Fr:
    return Fr(s)


def parse_v(s: str):
    return tuple(Fr(c) for c in s.split(":"))


def close(impl: float, exact: Fr, scale=1.0) -> bool:
    if not math.isfinite(impl):
        return False
    e = float(exact)
    return abs(impl - e) <= REL_TOL * max(1.0, abs(e), scale)


def vclose(v, exact, scale=1.0) -> bool:
    return all(close(float(a), b, scale) for a, b in zip((v[0], v[1], v[2] if len(v) > 2 else 0.0), exact))


def err_name(e: BaseException) -> str:
    return "err " + type(e).__name__


class Impl:
    """the two twins, imported directly (not through ezdxf.math) so that both are exercised"""

    def __init__(self, name):
        self.name = name
        if name == "py":
            from ezdxf.math import _bspline, _bezier4p, _bezier3p, _vector, _matrix44

            self.Basis, self.Evaluator = _bspline.Basis, _bspline.Evaluator
            self.Bezier4P, self.Bezier3P = _bezier4p.Bezier4P, _bezier3p.Bezier3P
            self.Vec3, self.Vec2, self.Matrix44 = _vector.Vec3, _vector.Vec2, _matrix44.Matrix44
        else:
            from ezdxf.acc import bspline, bezier4p, bezier3p, vector, matrix44

            self.Basis, self.Evaluator = bspline.Basis, bspline.Evaluator
            self.Bezier4P, self.Bezier3P = bezier4p.Bezier4P, bezier3p.Bezier3P
            self.Vec3, self.Vec2, self.Matrix44 = vector.Vec3, vector.Vec2, matrix44.Matrix44

    def v3(self, p):
        return self.Vec3(float(p[0]), float(p[1]), float(p[2]))

    def basis(self, knots, order, count, weights=None):
        return self.Basis([float(k) for k in knots], order, count, [float(w) for w in weights] if weights else None)

    def evaluator(self, knots, order, cps, weights=None):
        return self.Evaluator(self.basis(knots, order, len(cps), weights), [self.v3(p) for p in cps])


_IMPLS = None


def impls(ctx=None):
    global _IMPLS
    if _IMPLS is None:
        out = [Impl("py")]
        try:
            out.append(Impl("pyx"))
        except ImportError as e:
            if ctx:
                ctx.note(f"C-extensions not importable ({e}); only the pure Python twin is exercised")
        _IMPLS = out
    return _IMPLS


class use_twin:
    """run BSpline level code of ezdxf.math.bspline on a chosen Basis/Evaluator twin"""

    def __init__(self, impl: Impl):
        self.impl = impl

    def __enter__(self):
        import ezdxf.math.bspline as B

        self.B, self.saved = B, (B.Basis, B.Evaluator)
        B.Basis, B.Evaluator = self.impl.Basis, self.impl.Evaluator

    def __exit__(self, *a):
        self.B.Basis, self.B.Evaluator = self.saved


# ====================================================================== exact referee (Fractions)
def padd(a, b):
    n = max(len(a), len(b))
    return [(a[i] if i < len(a) else 0) + (b[i] if i < len(b) else 0) for i in range(n)]


def pmul(a, b):
    if not a or not b:
        return []
    out = [Fr(0)] * (len(a) + len(b) - 1)
    for i, x in enumerate(a):
        for j, y in enumerate(b):
            out[i + j] += x * y
    return out


def pscale(a, s):
    return [x * s for x in a]


def peval(a, u):
    r = Fr(0)
    for c in reversed(a):
        r = r * u + c
    return r


def pderiv(a):
    return [a[i] * i for i in range(1, len(a))]


def piece_polys(U, p, s):
    """textbook Cox-de Boor recursion restricted to the knot span s: {i: polynomial of N_{i,p} on span s}"""
    level = {s: [Fr(1)]}
    for q in range(p):
        nxt = {}
        for i in range(s - q - 1, s + 1):
            acc = []
            if i in level and i >= 0:
                d = U[i + q + 1] - U[i]
                if d != 0:
                    acc = padd(acc, pmul([-U[i] / d, Fr(1) / d], level[i]))
            if i + 1 in level:
                d = U[i + q + 2] - U[i + 1]
                if d != 0:
                    acc = padd(acc, pmul([U[i + q + 2] / d, Fr(-1) / d], level[i + 1]))
            nxt[i] = acc
        level = nxt
    return level


def ref_span(U, p, count, u):
    """knot span of the textbook definition; at the domain end the last non-empty span (left limit)"""
    if u >= U[count]:
        s = count - 1
        while s > p and U[s] >= U[count]:
            s -= 1
        return s
    s = p
    for i in range(p, count):
        if U[i] <= u:
            s = i
    while s < count - 1 and U[s] == U[s + 1]:  # u (1 ulp) below a repeated domain start: first non-empty span
        s += 1
    return s


class RefCurve:
    """exact (rational) B-spline: point and derivatives of the polynomial piece that contains u"""

    def __init__(self, knots, order, cps, weights=None):
        self.U = [Fr(k) for k in knots]
        self.p = order - 1
        self.cps = [tuple(Fr(c) for c in pt) for pt in cps]
        self.w = [Fr(w) for w in weights] if weights else None
        self.count = len(self.cps)
        self._cache = {}

    def domain(self):
        return self.U[self.p], self.U[self.count]

    def piece(self, s):
        if s not in self._cache:
            polys = piece_polys(self.U, self.p, s)
            A = [[], [], []]
            W = []
            for i, poly in polys.items():
                if i < 0 or i >= self.count:
                    continue
                w = self.w[i] if self.w else Fr(1)
                for k in range(3):
                    A[k] = padd(A[k], pscale(poly, w * self.cps[i][k]))
                W = padd(W, pscale(poly, w))
            self._cache[s] = (A, W)
        return self._cache[s]

    def derivatives(self, u, n, span=None):
        u = Fr(u)
        s = ref_span(self.U, self.p, self.count, u) if span is None else span
        A, W = self.piece(s)
        Ad = [list(a) for a in A]
        Wd = list(W)
        Aders, Wders = [], []
        for _ in range(n + 1):
            Aders.append(tuple(peval(a, u) for a in Ad))
            Wders.append(peval(Wd, u))
            Ad = [pderiv(a) for a in Ad]
            Wd = pderiv(Wd)
        CK = []
        for k in range(n + 1):
            v = list(Aders[k])
            for i in range(1, k + 1):
                c = math.comb(k, i) * Wders[i]
                v = [a - c * b for a, b in zip(v, CK[k - i])]
            CK.append(tuple(a / Wders[0] for a in v))
        return CK

    def point(self, u, span=None):
        return self.derivatives(u, 0, span)[0]


def bernstein_point(pts, t):
    """de Casteljau in Fractions"""
    pts = [tuple(Fr(c) for c in p) for p in pts]
    t = Fr(t)
    while len(pts) > 1:
        pts = [tuple(a * (1 - t) + b * t for a, b in zip(p, q)) for p, q in zip(pts, pts[1:])]
    return pts[0]


# ====================================================================== generators
DY = [Fr(k, 4) for k in range(-32, 33)]
# plane normals of arcs/ellipses: unit, non-unit and tilted (DXF accepts any non-null (210, 220, 230) vector)
EXTRUSIONS = [(0, 0, 1), (0, 0, -1), (0, 0, 1), (0, 0, 2), (0, 0, -0.5), (1, 1, 1), (2, -1, 2), (0, 3, 4), (-0.2, 0.1, 0.3)]


def gen_point(rng, flat=False, big=False):
    off = rng.choice([0, 0, 0, 1000, -250000]) if big else 0
    return (rng.choice(DY) + off, rng.choice(DY) + off, Fr(0) if flat else rng.choice(DY))


def gen_weights(rng, n):
    return [rng.choice([Fr(1), Fr(1), Fr(1, 2), Fr(2), Fr(3), Fr(1, 3), Fr(3, 4), Fr(5, 2)]) for _ in range(n)]


KINDS = ["clamped-uniform", "clamped", "uniform", "unclamped", "unclamped"]


def gen_knots(rng, p, n, kind):
    """n control points, degree p: n + p + 1 nondecreasing knots starting at 0; interior multiplicity <= p"""
    m = n + p + 1
    if kind == "clamped-uniform":
        return [Fr(0)] * (p + 1) + [Fr(i) for i in range(1, n - p)] + [Fr(n - p)] * (p + 1)
    if kind == "uniform":
        return [Fr(i) for i in range(m)]
    steps = [Fr(1, 4), Fr(1, 2), Fr(1), Fr(1), Fr(2), Fr(1, 3), Fr(3, 2)]
    if kind == "clamped":
        inner, v, run = [], Fr(0), 0
        for _ in range(n - p - 1):
            if inner and run < p and rng.random() < 0.35:
                run += 1
            else:
                v += rng.choice(steps)
                run = 1
            inner.append(v)
        end = v + rng.choice(steps)
        return [Fr(0)] * (p + 1) + inner + [end] * (p + 1)
    # unclamped, non uniform: every value at most p times
    out, v, run = [Fr(0)], Fr(0), 1
    while len(out) < m:
        if run < p and rng.random() < 0.3:
            run += 1
        else:
            v += rng.choice(steps)
            run = 1
        out.append(v)
    return out


def sample_params(rng, U, p, count, extra=3):
    """parameters inside and at both ends of the domain: every distinct knot of the domain, midpoints, random"""
    lo, hi = U[p], U[count]
    ks = sorted({k for k in U if lo <= k <= hi})
    out = list(ks)
    out += [(a + b) / 2 for a, b in zip(ks, ks[1:])]
    for _ in range(extra):
        if hi > lo:
            out.append(lo + (hi - lo) * Fr(rng.randint(1, 63), 64))
    return out


def gen_spline(rng, pmax=7, rational=None, kinds=KINDS, flat=False):
    p = rng.randint(1, pmax)
    n = p + 1 + rng.choice([0, 0, 1, 1, 2, 3, 4, 6])
    kind = rng.choice(kinds)
    U = gen_knots(rng, p, n, kind)
    cps = [gen_point(rng, flat) for _ in range(n)]
    if rational is None:
        rational = rng.random() < 0.4
    w = gen_weights(rng, n) if rational else None
    return kind, p, U, cps, w


def weight_sum(U, p, s, w, u) -> Fr:
    """exact value of sum_i N_i(u) w_i taken over the polynomial pieces of span s (what span_weighting divides by)"""
    tot = Fr(0)
    for i, poly in piece_polys(U, p, s).items():
        if 0 <= i < len(w):
            tot += peval(poly, Fr(u)) * w[i]
    return tot


def is_f13(U, p, count, u) -> bool:
    """shape of finding F13 (fixed by 8d57f80c6): evaluation at the domain end whose knot is repeated to the left.
    Kept as a separate failure class so that a regression is reported under its own key `F13/...`"""
    return u >= U[count] and U[count - 1] == U[count]


# ====================================================================== correspondence
NUM = re.compile(r"-?\d+(?:/\d+)?")


class Cases:
    """collects (stream, request, impl response, nontrivial) and compares with the Lean driver in one run.
    impl response = (skeleton with '#' for every number, [numbers]); numbers are compared with the model's
    exact rationals: ints exactly, floats within REL_TOL * max(1, |exact|, scale of the line)."""

    def __init__(self, ctx):
        self.ctx = ctx
        self.items = []

    def add(self, stream, req, skel, nums=(), nontrivial=True, exact=False, twin=""):
        self.items.append((stream, req, skel, list(nums), nontrivial, exact, twin))

    def add_exact(self, stream, req, text, nontrivial=True, twin=""):
        nums = [Fr(x) for x in NUM.findall(text)]
        self.add(stream, req, NUM.sub("#", text), nums, nontrivial, True, twin)

    def run(self):
        ctx = self.ctx
        reqs = list(dict.fromkeys(it[1] for it in self.items))
        outs = dict(zip(reqs, ctx.driver("C13", reqs, build=DRIVER_DEPS)))
        for stream, req, skel, nums, nontriv, exact, twin in self.items:
            model = outs[req]
            mnums = [Fr(x) for x in NUM.findall(model)]
            mskel = NUM.sub("#", model)
            ok = mskel == skel and len(mnums) == len(nums)
            if ok:
                if exact:
                    ok = all(Fr(a) == b for a, b in zip(nums, mnums))
                else:
                    scale = max([1.0] + [abs(float(b)) for b in mnums])
                    ok = all(close(float(a), b, scale) for a, b in zip(nums, mnums))
            shown = skel
            for a in nums:
                shown = shown.replace("#", repr(float(a)) if not exact else str(a), 1)
            ctx.count(stream, (req, twin), nontriv, sample={"request": req[:300], "impl": f"[{twin}] " + shown[:300], "model": model[:300]})
            if not ok:
                ctx.disagree(stream, f"[{twin}] {req}", shown, model)
        ctx.cov["disagreements_checked"] += len(self.items)


def fv(v):
    return "#:#:#", [float(v[0]), float(v[1]), float(v[2]) if len(v) > 2 else 0.0]


def spline_corpus(ctx, salt, n):
    rng = ctx.rng(salt)
    out = []
    # systematic small cases first: every degree 1..7, every kind
    for p in range(1, 8):
        for kind in ["clamped-uniform", "clamped", "uniform", "unclamped"]:
            for extra in (0, 2):
                nn = p + 1 + extra
                U = gen_knots(rng, p, nn, kind)
                out.append((kind, p, U, [gen_point(rng) for _ in range(nn)], gen_weights(rng, nn) if (p + extra) % 3 == 0 else None))
    # the F13 shape and its neighbours
    out.append(("unclamped", 2, [Fr(x) for x in (0, 1, 2, 3, 3, 4, 5)], [(Fr(0), Fr(0), Fr(0)), (Fr(1), Fr(2), Fr(0)), (Fr(3), Fr(2), Fr(0)), (Fr(4), Fr(0), Fr(0))], None))
    out.append(("unclamped", 2, [Fr(x) for x in (0, 1, 2, 3, 4, 4, 5)], [(Fr(0), Fr(0), Fr(0)), (Fr(1), Fr(2), Fr(0)), (Fr(3), Fr(2), Fr(0)), (Fr(4), Fr(0), Fr(0))], None))
    out.append(("unclamped", 3, [Fr(x) for x in (0, 1, 2, 3, 4, 4, 4, 5, 6)], [gen_point(rng) for _ in range(5)], [Fr(1), Fr(2), Fr(1), Fr(1, 2), Fr(1)]))
    while len(out) < n:
        out.append(gen_spline(rng))
    return out


def span_params(rng, U, p, count):
    us = sorted(set(U))
    out = list(us) + [(a + b) / 2 for a, b in zip(us, us[1:])]
    out += [U[0] - 1, U[0] - Fr(1, 8), U[-1] + Fr(1, 8), U[-1] + 3, U[count] + Fr(1, 16), U[p] - Fr(1, 16)]
    return list(dict.fromkeys(out))


def correspond(ctx):
    C = Cases(ctx)
    tw = impls(ctx)
    corpus = spline_corpus(ctx, "corr", ctx.n(400, 4500))
    rng = ctx.rng("corr-u")
    for kind, p, U0, cps, w in corpus:
        order, count = p + 1, len(cps)
        ctx.hist("X1 find_span", f"{kind}/p={p}")
        # ---- X1: find_span on the vector as generated, shifted so that knots[p] == 0 (binary search branch)
        #      and shifted by +1 (linear search branch)
        for variant, shift in (("as-is", Fr(0)), ("knots[p]=0", -U0[p]), ("shift+1", Fr(1))):
            U = [k + shift for k in U0]
            for u in span_params(rng, U, p, count):
                req = f"span|{order}|{count}|{rs(u)}|{rlist(U)}"
                for im in tw:
                    r = im.basis(U, order, count).find_span(float(u))
                    C.add_exact("X1 find_span", req, str(int(r)), nontrivial=U[0] <= u <= U[-1], twin=im.name)
        # ---- X2: basis functions and points
        U = U0
        dom = sample_params(rng, U, p, count, extra=2)
        for u in dom + [U[count] + Fr(1, 4), U[p] - Fr(1, 4)]:
            spans = {ref_span(U, p, count, u)}
            spans.add(rng.randrange(0, count))
            if u >= U[count]:
                spans.add(count - 1)
            for s in sorted(spans):
                for ww in ([None, w] if (w and s >= p) else [None]):
                    if ww and U[s] < U[s + 1] and weight_sum(U, p, s, ww, u) == 0:
                        # decision band of `if s == 0.0` in span_weighting: exact 0 is a rounding residue in floats
                        # (only possible outside the span); excluded and counted
                        ctx.hist("X2 basis/point", "excluded: weight sum exactly 0 outside the span")
                        continue
                    req = f"basis|{order}|{s}|{rs(u)}|{rlist(U)}|{rlist(ww) if ww else ''}"
                    for im in tw:
                        b = im.basis(U, order, count, ww)
                        try:
                            N = b.basis_funcs(s, float(u))
                            C.add("X2 basis/point", req, "ok " + ",".join("#" * len(N)), [float(x) for x in N],
                                  nontrivial=True, twin=im.name)
                        except ZeroDivisionError as e:
                            C.add("X2 basis/point", req, err_name(e), twin=im.name)
        for u in dom + [U[count] + Fr(1, 2), U[-1]]:
            if u < U[p]:
                continue
            for ww in ([None, w] if w else [None]):
                if ww and u > U[count] and U[count - 1] < U[count] and weight_sum(U, p, count - 1, ww, u) == 0:
                    ctx.hist("X2 basis/point", "excluded: weight sum exactly 0 outside the span")
                    continue
                req = f"point|{order}|{rs(u)}|{rlist(U)}|{rlist(ww) if ww else ''}|{vlist(cps)}"
                for im in tw:
                    ev = im.evaluator(U, order, cps, ww)
                    try:
                        v = ev.point(float(u))
                        sk, nums = fv(v)
                        C.add("X2 basis/point", req, "ok " + sk, nums, twin=im.name)
                    except ZeroDivisionError as e:
                        C.add("X2 basis/point", req, err_name(e), twin=im.name)
            # Basis.basis_vector: the collocation row of the interpolation solvers
            if U[p] <= u <= U[count]:
                for ww in ([None, w] if w else [None]):
                    req = f"bvec|{order}|{count}|{rs(u)}|{rlist(U)}|{rlist(ww) if ww else ''}"
                    for im in tw:
                        try:
                            bv = im.basis(U, order, count, ww).basis_vector(float(u))
                            C.add("X2 basis/point", req, "ok " + ",".join("#" * len(bv)), [float(x) for x in bv], twin=im.name)
                        except ZeroDivisionError as e:
                            C.add("X2 basis/point", req, err_name(e), twin=im.name)
            # the Lean Cox-de Boor sum (what the theorems talk about) = the referee of the oracle, exactly
            if U[p] <= u < U[count]:
                ex = RefCurve(U, order, cps).point(u)
                C.add_exact("X2 reference", f"ref|{order}|{rs(u)}|{rlist(U)}|{vlist(cps)}", vs(ex), twin="referee")
        # ---- X9: basis_funcs_derivatives (A2.3, all orders up to the degree) and Evaluator.derivative (A3.2 / A4.2)
        for u in dom + [U[count] + Fr(1, 4)]:
            spans = {ref_span(U, p, count, u) if u >= U[p] else p}
            spans.add(rng.randrange(p, count))
            for s in sorted(spans):
                for nd in sorted({1, p, p + 2} if s == min(spans) else {min(p, 2)}):
                    req = f"ders|{order}|{s}|{rs(u)}|{nd}|{rlist(U)}"
                    for im in tw:
                        b = im.basis(U, order, count)
                        try:
                            rows = b.basis_funcs_derivatives(s, float(u), nd)
                            C.add("X9 derivatives", req, "ok " + ";".join(",".join("#" * len(r)) for r in rows),
                                  [float(x) for r in rows for x in r], twin=im.name)
                        except ZeroDivisionError as e:
                            C.add("X9 derivatives", req, err_name(e), twin=im.name)
            if U[p] <= u:
                for ww in ([None, w] if w else [None]):
                    if ww and u > U[count]:
                        continue
                    nd = rng.choice([1, min(p, 2), p])
                    req = f"deriv|{order}|{rs(u)}|{nd}|{rlist(U)}|{rlist(ww) if ww else ''}|{vlist(cps)}"
                    for im in tw:
                        ev = im.evaluator(U, order, cps, ww)
                        try:
                            ds = ev.derivative(float(u), nd)
                            nums = []
                            for q in ds:
                                nums += [q.x, q.y, q.z]
                            C.add("X9 derivatives", req, "ok " + ",".join(["#:#:#"] * len(ds)), nums, twin=im.name)
                        except ZeroDivisionError as e:
                            C.add("X9 derivatives", req, err_name(e), twin=im.name)
        # ---- X15: bezier_decomposition (A5.6): every yielded segment; TypeError for rational / unclamped splines
        for ww, Ud in ([(None, U), (w, U)] if w else [(None, U), (None, [k * Fr(1, 2 ** 30) for k in U]), (None, [k * 2 ** 20 for k in U])]):
            req = f"decomp|{order}|{rlist(Ud)}|{rlist(ww) if ww else ''}|{vlist(cps)}"
            for im in tw:
                with use_twin(im):
                    from ezdxf.math.bspline import BSpline

                    try:
                        segs = [list(sg) for sg in BSpline([im.v3(c) for c in cps], order, [float(k) for k in Ud],
                                                          [float(x) for x in ww] if ww else None).bezier_decomposition()]
                        nums = []
                        for sg in segs:
                            for q in sg:
                                nums += [q.x, q.y, q.z]
                        C.add("X15 bezier_decomposition", req, "ok " + ";".join(",".join(["#:#:#"] * len(sg)) for sg in segs), nums, twin=im.name)
                    except TypeError as e:
                        C.add("X15 bezier_decomposition", req, err_name(e), nontrivial=False, twin=im.name)
        # ---- X4: insert_knot / reverse knots (BSpline level, both twins)
        if True:
            ts = [rng.choice(dom) for _ in range(2)] + [U[p] / 2 if U[p] > 0 else Fr(-1), U[-1], U[-1] + 1, Fr(0),
                                                      (U[count] + U[-1]) / 2, U[count]]
            if U[p] < U[count]:
                ts.append(U[p] + (U[count] - U[p]) * Fr(rng.randint(1, 31), 32))
            for t in dict.fromkeys(ts):
                req = f"ins|{order}|{rs(t)}|{rlist(U)}|{vlist(cps)}"
                for im in tw:
                    with use_twin(im):
                        from ezdxf.math.bspline import BSpline

                        try:
                            s2 = BSpline([im.v3(c) for c in cps], order, [float(k) for k in U]).insert_knot(float(t))
                            ks, pts = list(s2.knots()), list(s2.control_points)
                            nums = list(ks)
                            for q in pts:
                                nums += [q.x, q.y, q.z]
                            C.add("X4 insert_knot", req, "ok " + ",".join("#" * len(ks)) + "|" + ",".join(["#:#:#"] * len(pts)),
                                  nums, twin=im.name)
                        except Exception as e:  # noqa
                            C.add("X4 insert_knot", req, err_name(e), twin=im.name)
            if w:
                for t in dict.fromkeys(ts):
                    if U[count] < t < U[-1]:
                        # beyond the domain end Boehm's formula EXTRAPOLATES (a > 1): new weights can be exactly 0 in
                        # rationals and a rounding residue in floats (ZeroDivisionError vs huge values); excluded, counted
                        ctx.hist("X4 insert_knot", "excluded: rational insertion beyond the domain end")
                        continue
                    req = f"insr|{order}|{rs(t)}|{rlist(U)}|{rlist(w)}|{vlist(cps)}"
                    for im in tw:
                        with use_twin(im):
                            from ezdxf.math.bspline import BSpline

                            try:
                                s2 = BSpline([im.v3(c) for c in cps], order, [float(k) for k in U], [float(x) for x in w]).insert_knot(float(t))
                                ks, ws, pts = list(s2.knots()), list(s2.weights()), list(s2.control_points)
                                nums = list(ks) + list(ws)
                                for q in pts:
                                    nums += [q.x, q.y, q.z]
                                C.add("X4 insert_knot", req, "ok " + ",".join("#" * len(ks)) + "|" + ",".join("#" * len(ws)) + "|" + ",".join(["#:#:#"] * len(pts)),
                                      nums, twin=im.name + "/rational")
                            except Exception as e:  # noqa
                                C.add("X4 insert_knot", req, err_name(e), twin=im.name + "/rational")
            for shift in (Fr(0), Fr(3, 2)):
                from ezdxf.math.bspline import BSpline

                Us = [k + shift for k in U]
                # BSpline normalises a knot vector that does not start at 0; reverse() normalises again
                ks = list(BSpline([impls()[0].v3(c) for c in cps], order, [float(k) for k in Us]).reverse().knots())
                C.add("X4 insert_knot", f"revk|{rlist(Us)}", ",".join("#" * len(ks)), ks, twin="bspline.py")
        # ---- X6: knot_refinement = iterated insert_knot (BSpline level, both twins)
        if U[p] < U[count]:
            lo, hi = U[p], U[count]
            inner = [k for k in dict.fromkeys(U) if lo < k < hi]
            for trial in range(3):
                ts = [lo + (hi - lo) * Fr(rng.randint(1, 31), 32) for _ in range(rng.choice([1, 2, 3, 4]))]
                if trial == 1:
                    ts.append(ts[0])  # repeated new knot
                    if inner:
                        ts.insert(1, rng.choice(inner))  # an existing knot (may exceed multiplicity p: both sides must agree)
                if trial == 2:
                    ts.insert(rng.randrange(len(ts) + 1), rng.choice([Fr(0), U[-1], U[p] / 2 if U[p] > 0 else Fr(-1), U[-1] + 1]))
                req = f"refine|{order}|{rlist(ts)}|{rlist(U)}|{vlist(cps)}"
                for im in tw:
                    with use_twin(im):
                        from ezdxf.math.bspline import BSpline

                        try:
                            s2 = BSpline([im.v3(c) for c in cps], order, [float(k) for k in U]).knot_refinement([float(t) for t in ts])
                            ks, pts = list(s2.knots()), list(s2.control_points)
                            nums = list(ks)
                            for q in pts:
                                nums += [q.x, q.y, q.z]
                            C.add("X6 knot_refinement", req, "ok " + ",".join("#" * len(ks)) + "|" + ",".join(["#:#:#"] * len(pts)),
                                  nums, twin=im.name)
                        except Exception as e:  # noqa
                            C.add("X6 knot_refinement", req, err_name(e), twin=im.name)
                if w and all(lo <= t <= hi for t in ts):
                    # rational refinement (insert_knot dispatches to _insert_knot_rational); inside the domain only, see X4
                    req = f"refiner|{order}|{rlist(ts)}|{rlist(U)}|{rlist(w)}|{vlist(cps)}"
                    for im in tw:
                        with use_twin(im):
                            from ezdxf.math.bspline import BSpline

                            try:
                                s2 = BSpline([im.v3(c) for c in cps], order, [float(k) for k in U], [float(x) for x in w]).knot_refinement([float(t) for t in ts])
                                ks, ws, pts = list(s2.knots()), list(s2.weights()), list(s2.control_points)
                                nums = list(ks) + list(ws)
                                for q in pts:
                                    nums += [q.x, q.y, q.z]
                                C.add("X6 knot_refinement", req, "ok " + ",".join("#" * len(ks)) + "|" + ",".join("#" * len(ws)) + "|" + ",".join(["#:#:#"] * len(pts)),
                                      nums, twin=im.name + "/rational")
                            except Exception as e:  # noqa
                                C.add("X6 knot_refinement", req, err_name(e), twin=im.name + "/rational")
            # ---- X10: split (split_bspline): both halves, knots and control points, error classes
            sts = [lo + (hi - lo) * Fr(rng.randint(1, 15), 16)] + inner[:1] + [rng.choice([lo, hi, Fr(0), U[-1], (hi + U[-1]) / 2, lo / 2])]
            for t in dict.fromkeys(sts):
                req = f"split|{order}|{rs(t)}|{rlist(U)}|{vlist(cps)}"
                for im in tw:
                    with use_twin(im):
                        from ezdxf.math.bspline import BSpline

                        try:
                            a, b = BSpline([im.v3(c) for c in cps], order, [float(k) for k in U]).split(float(t))
                            nums, sk = [], []
                            for h in (a, b):
                                ks, pts = list(h.knots()), list(h.control_points)
                                nums += [float(k) for k in ks]
                                for q in pts:
                                    nums += [q.x, q.y, q.z]
                                sk.append(",".join("#" * len(ks)) + "|" + ",".join(["#:#:#"] * len(pts)))
                            C.add("X10 split", req, "ok " + "|".join(sk), nums, twin=im.name)
                        except ZeroDivisionError as e:
                            C.add("X10 split", req, err_name(e), twin=im.name)
                        except ValueError as e:  # DXFValueError is a ValueError subclass? keep the class name
                            C.add("X10 split", req, err_name(e), twin=im.name)
                        except Exception as e:  # noqa
                            C.add("X10 split", req, err_name(e), twin=im.name)
                if w and lo <= t <= hi:
                    req = f"splitr|{order}|{rs(t)}|{rlist(U)}|{rlist(w)}|{vlist(cps)}"
                    for im in tw:
                        with use_twin(im):
                            from ezdxf.math.bspline import BSpline

                            try:
                                a, b = BSpline([im.v3(c) for c in cps], order, [float(k) for k in U], [float(x) for x in w]).split(float(t))
                                nums, sk = [], []
                                for h in (a, b):
                                    ks, ws, pts = list(h.knots()), list(h.weights()), list(h.control_points)
                                    nums += [float(k) for k in ks] + [float(x) for x in ws]
                                    for q in pts:
                                        nums += [q.x, q.y, q.z]
                                    sk.append(",".join("#" * len(ks)) + "|" + ",".join("#" * len(ws)) + "|" + ",".join(["#:#:#"] * len(pts)))
                                C.add("X10 split", req, "ok " + "|".join(sk), nums, twin=im.name + "/rational")
                            except Exception as e:  # noqa
                                C.add("X10 split", req, err_name(e), twin=im.name + "/rational")
            # ---- X8: reverse(): the reversed spline at the mirrored parameter (rational included), both twins
            mx = U[-1]
            for u in dom:
                for ww in ([None, w] if w else [None]):
                    req = f"revpt|{order}|{rs(u)}|{rlist(U)}|{rlist(ww) if ww else ''}|{vlist(cps)}"
                    for im in tw:
                        with use_twin(im):
                            from ezdxf.math.bspline import BSpline

                            try:
                                r = BSpline([im.v3(c) for c in cps], order, [float(k) for k in U], [float(x) for x in ww] if ww else None).reverse()
                                # a parameter ON a knot is taken from the reversed spline's own (rounded) knots, so that no
                                # sample falls 1 ulp outside the domain or on the other side of the knot
                                par = r.knots()[len(U) - 1 - U.index(u)] if u in U else float(1 - u / mx)
                                v = r.point(par)
                                sk, nums = fv(v)
                                C.add("X8 reverse", req, "ok " + sk, nums, twin=im.name)
                            except ZeroDivisionError as e:
                                C.add("X8 reverse", req, err_name(e), twin=im.name)
    split_bezier_cases(ctx, C, tw)
    interpolation_setup_cases(ctx, C)
    elevate_bezier_cases(ctx, C, tw)
    knot_vector_cases(ctx, C)
    generic_bezier_cases(ctx, C)
    bezier_to_bspline_cases(ctx, C, tw)
    bezier_cases(ctx, C, tw)
    bulge_cases(ctx, C)
    C.run()


def bezier_to_bspline_cases(ctx, C: "Cases", tw):
    """X11: curvetools.bezier_to_bspline (cubic and quadratic curves mixed, seamless or not): knots and control
    points vs the model; on the real code the B-spline over [k, k+1) must be curve k (exact de Casteljau referee)"""
    from ezdxf.math.curvetools import bezier_to_bspline

    rng = ctx.rng("b2b")
    for i in range(ctx.n(150, 2000)):
        n = rng.choice([0, 1, 1, 2, 2, 3, 4, 6]) if i % 25 == 0 else rng.choice([1, 1, 2, 2, 3, 4, 6])
        seam = i % 7 != 6
        chains, last = [], gen_point(rng)
        for k in range(n):
            deg = rng.choice([3, 3, 2])
            pts = [last if (seam or k == 0) else gen_point(rng)] + [gen_point(rng) for _ in range(deg)]
            last = pts[-1]
            chains.append(pts)
        req = "b2b|" + ";".join(vlist(c) for c in chains)
        for im in tw:
            curves = [(im.Bezier4P if len(c) == 4 else im.Bezier3P)([im.v3(q) for q in c]) for c in chains]
            import ezdxf.math.curvetools as CT

            saved = CT.Bezier4P
            CT.Bezier4P = im.Bezier4P  # quadratic_to_cubic_bezier builds its result with the module level name: same twin
            try:
                sp = bezier_to_bspline(curves)
            except ValueError as e:
                C.add("X11 bezier_to_bspline", req, err_name(e), nontrivial=False, twin=im.name)
                continue
            finally:
                CT.Bezier4P = saved
            ks, pts = list(sp.knots()), list(sp.control_points)
            nums = [float(k) for k in ks]
            for q in pts:
                nums += [q.x, q.y, q.z]
            C.add("X11 bezier_to_bspline", req, "ok " + ",".join("#" * len(ks)) + "|" + ",".join(["#:#:#"] * len(pts)), nums, twin=im.name)
            if seam:
                for k, c in enumerate(chains):
                    for x in (Fr(0), Fr(1, 4), Fr(5, 8)):
                        ex = bernstein_point(c, x)
                        v = sp.point(float(k + x))
                        ctx.count("X11 bezier_to_bspline", ("pt", i, k, str(x), im.name), True)
                        if not vclose(v, ex, 8.0):
                            ctx.fail(f"b2b/segment/{im.name}/{i}/k={k}/x={rs(x)}", f"bezier_to_bspline: point({float(k + x)}) = {tuple(v)} but curve {k} at {float(x)} is {[float(a) for a in ex]}",
                                     {"op": "b2b", "curves": [[vs(q) for q in c] for c in chains], "k": k, "x": rs(x), "twin": im.name})
        ctx.hist("X11 bezier_to_bspline", f"n={n}" + ("" if seam else "/gaps"))


def generic_bezier_cases(ctx, C: "Cases"):
    """X12: the generic Bezier class (bezier.py, 3..10 definition points): point and (point, d1, d2) of derivative(),
    both end formulas, the snapping of t close to 1, out of range parameters"""
    from ezdxf.math import Bezier, Vec3

    rng = ctx.rng("bezn")
    ts = [Fr(0), Fr(1), Fr(1, 2), Fr(1, 4), Fr(3, 4), Fr(1, 8), Fr(5, 16), Fr(63, 64), Fr(1, 64), 1 - Fr(1, 2 ** 20), 1 - Fr(1, 2 ** 16),
          Fr(-1, 4), Fr(5, 4)]
    for i in range(ctx.n(250, 3000)):
        n = rng.choice([3, 3, 4, 4, 5, 6, 7, 8, 10])
        pts = [gen_point(rng, i % 3 == 0) for _ in range(n)]
        curve = Bezier([Vec3(float(q[0]), float(q[1]), float(q[2])) for q in pts])
        for t in rng.sample(ts, 4) + [Fr(0), Fr(1)]:
            req = f"bezn|{rs(t)}|{vlist(pts)}"
            try:
                v = curve.point(float(t))
                a, b, c = curve.derivative(float(t))
                nums = []
                for q in (v, a, b, c):
                    nums += [q.x, q.y, q.z]
                C.add("X12 generic Bezier", req, "ok #:#:#;#:#:#;#:#:#;#:#:#", nums, nontrivial=0 <= t <= 1, twin="bezier.py")
            except ValueError as e:
                C.add("X12 generic Bezier", req, err_name(e), nontrivial=False, twin="bezier.py")
        # reverse() and transform(m)
        from ezdxf.math import Matrix44

        aff = gen_affine(rng)
        im = impls()[-1] if impls()[-1].Matrix44 is Matrix44 else impls()[0]
        M = matrix_of(im, aff)
        rv, tr = curve.reverse(), curve.transform(M)
        for t in rng.sample(ts[:9], 3):
            req = f"beznx|{rs(t)}|{vlist(pts)}|{rlist(aff)}"
            a, b = rv.point(float(t)), tr.point(float(t))
            C.add("X12 generic Bezier", req, "ok #:#:#;#:#:#", [a.x, a.y, a.z, b.x, b.y, b.z], twin="bezier.py")
        ctx.hist("X12 generic Bezier", f"n={n}")


def knot_vector_cases(ctx, C: "Cases"):
    """X13: open_uniform_knot_vector / uniform_knot_vector (the knots BSpline.__init__ builds when none are given)"""
    from ezdxf.math.bspline import open_uniform_knot_vector, uniform_knot_vector

    for count in range(2, 14):
        for order in range(2, min(count, 9) + 1):
            for norm in (True, False):
                for kind, fn in (("open", open_uniform_knot_vector), ("uniform", uniform_knot_vector)):
                    ks = fn(count, order, normalize=norm)
                    C.add("X13 knot vectors", f"kvec|{kind}|{count}|{order}|{int(norm)}", ",".join("#" * len(ks)), [float(k) for k in ks],
                          twin="bspline.py")


def elevate_bezier_cases(ctx, C: "Cases", tw):
    """X14: degree_elevation (A5.9) of splines that are ONE Bezier segment (count = order, clamped): control points and knots
    of the result, degrees 1..7, elevation by 1..4, both twins"""
    rng = ctx.rng("elev1")
    for i in range(ctx.n(120, 1500)):
        p = rng.randint(1, 7)
        t = rng.choice([1, 1, 2, 3, 4])
        if p + t + 1 > 11:  # MAX_SPLINE_ORDER of the C-extension (acc/constants.h); the Cython Basis rejects higher orders
            t = 1
        pts = [gen_point(rng, i % 3 == 0) for _ in range(p + 1)]
        ub = rng.choice([Fr(1), Fr(1), Fr(3), Fr(5, 2)])
        U = [Fr(0)] * (p + 1) + [ub] * (p + 1)
        req = f"elev1|{t}|0|{rs(ub)}|{vlist(pts)}"
        for im in tw:
            with use_twin(im):
                from ezdxf.math.bspline import BSpline

                s2 = BSpline([im.v3(c) for c in pts], p + 1, [float(k) for k in U]).degree_elevation(t)
                ks, cp = list(s2.knots()), list(s2.control_points)
                nums = [float(k) for k in ks]
                for q in cp:
                    nums += [q.x, q.y, q.z]
                C.add("X14 elevate Bezier", req, "ok " + ",".join("#" * len(ks)) + "|" + ",".join(["#:#:#"] * len(cp)), nums, twin=im.name)
        ctx.hist("X14 elevate Bezier", f"p={p}/t={t}")


def interpolation_setup_cases(ctx, C: "Cases"):
    """X16: the exact part of global interpolation: _normalize_distances (the distances are inputs), uniform_t_vector and
    averaged_knots_unconstrained"""
    from ezdxf.math.parametrize import _normalize_distances, uniform_t_vector
    from ezdxf.math.bspline import averaged_knots_unconstrained

    rng = ctx.rng("interp-setup")
    for i in range(ctx.n(200, 2000)):
        n = rng.randint(2, 12)
        ds = [Fr(rng.randint(1, 40), 8) for _ in range(n)]
        if i % 50 == 49:
            ds = [Fr(0)] * n
        tv = _normalize_distances([float(d) for d in ds])
        C.add("X16 interpolation setup", f"tvec|{rlist(ds)}", "ok " + ",".join("#" * len(tv)), [float(x) for x in tv], twin="parametrize.py")
        if not tv:
            continue
        tot = sum(ds)
        tex = [Fr(0)] + [sum(ds[:k + 1]) / tot for k in range(n - 1)] + [Fr(1)]
        for p in (1, 2, 3, 5):
            if p > n:
                continue
            ks = averaged_knots_unconstrained(n, p, [float(x) for x in tex])
            C.add("X16 interpolation setup", f"aknots|{n}|{p}|{rlist(tex)}", "ok " + ",".join("#" * len(ks)), [float(x) for x in ks], twin="bspline.py")


def split_bezier_cases(ctx, C: "Cases", tw):
    """X7: curvetools.split_bezier (de Casteljau, any degree) on Vec3 and Vec2 points of both twins"""
    from ezdxf.math.curvetools import split_bezier

    rng = ctx.rng("split-bezier")
    ts = [Fr(0), Fr(1), Fr(1, 2), Fr(1, 4), Fr(3, 4), Fr(3, 8), Fr(1, 64), Fr(63, 64), Fr(5, 16), Fr(-1, 4), Fr(5, 4)]
    for i in range(ctx.n(250, 3000)):
        n = 1 if i % 40 == 39 else rng.choice([2, 2, 3, 3, 4, 4, 4, 5, 6, 7, 8, 9, 12])
        flat = i % 3 == 0
        pts = [gen_point(rng, flat, i % 5 == 4) for _ in range(n)]
        for t in rng.sample(ts, 3):
            req = f"bsplit|{rs(t)}|{vlist(pts)}"
            for im in tw:
                vv = [im.Vec2(float(q[0]), float(q[1])) for q in pts] if flat and i % 2 == 0 else [im.v3(q) for q in pts]
                try:
                    left, right = split_bezier(vv, float(t))
                    nums = []
                    for q in list(left) + list(right):
                        nums += [q.x, q.y, q.z if len(q) > 2 else 0.0]
                    C.add("X7 split_bezier", req, "ok " + ",".join(["#:#:#"] * len(left)) + "|" + ",".join(["#:#:#"] * len(right)),
                          nums, nontrivial=0 < t < 1, twin=im.name)
                except ValueError as e:
                    C.add("X7 split_bezier", req, err_name(e), nontrivial=False, twin=im.name)
            ctx.hist("X7 split_bezier", f"n={n}")


def gen_affine(rng):
    """12 rationals: linear part (rows of Matrix44, row vector convention) + translation"""
    kind = rng.choice(["rot", "scale", "shear", "general", "mirror"])
    c, s = rng.choice([(Fr(3, 5), Fr(4, 5)), (Fr(5, 13), Fr(12, 13)), (Fr(0), Fr(1)), (Fr(-4, 5), Fr(3, 5))])
    if kind == "rot":
        lin = [c, s, 0, -s, c, 0, 0, 0, 1]
    elif kind == "scale":
        lin = [rng.choice([2, Fr(1, 2), 3]), 0, 0, 0, rng.choice([1, Fr(3, 2), 2]), 0, 0, 0, rng.choice([1, 4])]
    elif kind == "mirror":
        lin = [-1, 0, 0, 0, 1, 0, 0, 0, 1]
    elif kind == "shear":
        lin = [1, Fr(1, 2), 0, 0, 1, 0, Fr(1, 4), 0, 1]
    else:
        lin = [rng.choice(DY[24:41]) for _ in range(9)]
    tr = [rng.choice(DY), rng.choice(DY), rng.choice(DY)]
    return [Fr(x) for x in lin + tr]


def matrix_of(im: Impl, a):
    return im.Matrix44([float(a[0]), float(a[1]), float(a[2]), 0.0, float(a[3]), float(a[4]), float(a[5]), 0.0,
                        float(a[6]), float(a[7]), float(a[8]), 0.0, float(a[9]), float(a[10]), float(a[11]), 1.0])


def bezier_cases(ctx, C: Cases, tw):
    rng = ctx.rng("bezier")
    ts = [Fr(0), Fr(1), Fr(1, 2), Fr(1, 4), Fr(3, 4), Fr(1, 3), Fr(2, 3), Fr(1, 8), Fr(7, 8), Fr(1, 64), Fr(63, 64)]
    for i in range(ctx.n(300, 5000)):
        big = i % 5 == 4
        flat = i % 3 == 0
        for deg, tag in ((3, "bez4"), (2, "bez3")):
            pts = [gen_point(rng, flat, big) for _ in range(deg + 1)]
            aff = gen_affine(rng)
            for t in rng.sample(ts, 4) + [Fr(0), Fr(1)]:
                for im in tw:
                    cls = im.Bezier4P if deg == 3 else im.Bezier3P
                    if flat and i % 2 == 0:
                        curve = cls([im.Vec2(float(p[0]), float(p[1])) for p in pts])
                    else:
                        curve = cls([im.v3(p) for p in pts])
                    for kind, cv, mat in (("eval", curve, ""), ("rev", curve.reverse(), ""),
                                          ("tr", curve.transform(matrix_of(im, aff)), rlist(aff))):
                        req = f"{tag}|{im.name}|{kind}|{rs(t)}|{vlist(pts)}|{mat}"
                        a, na = fv(cv.point(float(t)))
                        b, nb = fv(cv.tangent(float(t)))
                        C.add("X3 bezier", req, a + ";" + b, na + nb, nontrivial=0 < t < 1 or kind != "eval", twin=im.name)
                        ctx.hist("X3 bezier", f"{tag}/{kind}")
    # out of range parameters raise ValueError in both twins (class behaviour, not part of the kernels)
    for im in tw:
        for cls, n in ((im.Bezier4P, 4), (im.Bezier3P, 3)):
            c = cls([im.v3((Fr(i), Fr(i * i), Fr(0))) for i in range(n)])
            for t in (-0.25, 1.25):
                for fn in (c.point, c.tangent):
                    try:
                        fn(t)
                        ctx.disagree("X3 bezier", f"{cls.__name__}.{fn.__name__}({t})", "no exception", "ValueError")
                    except ValueError:
                        pass


def bulge_cases(ctx, C: Cases):
    from ezdxf.math import bulge as BU

    rng = ctx.rng("bulge")
    bs = [Fr(1), Fr(-1), Fr(1, 2), Fr(-1, 2), Fr(2), Fr(-2), Fr(1, 4), Fr(-3), Fr(5), Fr(1, 16), Fr(-1, 16), Fr(3, 4), Fr(-7, 4)]
    for i in range(ctx.n(1000, 12000)):
        s = (rng.choice(DY), rng.choice(DY))
        e = (rng.choice(DY), rng.choice(DY))
        if s == e:
            continue
        b = rng.choice(bs)
        fs, fe = (float(s[0]), float(s[1])), (float(e[0]), float(e[1]))
        c = BU.bulge_center(fs, fe, float(b))
        r = BU.bulge_radius(fs, fe, float(b))
        c2, a0, a1, r2 = BU.bulge_to_arc(fs, fe, float(b))
        span = (a1 - a0) % math.tau
        mid = a0 + span / 2
        apex = (c2.x + r2 * math.cos(mid), c2.y + r2 * math.sin(mid))
        sr = BU.signed_bulge_radius((0, 0), (1, 0), float(b))
        req = f"bulge|{rs(s[0])}|{rs(s[1])}|{rs(e[0])}|{rs(e[1])}|{rs(b)}"
        C.add("X5 bulge", req, "#:#|#|#:#|#", [c.x, c.y, r * r, apex[0], apex[1], sr], twin="bulge.py")
        # bulge_to_arc must agree with bulge_center / bulge_radius
        if not (math.isclose(c.x, c2.x, rel_tol=1e-9, abs_tol=1e-9) and math.isclose(c.y, c2.y, rel_tol=1e-9, abs_tol=1e-9)
                and math.isclose(r, r2, rel_tol=1e-9)):
            ctx.disagree("X5 bulge", req, f"bulge_to_arc centre {c2} radius {r2}", f"bulge_center {c} radius {r}")
        ctx.hist("X5 bulge", "|b|>1" if abs(b) > 1 else ("|b|=1" if abs(b) == 1 else "|b|<1"))


# ====================================================================== oracle on the real code
def _info(kind, p, U, w):
    return f"{kind}/p={p}/U={rlist(U)}" + ("/rational" if w else "")


def _spline_replay(U, p, cps, w):
    return {"order": p + 1, "knots": [rs(k) for k in U], "cps": [vs(c) for c in cps], "weights": [rs(x) for x in w] if w else None}


def make_bspline(U, p, cps, w=None):
    from ezdxf.math import BSpline, Vec3

    return BSpline([Vec3(float(c[0]), float(c[1]), float(c[2])) for c in cps], p + 1, [float(k) for k in U],
                   [float(x) for x in w] if w else None)


def eval_checked(ctx, tag, stream, spline, ref: RefCurve, us, umap, post, replay, twin="default"):
    """sample spline.point(umap(u)) and compare with post(ref.point(u)); classify failures"""
    for u in us:
        uu = umap(u)
        ctx.count(stream, (tag, replay.get("id"), str(u)), True)
        try:
            import warnings

            with warnings.catch_warnings():
                warnings.simplefilter("ignore", RuntimeWarning)
                v = spline.point(float(uu))
            if any(math.isnan(c) for c in v):
                # numpy float64 knots (split, degree_elevation) turn 0/0 into NaN instead of ZeroDivisionError
                raise ZeroDivisionError("NaN result (0/0 on numpy.float64 knots)")
        except Exception as e:  # noqa
            Ue = [Fr(k) for k in spline.knots()]
            if isinstance(e, ZeroDivisionError) and is_f13(Ue, spline.degree, spline.count, Fr(float(uu))):
                ctx.fail(f"F13/{tag}/{twin}/U={rlist(Ue)}/u={rs(Fr(float(uu)))}",
                         f"{tag}: evaluation at the domain end u={float(uu)} of knots {list(spline.knots())} raises ZeroDivisionError (empty last span)",
                         dict(replay, op=tag, u=rs(u)))
            else:
                ctx.fail(f"surgery/{tag}/{type(e).__name__}/{replay.get('id')}/u={rs(u)}",
                         f"{tag}: point({float(uu)}) raised {type(e).__name__}: {e}", dict(replay, op=tag, u=rs(u)))
            continue
        ex = post(ref.point(u))
        scale = max(8.0, max(abs(float(c)) for c in ex))
        if not vclose(v, ex, scale):
            ctx.fail(f"surgery/{tag}/mismatch/{replay.get('id')}/u={rs(u)}",
                     f"{tag}: curve changed at u={float(u)}: got {tuple(v)} expected {[float(c) for c in ex]}",
                     dict(replay, op=tag, u=rs(u)))


def oracle_points(ctx):
    """O1: BSpline points and derivatives of both twins vs the exact textbook value"""
    rng = ctx.rng("o1")
    tw = impls(ctx)
    for idx, (kind, p, U, cps, w) in enumerate(spline_corpus(ctx, "o1-corpus", ctx.n(600, 7000))):
        count = len(cps)
        if not U[p] < U[count]:
            continue
        ref = RefCurve(U, p + 1, cps, w)
        rep = dict(_spline_replay(U, p, cps, w), id=f"o1-{idx}")
        ctx.hist("O1 points/derivatives", f"{kind}/p={p}" + ("/rational" if w else ""))
        for im in tw:
            ev = im.evaluator(U, p + 1, cps, w)
            for u in sample_params(rng, U, p, count, extra=2):
                nd = min(p, 3)
                ctx.count("O1 points/derivatives", (idx, im.name, str(u)), True)
                try:
                    pt = ev.point(float(u))
                    ds = ev.derivative(float(u), nd)
                except Exception as e:  # noqa
                    if isinstance(e, ZeroDivisionError) and is_f13(U, p, count, u):
                        ctx.fail(f"F13/point/{im.name}/U={rlist(U)}/u={rs(u)}",
                                 f"Evaluator.point({float(u)}) with knots {[float(k) for k in U]} order {p + 1} raises ZeroDivisionError "
                                 f"({im.name} twin): find_span returns the empty last span at the domain end", dict(rep, op="point", twin=im.name, u=rs(u)))
                    else:
                        ctx.fail(f"point/{im.name}/{type(e).__name__}/{_info(kind, p, U, w)}/u={rs(u)}",
                                 f"point/derivative({float(u)}) raised {type(e).__name__}: {e}", dict(rep, op="point", twin=im.name, u=rs(u)))
                    continue
                ex = ref.derivatives(u, nd)
                if not vclose(pt, ex[0], 8.0):
                    ctx.fail(f"point/{im.name}/mismatch/{_info(kind, p, U, w)}/u={rs(u)}",
                             f"point({float(u)}) = {tuple(pt)} but Cox-de Boor gives {[float(c) for c in ex[0]]}",
                             dict(rep, op="point", twin=im.name, u=rs(u)))
                for k, (a, b) in enumerate(zip(ds, ex)):
                    sc = max(8.0, max(abs(float(c)) for c in b))
                    if not vclose(a, b, sc):
                        ctx.fail(f"deriv/{im.name}/k={k}/{_info(kind, p, U, w)}/u={rs(u)}",
                                 f"derivative({float(u)})[{k}] = {tuple(a)} but the exact derivative is {[float(c) for c in b]}",
                                 dict(rep, op="deriv", twin=im.name, u=rs(u), k=k))
        # the BSpline front end (basis_vector, params/approximate) on the default twin
        sp = make_bspline(U, p, cps, w)
        try:
            pts = list(sp.approximate(4))
            lo, hi = U[p], U[count]
            for i, v in enumerate(pts):
                ex = ref.point(lo + (hi - lo) * Fr(i, 4))
                if not vclose(v, ex, 8.0):
                    ctx.fail(f"point/approximate/mismatch/{_info(kind, p, U, w)}/i={i}", f"approximate(4)[{i}] = {tuple(v)} expected {[float(c) for c in ex]}",
                             dict(rep, op="approximate"))
        except ZeroDivisionError:
            if is_f13(U, p, count, U[count]):
                ctx.fail(f"F13/approximate/default/U={rlist(U)}", f"BSpline.approximate() raises ZeroDivisionError for knots {[float(k) for k in U]}", dict(rep, op="approximate"))
            else:
                ctx.fail(f"point/approximate/ZeroDivisionError/{_info(kind, p, U, w)}", "approximate raised ZeroDivisionError", dict(rep, op="approximate"))


def oracle_surgery(ctx):
    """O2: the curve before and after insert_knot, knot_refinement, transform (any knot vector) and
    reverse, degree_elevation, split, bezier_decomposition (clamped)"""
    rng = ctx.rng("o2")
    tw = impls(ctx)
    n = ctx.n(500, 6000)
    for idx in range(n):
        clamped_only = idx % 2 == 0
        kind, p, U, cps, w = gen_spline(rng, kinds=["clamped-uniform", "clamped"] if clamped_only else KINDS)
        # scale invariance: the same control polygon over knots scaled by a power of two (exact in floats) is the same
        # geometry; with 2^-30 distinct interior knots are closer than 1e-9 to each other and to 0
        sc = rng.choice([Fr(1), Fr(1), Fr(1), Fr(1, 2 ** 10), Fr(1, 2 ** 30), Fr(2 ** 20)])
        U = [k * sc for k in U]
        if sc != 1:
            kind = kind + f"/knots*2^{sc.numerator.bit_length() - sc.denominator.bit_length()}"
        count = len(cps)
        if not U[p] < U[count]:
            continue
        im = tw[idx % len(tw)]
        ref = RefCurve(U, p + 1, cps, w)
        us = sample_params(rng, U, p, count, extra=2)
        rep = dict(_spline_replay(U, p, cps, w), id=f"o2-{idx}", twin=im.name)
        ident = lambda v: v
        same = lambda u: u
        lo, hi = U[p], U[count]
        ctx.hist("O2 surgery", f"{kind}/p={p}" + ("/rational" if w else ""))
        with use_twin(im):
            sp = make_bspline(U, p, cps, w)
            # insert_knot: a new value, and an existing interior knot whose multiplicity stays <= p
            cands = [lo + (hi - lo) * Fr(rng.randint(1, 31), 32)] + [k for k in dict.fromkeys(U) if lo < k < hi and U.count(k) < p][:2]
            for t in cands:
                try:
                    s2 = sp.insert_knot(float(t))
                except Exception as e:  # noqa
                    ctx.fail(f"surgery/insert_knot/{type(e).__name__}/{_info(kind, p, U, w)}/t={rs(t)}", f"insert_knot({float(t)}) raised {type(e).__name__}: {e}", dict(rep, op="insert_knot", t=rs(t)))
                    continue
                if s2.count != count + 1 or len(s2.knots()) != len(U) + 1:
                    ctx.fail(f"surgery/insert_knot/shape/{_info(kind, p, U, w)}/t={rs(t)}", "insert_knot: wrong control point / knot count", dict(rep, op="insert_knot", t=rs(t)))
                eval_checked(ctx, "insert_knot", "O2 surgery", s2, ref, us, same, ident, dict(rep, t=rs(t)), im.name)
            ts = sorted(lo + (hi - lo) * Fr(rng.randint(1, 31), 32) for _ in range(3))
            if p >= 3:
                ts[1] = ts[0]  # repeated new knot
            try:
                s2 = sp.knot_refinement([float(t) for t in ts])
                eval_checked(ctx, "knot_refinement", "O2 surgery", s2, ref, us, same, ident, dict(rep, t=[rs(t) for t in ts]), im.name)
            except Exception as e:  # noqa
                ctx.fail(f"surgery/knot_refinement/{type(e).__name__}/{_info(kind, p, U, w)}", f"knot_refinement({ts}) raised {type(e).__name__}: {e}", dict(rep, op="knot_refinement", t=[rs(t) for t in ts]))
            aff = gen_affine(rng)
            from ezdxf.math import Matrix44

            M = matrix_of(tw[-1], aff) if isinstance(tw[-1].Matrix44, type) and tw[-1].Matrix44 is Matrix44 else matrix_of(tw[0], aff)
            post = lambda v: (v[0] * aff[0] + v[1] * aff[3] + v[2] * aff[6] + aff[9], v[0] * aff[1] + v[1] * aff[4] + v[2] * aff[7] + aff[10],
                              v[0] * aff[2] + v[1] * aff[5] + v[2] * aff[8] + aff[11])
            try:
                s2 = sp.transform(M)
                eval_checked(ctx, "transform", "O2 surgery", s2, ref, us, same, post, dict(rep, m=[rs(a) for a in aff]), im.name)
            except Exception as e:  # noqa
                ctx.fail(f"surgery/transform/{type(e).__name__}/{_info(kind, p, U, w)}", f"transform raised {type(e).__name__}: {e}", dict(rep, op="transform"))
            if kind.startswith("clamped"):
                mx = U[-1]
                try:
                    s2 = sp.reverse()
                    eval_checked(ctx, "reverse", "O2 surgery", s2, ref, us, lambda u: 1 - u / mx, ident, rep, im.name)
                except Exception as e:  # noqa
                    ctx.fail(f"surgery/reverse/{type(e).__name__}/{_info(kind, p, U, w)}", f"reverse raised {type(e).__name__}: {e}", dict(rep, op="reverse"))
                for t in (1, 2) if p <= 5 else (1,):
                    try:
                        s2 = sp.degree_elevation(t)
                        if s2.degree != p + t or not s2.is_clamped:
                            ctx.fail(f"surgery/degree_elevation/shape/{_info(kind, p, U, w)}/t={t}", f"degree_elevation({t}): degree {s2.degree}, clamped {s2.is_clamped}", dict(rep, op="degree_elevation", t=t))
                        eval_checked(ctx, "degree_elevation", "O2 surgery", s2, ref, us, same, ident, dict(rep, t=t), im.name)
                    except Exception as e:  # noqa
                        ctx.fail(f"surgery/degree_elevation/{type(e).__name__}/{_info(kind, p, U, w)}/t={t}", f"degree_elevation({t}) raised {type(e).__name__}: {e}", dict(rep, op="degree_elevation", t=t))
                # split: inside a span, and exactly at an existing interior knot
                inner = [k for k in dict.fromkeys(U) if lo < k < hi]
                for t in [lo + (hi - lo) * Fr(rng.randint(1, 15), 16)] + inner[:1]:
                    try:
                        a, b = sp.split(float(t))
                    except Exception as e:  # noqa
                        ctx.fail(f"surgery/split/{type(e).__name__}/{_info(kind, p, U, w)}/t={rs(t)}", f"split({float(t)}) raised {type(e).__name__}: {e}", dict(rep, op="split", t=rs(t)))
                        continue
                    eval_checked(ctx, "split-first", "O2 surgery", a, ref, [u for u in us if u <= t] + [t], same, ident, dict(rep, t=rs(t)), im.name)
                    # the second half starts at t != 0: the constructor normalises its knots to [0, 1]
                    eval_checked(ctx, "split-second", "O2 surgery", b, ref, [u for u in us if u >= t] + [t], lambda u: (u - t) / (mx - t), ident, dict(rep, t=rs(t)), im.name)
                if not w:
                    try:
                        segs = [list(s) for s in sp.bezier_decomposition()]
                        ks = sorted(set(U))
                        if len(segs) != len(ks) - 1 or any(len(s) != p + 1 for s in segs):
                            ctx.fail(f"surgery/bezier_decomposition/shape/{_info(kind, p, U, w)}", f"{len(segs)} segments for {len(ks) - 1} knot spans", dict(rep, op="bezier_decomposition"))
                        for seg, (a, b) in zip(segs, zip(ks, ks[1:])):
                            for tt in (Fr(0), Fr(1, 3), Fr(3, 4), Fr(1)):
                                u = a + (b - a) * tt
                                pt = bernstein_point([(Fr(q.x), Fr(q.y), Fr(q.z)) for q in seg], tt)
                                ex = ref.point(u, span=ref_span(U, p, count, a))
                                ctx.count("O2 surgery", ("decomp", idx, str(u)), True)
                                if not vclose([float(c) for c in pt], ex, 8.0):
                                    ctx.fail(f"surgery/bezier_decomposition/mismatch/{_info(kind, p, U, w)}/u={rs(u)}",
                                             f"Bezier segment over [{a},{b}] at {tt}: {[float(c) for c in pt]} expected {[float(c) for c in ex]}", dict(rep, op="bezier_decomposition"))
                    except Exception as e:  # noqa
                        ctx.fail(f"surgery/bezier_decomposition/{type(e).__name__}/{_info(kind, p, U, w)}", f"bezier_decomposition raised {type(e).__name__}: {e}", dict(rep, op="bezier_decomposition"))
    # a knot vector that does not start at 0 is rescaled by the constructor: same curve, parameter (u - U0)/(Un - U0)
    for idx in range(ctx.n(60, 600)):
        kind, p, U, cps, w = gen_spline(rng)
        if not U[p] < U[len(cps)]:
            continue
        sh = Fr(rng.randint(1, 9), 2)
        ref = RefCurve(U, p + 1, cps, w)
        sp = make_bspline([k + sh for k in U], p, cps, w)
        rep = dict(_spline_replay([k + sh for k in U], p, cps, w), id=f"o2-shift-{idx}")
        # parameters are taken from the spline's own (rounded) knots so that no sample falls 1 ulp outside the domain
        Uf = [Fr(k) for k in sp.knots()]
        ufs = sample_params(rng, Uf, p, len(cps), 1)
        back = {uf * U[-1]: uf for uf in ufs}
        eval_checked(ctx, "shifted-knots", "O2 surgery", sp, ref, list(back), lambda u: back[u], lambda v: v, rep)


def _fit_points(rng, n, flat):
    from ezdxf.math import Vec3

    pts = []
    while len(pts) < n:
        q = Vec3(rng.randint(-20, 20) / 2, rng.randint(-20, 20) / 2, 0 if flat else rng.randint(-6, 6) / 2)
        # pairwise distinct fit points: a path that returns exactly to an earlier point (A, B, A) has no
        # defined finite-difference tangent at B and is outside the property's quantifier
        if all(q.distance(o) > 0.9 for o in pts):
            pts.append(q)
    return pts


def oracle_interpolation(ctx):
    """O3: interpolation passes through all fit points with the requested end tangents"""
    from ezdxf.math import (Vec3, global_bspline_interpolation, local_cubic_bspline_interpolation, fit_points_to_cad_cv,
                            fit_points_to_cubic_bezier)
    from ezdxf.math.parametrize import create_t_vector

    rng = ctx.rng("o3")
    TOL = 1e-6

    def on_knots(s, q):
        return min(s.point(k).distance(q) for k in set(s.knots())) < TOL * 10

    cases = []
    for i in range(ctx.n(400, 4000)):
        cases.append(_fit_points(rng, rng.randint(3, 12), i % 2 == 0))
    # straight runs (collinear fit points) are ordinary CAD input
    cases.append([Vec3(x, 0, 0) for x in range(5)])
    cases.append([Vec3(*p) for p in [(0, 0), (1, 0), (2, 0), (3, 1), (4, 3), (5, 3), (6, 3), (7, 3)]])
    cases.append([Vec3(*p) for p in [(0, 0), (2, 2), (4, 4), (6, 5), (8, 5), (10, 5), (12, 5)]])
    cases.append([Vec3(*p) for p in [(-7, 9), (-3.5, 6), (7, -3), (-5, -4)]])  # straight start run, spacing ratio 3
    cases.append([Vec3(*p) for p in [(0, 0), (3, 1), (4, 3), (5, 3), (8, 3)]])  # straight end run, spacing ratio 3
    # adversarial shapes: direction reversals (zig-zag, hair-pins), very unequal spacing, a spiral
    cases.append([Vec3(*p) for p in [(0, 0), (10, 0), (9, 0.5), (20, 1)]])
    cases.append([Vec3(*p) for p in [(0, 0), (10, 0), (9, 0.5), (20, 1), (19, 1.5), (30, 2), (29, 3)]])
    cases.append([Vec3(*p) for p in [(0, 0), (5, 0.1), (0.5, 0.2), (5, 0.3), (0.5, 0.4), (5, 0.5)]])
    cases.append([Vec3(*p) for p in [(0, 0), (1, 0), (1, 1), (0, 1), (0, 0.1), (0.9, 0.1), (0.9, 0.9), (0.1, 0.9)]])
    cases.append([Vec3(*p) for p in [(0, 0), (0.01, 0), (10, 0.5), (10.01, 0.5), (20, -3), (20.5, 8)]])
    cases.append([Vec3(math.cos(k * 0.9) * (1 + 0.3 * k), math.sin(k * 0.9) * (1 + 0.3 * k), 0.2 * k) for k in range(12)])
    for _ in range(ctx.n(30, 300)):  # random zig-zags: x alternates forwards / backwards
        x, pts = 0.0, []
        for k in range(rng.randint(4, 9)):
            x += rng.choice([6, 9, 11]) if k % 2 == 0 else -rng.choice([0.5, 1, 2])
            pts.append(Vec3(x, 0.5 * k + rng.randint(0, 3) / 4, 0))
        cases.append(pts)
    for ci, pts in enumerate(cases):
        n = len(pts)
        rep = {"id": f"o3-{ci}", "fit_points": [[p.x, p.y, p.z] for p in pts]}
        for deg in (2, 3, 4, 5):
            if n < deg + 1:
                continue
            method = rng.choice(["chord", "uniform", "centripetal", "distance", "sqrt_chord"])
            tv = list(create_t_vector(pts, method))
            for tang in (None, [Vec3(rng.randint(-4, 4) or 1, rng.randint(-4, 4), 0), Vec3(rng.randint(-4, 4), rng.randint(-4, 4) or 2, 0)]):
                name = "global-end-tangents" if tang else "global"
                ctx.count("O3 interpolation", (name, ci, deg, method), True)
                keyp = f"interp/global-deg2-end-tangents" if (tang and deg == 2) else f"interp/{name}"
                r2 = dict(rep, op=name, degree=deg, method=method, tangents=[[t.x, t.y, t.z] for t in tang] if tang else None)
                try:
                    s = global_bspline_interpolation(pts, deg, tangents=tang, method=method)
                except Exception as e:  # noqa
                    ctx.fail(f"{keyp}/{type(e).__name__}/n={n}/deg={deg}/{method}/{ci}", f"global_bspline_interpolation(degree={deg}, {n} fit points, tangents={bool(tang)}, {method}) raised {type(e).__name__}: {e}", r2)
                    continue
                miss = max(s.point(t * s.max_t).distance(q) for t, q in zip(tv, pts))
                if miss > TOL * 10:
                    ctx.fail(f"{keyp}/miss/n={n}/deg={deg}/{method}/{ci}", f"curve misses a fit point by {miss}", r2)
                if tang:
                    d0, d1 = s.derivative(0, 1)[1], s.derivative(s.max_t, 1)[1]
                    if d0.distance(tang[0]) > TOL * 10 or d1.distance(tang[1]) > TOL * 10:
                        ctx.fail(f"{keyp}/tangent/n={n}/deg={deg}/{method}/{ci}", f"end derivatives {d0}, {d1} differ from the requested {tang[0]}, {tang[1]}", r2)
            # one tangent per fit point
            tg = [Vec3(rng.randint(-3, 3) or 1, rng.randint(-3, 3), 0) for _ in pts]
            if deg <= 4:
                ctx.count("O3 interpolation", ("global-all-tangents", ci, deg), True)
                r2 = dict(rep, op="global-all-tangents", degree=deg, tangents=[[t.x, t.y, t.z] for t in tg])
                try:
                    s = global_bspline_interpolation(pts, deg, tangents=tg)
                    tv2 = list(create_t_vector(pts, "chord"))
                    if max(s.point(t).distance(q) for t, q in zip(tv2, pts)) > TOL * 10 or max(s.derivative(t, 1)[1].distance(g) for t, g in zip(tv2, tg)) > TOL * 100:
                        ctx.fail(f"interp/global-all-tangents/miss/n={n}/deg={deg}/{ci}", "curve misses a fit point or a requested derivative", r2)
                except Exception as e:  # noqa
                    ctx.fail(f"interp/global-all-tangents/{type(e).__name__}/n={n}/deg={deg}/{ci}", f"raised {type(e).__name__}: {e}", r2)
        for method in ("3-points", "5-points", "bezier", "diff"):
            ctx.count("O3 interpolation", ("local", ci, method), True)
            r2 = dict(rep, op="local", method=method)
            try:
                s = local_cubic_bspline_interpolation(pts, method=method)
                if not all(on_knots(s, q) for q in pts):
                    ctx.fail(f"interp/local/{method}/miss/n={n}/{ci}", "local cubic interpolation misses a fit point", r2)
            except Exception as e:  # noqa
                key = f"interp/local/{method}/{type(e).__name__}/n={n}/{ci}"
                if method == "5-points" and isinstance(e, ZeroDivisionError):
                    from ezdxf.math.parametrize import tangents_5_point_interpolation

                    q = [b - a for a, b in zip(pts, pts[1:])]
                    if any(q[i].cross(q[i + 1]).magnitude == 0 for i in range(len(q) - 1)):
                        try:
                            raw = tangents_5_point_interpolation(list(pts), normalize=False)
                            if any(v.is_null for v in raw):
                                # residual of C13-3: blended tangent is the null vector (collinear run, unequal spacing)
                                key = f"interp/local-5-points-zero-tangent/n={n}/{ci}"
                        except ZeroDivisionError:
                            key = f"interp/local-5-points-collinear/n={n}/{ci}"  # regression of fix 52828bf44
                ctx.fail(key, f"local_cubic_bspline_interpolation({n} fit points, method={method!r}) raised {type(e).__name__}: {e}", r2)
        tv = list(create_t_vector(pts, "chord"))
        for tang in (None, [Vec3(1, 2, 0), Vec3(-1, 1, 0)]):
            ctx.count("O3 interpolation", ("cad_cv", ci, bool(tang)), True)
            r2 = dict(rep, op="cad_cv", tangents=bool(tang))
            try:
                s = fit_points_to_cad_cv(pts, tangents=tang)
                miss = max(s.point(t).distance(q) for t, q in zip(tv, pts))
                if miss > TOL * 10:
                    ctx.fail(f"interp/cad_cv/miss/n={n}/{ci}", f"fit_points_to_cad_cv misses a fit point by {miss}", r2)
                if tang:
                    a, b = s.derivative(0, 1)[1], s.derivative(1, 1)[1]
                    if a.normalize().distance(tang[0].normalize()) > TOL or b.normalize().distance(tang[1].normalize()) > TOL:
                        ctx.fail(f"interp/cad_cv/tangent/n={n}/{ci}", "end tangent direction differs from the requested one", r2)
                else:
                    if s.derivative(0, 2)[2].magnitude > TOL * 100 or s.derivative(1, 2)[2].magnitude > TOL * 100:
                        ctx.fail(f"interp/cad_cv/natural-end/n={n}/{ci}", "second derivative at the ends is not zero", r2)
            except Exception as e:  # noqa
                ctx.fail(f"interp/cad_cv/{type(e).__name__}/n={n}/{ci}", f"fit_points_to_cad_cv raised {type(e).__name__}: {e}", r2)
        ctx.count("O3 interpolation", ("cubic_bezier", ci), True)
        try:
            s = fit_points_to_cubic_bezier(pts)
            if not all(on_knots(s, q) for q in pts):
                ctx.fail(f"interp/cubic_bezier/miss/n={n}/{ci}", "fit_points_to_cubic_bezier misses a fit point", dict(rep, op="cubic_bezier"))
        except Exception as e:  # noqa
            ctx.fail(f"interp/cubic_bezier/{type(e).__name__}/n={n}/{ci}", f"raised {type(e).__name__}: {e}", dict(rep, op="cubic_bezier"))


def oracle_conics(ctx):
    """O4: rational B-splines built from arcs and ellipses lie on them; O5: conversions are mutually inverse"""
    from ezdxf.math import (Vec3, Vec2, rational_bspline_from_arc, rational_bspline_from_ellipse, ConstructionEllipse,
                            bulge_to_arc, arc_to_bulge, bulge_3_points, arc_angle_span_deg, BSpline, ConstructionArc)
    from ezdxf.math.ellipse import angle_to_param, param_to_angle, rytz_axis_construction
    from ezdxf.math.bulge import bulge_from_arc_angle, bulge_from_radius_and_chord

    rng = ctx.rng("o4")
    angles = [0, 30, 45, 90, 135, 180, 225, 270, 315, 360, -90, 450, 12.5, 359.999, 0.001, 720, 179.999, 180.001]
    for a0 in angles:
        for a1 in angles:
            for seg in (1, 2, 5) if ctx.quick else (1, 2, 3, 5, 8):
                c = Vec3(rng.randint(-5, 5), rng.randint(-5, 5), 0)
                r = rng.choice([0.5, 1, 3, 10, 1000])
                ctx.count("O4 conics", ("arc", a0, a1, seg), True)
                rep = {"op": "arc", "center": [c.x, c.y], "radius": r, "start": a0, "end": a1, "segments": seg}
                try:
                    s = rational_bspline_from_arc(c, r, a0, a1, segments=seg)
                    span = arc_angle_span_deg(a0, a1)
                    dev = max(abs(s.point(s.max_t * i / 16).distance(c) - r) for i in range(17))
                    e0, e1 = c + Vec3.from_deg_angle(a0, r), c + Vec3.from_deg_angle(a0 + span, r)
                    if dev > 1e-9 * max(1, r) or s.point(0).distance(e0) > 1e-8 * max(1, r) or s.point(s.max_t).distance(e1) > 1e-8 * max(1, r):
                        ctx.fail(f"conic/arc/off/{a0}/{a1}/{seg}", f"rational_bspline_from_arc({a0},{a1},segments={seg}) leaves the circle by {dev}", rep)
                    # angular position stays inside the arc and is monotone
                    if span > 0:
                        prev = -1e-9
                        for i in range(1, 16):
                            ang = ((s.point(s.max_t * i / 16) - c).angle_deg - a0) % 360
                            if ang < prev - 1e-6 or ang > span + 1e-6:
                                ctx.fail(f"conic/arc/range/{a0}/{a1}/{seg}", f"sample {i} at angle {ang} outside the span {span} or not monotone", rep)
                                break
                            prev = ang
                except Exception as e:  # noqa
                    ctx.fail(f"conic/arc/{type(e).__name__}/{a0}/{a1}/{seg}", f"rational_bspline_from_arc raised {type(e).__name__}: {e}", rep)
    params = [0, math.pi / 6, math.pi / 2, math.pi, 3 * math.pi / 2, math.tau, 1.0, 5.5, -1.0, 7.0]
    for p0 in params:
        for p1 in params:
            for ratio in (1.0, 0.5, 0.1, 1e-3):
                for seg in (1, 3):
                    c = Vec3(rng.randint(-5, 5), rng.randint(-5, 5), rng.randint(-2, 2))
                    # the plane normal: unit, NON-UNIT and tilted extrusion vectors (any non-null vector is legal); the major
                    # axis is taken perpendicular to it
                    ext = Vec3(rng.choice(EXTRUSIONS))
                    if ext.x == 0 and ext.y == 0:
                        major = Vec3(rng.choice([1, 3, -2]), rng.choice([0, 2, -1]), 0)
                    else:
                        major = ext.cross(Vec3(rng.choice([(0, 0, 1), (1, 0, 0), (0, 1, 2)]))).normalize(rng.choice([1, 3, 2.5]))
                    ctx.count("O4 conics", ("ellipse", p0, p1, ratio, seg), True)
                    rep = {"op": "ellipse", "center": list(c), "major": list(major), "ext": list(ext), "ratio": ratio, "p0": p0, "p1": p1, "segments": seg}
                    try:
                        e = ConstructionEllipse(c, major, ext, ratio, p0, p1)
                        s = rational_bspline_from_ellipse(e, segments=seg)
                        a = major.magnitude
                        # textbook frame, independent of the stored minor axis: uz unit normal, uy = uz x ux
                        ux, uz = major.normalize(), ext.normalize()
                        uy = uz.cross(ux)
                        dev = 0.0
                        for i in range(17):
                            q = s.point(s.max_t * i / 16) - c
                            dev = max(dev, abs((q.dot(ux) / a) ** 2 + (q.dot(uy) / (a * ratio)) ** 2 - 1), abs(q.dot(uz)) / a)
                        e0 = c + ux * (a * math.cos(p0)) + uy * (a * ratio * math.sin(p0))
                        e1 = c + ux * (a * math.cos(p1)) + uy * (a * ratio * math.sin(p1))
                        if dev > 1e-9 or s.point(0).distance(e.start_point) > 1e-8 * a or s.point(s.max_t).distance(e.end_point) > 1e-8 * a \
                                or e.start_point.distance(e0) > 1e-8 * a or e.end_point.distance(e1) > 1e-8 * a:
                            ctx.fail(f"conic/ellipse/off/{p0:.3f}/{p1:.3f}/{ratio}/{seg}", f"rational_bspline_from_ellipse leaves the ellipse by {dev} (extrusion {tuple(ext)})", rep)
                    except Exception as ex:  # noqa
                        ctx.fail(f"conic/ellipse/{type(ex).__name__}/{p0:.3f}/{p1:.3f}/{ratio}/{seg}", f"raised {type(ex).__name__}: {ex}", rep)
    # circular arcs given in an OCS with a non-unit / tilted extrusion: ConstructionEllipse.from_arc -> NURBS on the circle
    from ezdxf.math import OCS, cubic_bezier_from_ellipse

    for i in range(ctx.n(120, 1200)):
        ext = Vec3(rng.choice(EXTRUSIONS))
        r = rng.choice([0.5, 1, 3, 10])
        cen = Vec3(rng.randint(-5, 5), rng.randint(-5, 5), rng.randint(-2, 2))
        a0, a1 = rng.choice(angles), rng.choice(angles)
        ctx.count("O4 conics", ("from_arc", i), True)
        rep = {"op": "from_arc", "center": list(cen), "radius": r, "ext": list(ext), "start": a0, "end": a1}
        try:
            e = ConstructionEllipse.from_arc(cen, r, ext, a0, a1)
            wc, uz = OCS(ext).to_wcs(cen), ext.normalize()
            pts = [rational_bspline_from_ellipse(e, segments=rng.choice([1, 4])).point(t) for t in (0.0,)]
            sp = rational_bspline_from_ellipse(e, segments=rng.choice([1, 4]))
            pts = [sp.point(sp.max_t * k / 12) for k in range(13)]
            dev = max(max(abs(q.distance(wc) - r), abs((q - wc).dot(uz))) for q in pts)
            if dev > 1e-9 * max(1, r) or abs(e.minor_axis.magnitude - r) > 1e-9 * r:
                ctx.fail(f"conic/from_arc/off/{i}", f"ConstructionEllipse.from_arc(radius={r}, extrusion={tuple(ext)}): the NURBS leaves the circle by {dev}, |minor_axis| = {e.minor_axis.magnitude}", rep)
            if abs(e.param_span) > 1e-6:
                bd = max(abs(c4.point(t).distance(wc) - r) for c4 in cubic_bezier_from_ellipse(e, segments=4) for t in (0.0, 0.3, 0.5, 1.0))
                if bd > 2e-3 * r:  # the cubic approximation of a quarter circle is good to 0.03 %
                    ctx.fail(f"conic/from_arc/bezier/{i}", f"cubic_bezier_from_ellipse(from_arc radius={r}, extrusion={tuple(ext)}) leaves the circle by {bd}", rep)
        except Exception as ex:  # noqa
            ctx.fail(f"conic/from_arc/{type(ex).__name__}/{i}", f"raised {type(ex).__name__}: {ex}", rep)
    # ---- O5 round trips
    def angdiff(a, b):
        return abs((a - b + math.pi) % math.tau - math.pi)

    for ratio in (1.0, 0.5, 0.1, 1e-3, 0.75):
        for i in range(-40, 80):
            a = i * math.pi / 20 + 0.01 * (i % 3)
            ctx.count("O5 round trips", ("angle-param", ratio, i), True)
            if angdiff(param_to_angle(ratio, angle_to_param(ratio, a)), a) > 1e-9 or angdiff(angle_to_param(ratio, param_to_angle(ratio, a)), a) > 1e-9:
                ctx.fail(f"roundtrip/angle-param/{ratio}/{i}", f"angle_to_param/param_to_angle are not inverse at {a} ratio {ratio}", {"op": "angle-param", "ratio": ratio, "a": a})
    # arc constructors over the full angle range (both orientations, enclosing angles beyond 180 degrees): the arc passes
    # through the given points AND encloses the requested angle / has the requested radius with the centre on the stated side
    for i in range(ctx.n(600, 6000)):
        sp = Vec2(rng.randint(-20, 20) / 2, rng.randint(-20, 20) / 2)
        ep = Vec2(rng.randint(-20, 20) / 2, rng.randint(-20, 20) / 2)
        if sp.distance(ep) < 0.4:
            continue
        ccw = rng.random() < 0.5
        s_, e_ = (sp, ep) if ccw else (ep, sp)  # the documented meaning of ccw=False: start and end are swapped
        d = sp.distance(ep)
        ctx.count("O5 round trips", ("arc-constructors", i), True)
        ang = rng.choice([10, 45, 90, 135, 179, 180, 181, 225, 270, 300, 350, 359, 0.5, 123.456])
        rep = {"op": "arc-2p-angle", "s": list(sp), "e": list(ep), "angle": ang, "ccw": ccw}
        try:
            arc = ConstructionArc.from_2p_angle(sp, ep, ang, ccw)
            tol = 1e-8 * max(1.0, arc.radius)
            if arc.start_point.distance(s_) > tol or arc.end_point.distance(e_) > tol or abs(arc.angle_span - ang) > 1e-7:
                ctx.fail(f"roundtrip/arc/from_2p_angle/{ang}/{int(ccw)}/{i}", f"from_2p_angle({tuple(sp)}, {tuple(ep)}, {ang}, ccw={ccw}): start {tuple(arc.start_point)}, end {tuple(arc.end_point)}, enclosed angle {arc.angle_span}", rep)
        except Exception as ex:  # noqa
            ctx.fail(f"roundtrip/arc/from_2p_angle/{type(ex).__name__}/{i}", f"raised {type(ex).__name__}: {ex}", rep)
        rad = d / 2 * rng.choice([1.0, 1.01, 1.5, 3, 20])
        left = rng.random() < 0.5
        rep = {"op": "arc-2p-radius", "s": list(sp), "e": list(ep), "radius": rad, "ccw": ccw, "left": left}
        try:
            arc = ConstructionArc.from_2p_radius(sp, ep, rad, ccw, left)
            tol = 1e-7 * max(1.0, rad)
            side = (e_ - s_).det(Vec2(arc.center) - s_)
            ok = arc.start_point.distance(s_) <= tol and arc.end_point.distance(e_) <= tol and abs(arc.radius - rad) <= 1e-12 * rad
            if rad > d / 2 * 1.001:
                ok = ok and (side > 0) == left and (arc.angle_span < 180) == left
            if not ok:
                ctx.fail(f"roundtrip/arc/from_2p_radius/{int(ccw)}/{int(left)}/{i}", f"from_2p_radius({tuple(sp)}, {tuple(ep)}, {rad}, ccw={ccw}, center_is_left={left}): centre {tuple(arc.center)}, span {arc.angle_span}", rep)
        except Exception as ex:  # noqa
            ctx.fail(f"roundtrip/arc/from_2p_radius/{type(ex).__name__}/{i}", f"raised {type(ex).__name__}: {ex}", rep)
        # three points: the defining point is taken ON a known circle, on the counter clockwise way from start to end
        cen = Vec2(rng.randint(-10, 10) / 2, rng.randint(-10, 10) / 2)
        r3 = rng.choice([0.5, 2, 7.5])
        a0 = rng.random() * 360
        span = rng.choice([20, 90, 179, 181, 270, 340])
        q0, q1, qm = (cen + Vec2.from_deg_angle(a0, r3), cen + Vec2.from_deg_angle(a0 + span, r3), cen + Vec2.from_deg_angle(a0 + span * rng.choice([0.2, 0.5, 0.9]), r3))
        rep = {"op": "arc-3p", "center": list(cen), "radius": r3, "a0": a0, "span": span}
        try:
            arc = ConstructionArc.from_3p(q0, q1, qm)
            tol = 1e-6 * max(1.0, r3)
            if Vec2(arc.center).distance(cen) > tol or abs(arc.radius - r3) > tol or arc.start_point.distance(q0) > tol \
                    or arc.end_point.distance(q1) > tol or abs(arc.angle_span - span) > 1e-5:
                ctx.fail(f"roundtrip/arc/from_3p/{span}/{i}", f"from_3p: centre {tuple(arc.center)} radius {arc.radius} span {arc.angle_span}, expected {tuple(cen)}, {r3}, {span}", rep)
        except Exception as ex:  # noqa
            ctx.fail(f"roundtrip/arc/from_3p/{type(ex).__name__}/{i}", f"raised {type(ex).__name__}: {ex}", rep)
    # ellipse-axis conversions: minor_axis(), swap_axis() (an involution that keeps the point set), dxfattribs() for ratio > 1
    import copy
    from ezdxf.math.ellipse import minor_axis as minor_axis_fn

    for i in range(ctx.n(400, 4000)):
        ext = Vec3(rng.choice(EXTRUSIONS))
        if ext.x == 0 and ext.y == 0:
            major = Vec3(rng.choice([1, 3, -2, 0.5]), rng.choice([0, 2, -1]), 0)
        else:
            major = ext.cross(Vec3(rng.choice([(0, 0, 1), (1, 0, 0), (0, 1, 2)]))).normalize(rng.choice([1, 3, 2.5]))
        ratio = rng.choice([1.0, 0.5, 0.1, 0.75, 2.0, 4.0])
        p0, p1 = rng.choice(params), rng.choice(params)
        cen = Vec3(rng.randint(-5, 5), rng.randint(-5, 5), rng.randint(-2, 2))
        ctx.count("O5 round trips", ("ellipse-axis", i), True)
        rep = {"op": "ellipse-axis", "center": list(cen), "major": list(major), "ext": list(ext), "ratio": ratio, "p0": p0, "p1": p1}
        try:
            a = major.magnitude
            mn = minor_axis_fn(major, ext, ratio)
            uz = ext.normalize()
            want = uz.cross(major.normalize()) * (a * ratio)
            if mn.distance(want) > 1e-9 * a * max(1, ratio):
                ctx.fail(f"roundtrip/ellipse-axis/minor/{i}", f"minor_axis(major={tuple(major)}, extrusion={tuple(ext)}, ratio={ratio}) = {tuple(mn)}, expected {tuple(want)}", rep)
                continue
            e = ConstructionEllipse(cen, major, ext, ratio, p0, p1)
            e2 = copy.copy(e)
            e2.swap_axis()
            tol = 1e-8 * a * max(1, ratio)
            ux0 = major.normalize()
            uy0 = uz.cross(ux0)

            def on_curve(q):  # textbook ellipse: centre, major axis, unit normal, ratio
                d = q - cen
                return abs((d.dot(ux0) / a) ** 2 + (d.dot(uy0) / (a * ratio)) ** 2 - 1) < 1e-7 and abs(d.dot(uz)) < tol

            # a full ellipse keeps its parameters (documented special case): the start point moves ALONG the same curve
            full = math.isclose(e.start_param, 0) and math.isclose(e.end_param, math.tau)
            same_ends = (on_curve(e2.start_point) and on_curve(e2.end_point)) if full else \
                (e2.start_point.distance(e.start_point) <= tol and e2.end_point.distance(e.end_point) <= tol)
            if e2.major_axis.distance(e.minor_axis) > tol or abs(e2.ratio * e.ratio - 1) > 1e-9 or not same_ends:
                ctx.fail(f"roundtrip/ellipse-axis/swap/{i}", "swap_axis() changed the ellipse (axis, ratio or end points)", rep)
                continue
            e2.swap_axis()
            # twice: the same ellipse up to the orientation of the axis (major axis turned by 180 degrees, parameters by pi)
            same_ends = (on_curve(e2.start_point) and on_curve(e2.end_point)) if full else \
                (e2.start_point.distance(e.start_point) <= tol and e2.end_point.distance(e.end_point) <= tol)
            if abs(e2.major_axis.magnitude - a) > tol or abs(e2.ratio - e.ratio) > 1e-9 or not same_ends \
                    or abs(e2.minor_axis.magnitude - a * ratio) > tol:
                ctx.fail(f"roundtrip/ellipse-axis/swap-twice/{i}", f"swap_axis() twice is not the identity: |major| {a} -> {e2.major_axis.magnitude}, ratio {e.ratio} -> {e2.ratio}", rep)
                continue
            attr = e.dxfattribs()
            e3 = ConstructionEllipse(attr["center"], attr["major_axis"], attr["extrusion"], attr["ratio"], attr["start_param"], attr["end_param"])
            same_ends = (on_curve(e3.start_point) and on_curve(e3.end_point)) if full else \
                (e3.start_point.distance(e.start_point) <= tol and e3.end_point.distance(e.end_point) <= tol)
            if attr["ratio"] > 1 + 1e-12 or not same_ends \
                    or abs(Vec3(attr["major_axis"]).magnitude * attr["ratio"] - min(a, a * ratio)) > tol:
                ctx.fail(f"roundtrip/ellipse-axis/dxfattribs/{i}", "dxfattribs() does not describe the same ellipse with ratio <= 1", rep)
        except Exception as ex:  # noqa
            ctx.fail(f"roundtrip/ellipse-axis/{type(ex).__name__}/{i}", f"raised {type(ex).__name__}: {ex}", rep)
    bs = [1, -1, 0.5, -0.5, 2, -2, 0.25, -3, 5, 0.0625, -0.0625, 10, -0.01, 1e-4, -40]
    for i in range(ctx.n(1500, 15000)):
        s = Vec2(rng.randint(-20, 20) / 4, rng.randint(-20, 20) / 4)
        e = Vec2(rng.randint(-20, 20) / 4, rng.randint(-20, 20) / 4)
        if s.distance(e) < 0.2:
            continue
        b = rng.choice(bs)
        ctx.count("O5 round trips", ("bulge", i), True)
        rep = {"op": "bulge", "s": list(s), "e": list(e), "b": b}
        try:
            c, a0, a1, r = bulge_to_arc(s, e, b)
            s2, e2, b2 = arc_to_bulge(c, a0, a1, r)
            if b < 0:  # documented: the returned arc is counter clockwise, start and end swapped
                s2, e2, b2 = e2, s2, -b2
            tol = 1e-9 * max(1.0, r)
            span = (a1 - a0) % math.tau
            apex = c + Vec2.from_angle(a0 + span / 2, r)
            ok = s2.distance(s) <= tol and e2.distance(e) <= tol and abs(b2 - b) <= 1e-9 * max(1, abs(b)) * 10
            ok = ok and abs(bulge_3_points(s, e, apex) - b) <= 1e-8 * max(1, abs(b))
            ok = ok and abs(bulge_from_arc_angle(span) - abs(b)) <= 1e-8 * max(1, abs(b))
            if abs(b) <= 1:
                ok = ok and abs(bulge_from_radius_and_chord(r, s.distance(e)) - abs(b)) <= 1e-6
            if not ok:
                ctx.fail(f"roundtrip/bulge/{b}/{i}", f"bulge {b} from {s} to {e}: arc/bulge conversions are not inverse", rep)
        except Exception as ex:  # noqa
            ctx.fail(f"roundtrip/bulge/{type(ex).__name__}/{b}/{i}", f"raised {type(ex).__name__}: {ex}", rep)
    for i in range(ctx.n(300, 3000)):
        a = rng.choice([1, 2, 5])
        ratio = rng.choice([0.9, 0.5, 0.1])
        rot, t = rng.random() * math.tau, rng.random() * math.tau
        ux, uy = Vec3.from_angle(rot), Vec3.from_angle(rot + math.pi / 2)
        d1 = ux * (a * math.cos(t)) + uy * (a * ratio * math.sin(t))
        d2 = ux * (-a * math.sin(t)) + uy * (a * ratio * math.cos(t))
        ctx.count("O5 round trips", ("rytz", i), True)
        if min(abs(math.sin(t)), abs(math.cos(t))) < 1e-3:
            continue
        try:
            mj, mn, rr = rytz_axis_construction(d1, d2)
            if abs(mj.magnitude - a) > 1e-6 or abs(rr - ratio) > 1e-6 or abs(abs(mj.normalize().dot(ux)) - 1) > 1e-6 or abs(mj.dot(mn)) > 1e-6:
                ctx.fail(f"roundtrip/rytz/{a}/{ratio}/{i}", f"rytz_axis_construction does not recover the axes (a={a}, ratio={ratio}, t={t})", {"op": "rytz", "a": a, "ratio": ratio, "rot": rot, "t": t})
        except Exception as ex:  # noqa
            ctx.fail(f"roundtrip/rytz/{type(ex).__name__}/{i}", f"raised {type(ex).__name__}: {ex}", {"op": "rytz", "a": a, "ratio": ratio, "rot": rot, "t": t})


def oracle_bezier(ctx):
    """O6: Bezier4P / Bezier3P of both twins vs de Casteljau and the exact derivative (Fractions)"""
    rng = ctx.rng("o6")
    tw = impls(ctx)
    ts = [Fr(0), Fr(1), Fr(1, 2), Fr(1, 4), Fr(3, 4), Fr(1, 3), Fr(2, 3), Fr(1, 8), Fr(7, 8), Fr(1, 64), Fr(63, 64), Fr(5, 16)]
    for i in range(ctx.n(400, 6000)):
        for deg in (3, 2):
            pts = [gen_point(rng, i % 3 == 0, i % 5 == 4) for _ in range(deg + 1)]
            aff = gen_affine(rng)
            hod = [tuple(deg * (b - a) for a, b in zip(p, q)) for p, q in zip(pts, pts[1:])]  # hodograph
            scale = max(8.0, max(abs(float(c)) for p in pts for c in p))
            for im in tw:
                cls = im.Bezier4P if deg == 3 else im.Bezier3P
                curve = cls([im.v3(p) for p in pts])
                M = matrix_of(im, aff)
                tr = lambda v: (v[0] * aff[0] + v[1] * aff[3] + v[2] * aff[6] + aff[9], v[0] * aff[1] + v[1] * aff[4] + v[2] * aff[7] + aff[10],
                                v[0] * aff[2] + v[1] * aff[5] + v[2] * aff[8] + aff[11])
                for t in rng.sample(ts, 5):
                    ctx.count("O6 bezier", (i, deg, im.name, str(t)), 0 < t < 1)
                    rep = {"op": "bezier", "twin": im.name, "points": [vs(p) for p in pts], "t": rs(t), "m": [rs(a) for a in aff]}
                    checks = [("point", curve.point(float(t)), bernstein_point(pts, t), scale),
                              ("tangent", curve.tangent(float(t)), bernstein_point(hod, t), 3 * scale),
                              ("reverse", curve.reverse().point(float(t)), bernstein_point(pts, 1 - t), scale),
                              ("transform", curve.transform(M).point(float(t)), tr(bernstein_point(pts, t)), 40 * scale)]
                    for name, got, ex, sc in checks:
                        if not vclose(got, ex, sc):
                            ctx.fail(f"bezier/{name}/{im.name}/deg={deg}/{i}/t={rs(t)}",
                                     f"Bezier{deg + 1}P.{name}({float(t)}) = {tuple(got)} but the Bernstein form gives {[float(c) for c in ex]} ({im.name} twin)", dict(rep, kind=name))
                cp = curve.control_points
                if not all(vclose(a, b, scale) for a, b in zip(cp, pts)):
                    ctx.fail(f"bezier/control_points/{im.name}/deg={deg}/{i}", "control_points does not return the defining points", {"op": "bezier", "points": [vs(p) for p in pts]})


def oracle(ctx):
    import warnings

    with warnings.catch_warnings():
        warnings.simplefilter("ignore", RuntimeWarning)  # numpy: 0/0 on float64 knots (classified as F13 by the checks)
        oracle_points(ctx)
        oracle_surgery(ctx)
        oracle_interpolation(ctx)
        oracle_conics(ctx)
        oracle_bezier(ctx)


# ====================================================================== replay
def _replay_one(r) -> str | None:
    """re-evaluate one recorded failing input on the current code; returns a message if it still fails"""
    from ezdxf.math import Vec3

    op = r.get("op")
    if "knots" in r:
        U = [Fr(k) for k in r["knots"]]
        p = r["order"] - 1
        cps = [parse_v(c) for c in r["cps"]]
        w = [Fr(x) for x in r["weights"]] if r.get("weights") else None
        ref = RefCurve(U, p + 1, cps, w)
        twins = [im for im in impls() if im.name == r.get("twin")] or impls()[-1:]
        if op in ("point", "deriv"):
            u = Fr(r["u"])
            ev = twins[0].evaluator(U, p + 1, cps, w)
            nd = min(p, 3)
            ds = ev.derivative(float(u), nd)
            ex = ref.derivatives(u, nd)
            for a, b in zip([ev.point(float(u))] + list(ds), [ex[0]] + list(ex)):
                if not vclose(a, b, max(8.0, max(abs(float(c)) for c in b))):
                    return f"value {tuple(a)} expected {[float(c) for c in b]}"
            return None
        with use_twin(twins[0]):
            sp = make_bspline(U, p, cps, w)
            if op == "approximate":
                list(sp.approximate(4))
                return None
            u = Fr(r["u"]) if "u" in r else None
            mx = U[-1]
            if op == "insert_knot":
                s2, um = sp.insert_knot(float(Fr(r["t"]))), u
            elif op == "knot_refinement":
                s2, um = sp.knot_refinement([float(Fr(t)) for t in r["t"]]), u
            elif op == "reverse":
                s2, um = sp.reverse(), 1 - u / mx
            elif op == "degree_elevation":
                s2, um = sp.degree_elevation(int(r["t"])), u
            elif op == "split-first":
                s2, um = sp.split(float(Fr(r["t"])))[0], u
            elif op == "split-second":
                t = Fr(r["t"])
                s2, um = sp.split(float(t))[1], (u - t) / (mx - t)
            elif op == "shifted-knots":
                U0 = [k - U[0] for k in U]
                ref = RefCurve(U0, p + 1, cps, w)
                s2, um = sp, u / U0[-1]
            elif op == "transform":
                aff = [Fr(a) for a in r["m"]]
                s2 = sp.transform(matrix_of(impls()[-1], aff))
                v = s2.point(float(u))
                e = ref.point(u)
                ex = (e[0] * aff[0] + e[1] * aff[3] + e[2] * aff[6] + aff[9], e[0] * aff[1] + e[1] * aff[4] + e[2] * aff[7] + aff[10],
                      e[0] * aff[2] + e[1] * aff[5] + e[2] * aff[8] + aff[11])
                return None if vclose(v, ex, max(8.0, max(abs(float(c)) for c in ex))) else f"value {tuple(v)} expected {[float(c) for c in ex]}"
            elif op == "bezier_decomposition":
                list(sp.bezier_decomposition())
                return None
            else:
                return f"unknown op {op}"
            if u is None:
                return None
            v = s2.point(float(um))
            if any(math.isnan(c) for c in v):
                return "NaN"
            ex = ref.point(u)
            return None if vclose(v, ex, max(8.0, max(abs(float(c)) for c in ex))) else f"value {tuple(v)} expected {[float(c) for c in ex]}"
    if "fit_points" in r:
        from ezdxf.math import global_bspline_interpolation, local_cubic_bspline_interpolation, fit_points_to_cad_cv, fit_points_to_cubic_bezier
        from ezdxf.math.parametrize import create_t_vector

        pts = [Vec3(p) for p in r["fit_points"]]
        if op in ("global", "global-end-tangents", "global-all-tangents"):
            tg = [Vec3(t) for t in r["tangents"]] if r.get("tangents") else None
            method = r.get("method", "chord")
            s = global_bspline_interpolation(pts, r["degree"], tangents=tg, method=method)
            tv = list(create_t_vector(pts, method))
            if max(s.point(t * s.max_t).distance(q) for t, q in zip(tv, pts)) > 1e-5:
                return "misses a fit point"
            if tg and len(tg) == 2 and (s.derivative(0, 1)[1].distance(tg[0]) > 1e-5 or s.derivative(s.max_t, 1)[1].distance(tg[1]) > 1e-5):
                return "end tangents not met"
            return None
        if op == "local":
            local_cubic_bspline_interpolation(pts, method=r["method"])
            return None
        if op == "cad_cv":
            fit_points_to_cad_cv(pts, tangents=[Vec3(1, 2, 0), Vec3(-1, 1, 0)] if r.get("tangents") else None)
            return None
        if op == "cubic_bezier":
            fit_points_to_cubic_bezier(pts)
            return None
    if op == "b2b":
        from ezdxf.math.curvetools import bezier_to_bspline

        im = ([i for i in impls() if i.name == r.get("twin")] or impls()[-1:])[0]
        chains = [[parse_v(q) for q in c] for c in r["curves"]]
        import ezdxf.math.curvetools as CT

        saved, CT.Bezier4P = CT.Bezier4P, im.Bezier4P
        try:
            sp = bezier_to_bspline([(im.Bezier4P if len(c) == 4 else im.Bezier3P)([im.v3(q) for q in c]) for c in chains])
        finally:
            CT.Bezier4P = saved
        k, x = int(r["k"]), Fr(r["x"])
        return None if vclose(sp.point(float(k + x)), bernstein_point(chains[k], x), 8.0) else "segment differs from its Bezier curve"
    if op == "bezier":
        pts = [parse_v(c) for c in r["points"]]
        t = Fr(r["t"])
        deg = len(pts) - 1
        im = ([i for i in impls() if i.name == r.get("twin")] or impls()[-1:])[0]
        curve = (im.Bezier4P if deg == 3 else im.Bezier3P)([im.v3(p) for p in pts])
        scale = max(8.0, max(abs(float(c)) for p in pts for c in p))
        hod = [tuple(deg * (b - a) for a, b in zip(p, q)) for p, q in zip(pts, pts[1:])]
        if not vclose(curve.point(float(t)), bernstein_point(pts, t), scale):
            return "point differs from the Bernstein form"
        if not vclose(curve.tangent(float(t)), bernstein_point(hod, t), 3 * scale):
            return "tangent differs from the derivative"
        if not vclose(curve.reverse().point(float(t)), bernstein_point(pts, 1 - t), scale):
            return "reverse differs"
        return None
    return f"replay of op {op!r} is not supported: rerun ./check C13"


def replay(ctx, rep):
    bad = []
    for f in rep.get("failing_inputs", []):
        try:
            msg = _replay_one(f["replay"])
        except Exception as e:  # noqa
            msg = f"{type(e).__name__}: {e}"
        if msg:
            bad.append(f"{f['key']}: {msg}")
    for b in rep.get("broken", []):
        bad.append(f"broken {b.get('kind')} {b.get('name')}: rerun ./check C13")
    return (not bad, "; ".join(bad)[:2000] or "all recorded failing inputs pass now")

"""C19  Polygon algorithms conserve area and respect containment (DESIGN.md section 7, C19).

Part 1 of this file is a small symbolic translator (Python/Cython arithmetic kernels -> Lean over core Rat) that
regenerates lean/EzdxfVerif/Gen/PolygonKernels.lean from the *current* source on every run.  The loop-carrying
algorithms (earcut ring surgery, Sutherland-Hodgman, Cohen-Sutherland, monotone chain, point-in-polygon) are
hand-modelled in lean/EzdxfVerif/Model/Polygon.lean on top of these kernels and tied to the code by the
correspondence streams of part 2; part 3 is the oracle on the real code with exact Fraction arithmetic.
"""
from __future__ import annotations

import ast
import itertools
import math
import re
import textwrap
from fractions import Fraction as F

ID = "C19"
LEAN_MODULES = ["EzdxfVerif.Props.C19"]
DRIVER_DEPS = ["EzdxfVerif.Model.Polygon", "EzdxfVerif.Gen.PolygonKernels", "Drivers.Proto"]

# =====================================================================================================
# part 1: translator
# =====================================================================================================
LEAN_KW = {"by", "at", "end", "from", "fun", "if", "then", "else", "let", "in", "do", "have", "show", "with", "open",
           "def", "match", "where", "instance", "structure", "class", "Type", "Prop", "Sort"}


class TErr(Exception):
    """the source left the supported subset (reported as a broken translation obligation)"""


def flat(path) -> str:
    name = "_".join(path)
    if name in LEAN_KW:
        name += "_"
    return name


def ratlit(v) -> str:
    fr = F(repr(v)) if isinstance(v, float) else F(v)
    if fr.denominator == 1:
        return f"({fr.numerator} : Rat)"
    return f"(({fr.numerator} : Rat) / {fr.denominator})"


LEAN_TYPES = {"rat": "Rat", "bool": "Bool", "nat": "Nat", "optvec": "Option (Rat × Rat)"}


class Kernel:
    def __init__(self, name, params, rtype, body):
        self.name, self.params, self.rtype, self.body = name, params, rtype, body  # params: [(path tuple, type)]

    def lean(self) -> str:
        ps = " ".join(f"({flat(p)} : {LEAN_TYPES[t]})" for p, t in self.params)
        return f"def {self.name} {ps} : {LEAN_TYPES[self.rtype]} :=\n  {self.body}\n"


def parse_params(spec: str):
    out = []
    for tok in spec.split():
        path, _, ty = tok.partition(":")
        out.append((tuple(path.split(".")), ty or "rat"))
    return out


class SymEx:
    """symbolic execution of straight-line code with if/else over rationals, booleans, bit-set naturals and 2-vectors"""

    def __init__(self, module: ast.Module, registry: dict, vec_class: ast.ClassDef | None, consts: dict, nat_mode=False):
        self.module, self.registry, self.vec_class, self.consts, self.nat_mode = module, registry, vec_class, consts, nat_mode
        self.params: dict = {}
        self.roots: set = set()
        self.subst: dict = {}

    # ---- values: ("rat", text) ("bool", text) ("nat", text) ("vec", (tx, ty)) ("ref", path) ("inf", sign) ("none",)
    def lit(self, v):
        if isinstance(v, bool):
            return ("bool", "true" if v else "false")
        if v is None:
            return ("none",)
        if isinstance(v, (int, float)):
            if self.nat_mode and isinstance(v, int):
                return ("nat", str(v))
            return ("rat", ratlit(v))
        raise TErr(f"constant {v!r}")

    def path_value(self, path):
        path = tuple(path)
        for k, v in getattr(self, "alias", {}).items():
            if path[: len(k)] == k:
                path = v + path[len(k):]
                break
        if path in self.params:
            return (self.params[path], flat(path))
        if any(p[: len(path)] == path for p in self.params):
            return ("ref", path)
        raise TErr(f"access path {'.'.join(path)} is not a declared parameter")

    def attr(self, base, name):
        if base[0] == "ref":
            return self.path_value(base[1] + (name,))
        if base[0] == "vec" and name in ("x", "y"):
            return ("rat", base[1][0 if name == "x" else 1])
        raise TErr(f"attribute .{name} of {base[0]}")

    def asvec(self, v):
        if v[0] == "ref":
            return ("vec", (self.attr(v, "x")[1], self.attr(v, "y")[1]))
        return v

    def tobool(self, v):
        if v[0] == "bool":
            return v[1]
        if v[0] == "rat":
            return f"(decide ({v[1]} ≠ 0))"
        if v[0] == "nat":
            return f"(decide ({v[1]} ≠ 0))"
        raise TErr(f"truth value of {v[0]}")

    def ex(self, n, env):
        key = ast.unparse(n)
        if key in self.subst:
            s = self.subst[key]
            return self.path_value(s.split(".")) if isinstance(s, str) else s
        if isinstance(n, ast.Constant):
            return self.lit(n.value)
        if isinstance(n, ast.Name):
            if n.id in self.roots:
                return self.path_value((n.id,))
            if n.id in env:
                return env[n.id]
            if n.id in self.consts:
                return self.lit(self.consts[n.id])
            raise TErr(f"free name {n.id}")
        if isinstance(n, ast.Attribute):
            if isinstance(n.value, ast.Name) and n.value.id == "math" and n.attr == "inf":
                return ("inf", 1)
            return self.attr(self.ex(n.value, env), n.attr)
        if isinstance(n, ast.UnaryOp):
            v = self.ex(n.operand, env)
            if isinstance(n.op, ast.USub):
                if v[0] == "inf":
                    return ("inf", -v[1])
                if v[0] == "rat":
                    return ("rat", f"(-{v[1]})")
            if isinstance(n.op, ast.Not):
                return ("bool", f"(!{self.tobool(v)})")
            raise TErr(f"unary {type(n.op).__name__} on {v[0]}")
        if isinstance(n, ast.BinOp):
            a, b = self.ex(n.left, env), self.ex(n.right, env)
            ops = {ast.Add: "+", ast.Sub: "-", ast.Mult: "*", ast.Div: "/"}
            if a[0] == "rat" and b[0] == "rat" and type(n.op) in ops:
                return ("rat", f"({a[1]} {ops[type(n.op)]} {b[1]})")
            if a[0] == "nat" and b[0] == "nat" and isinstance(n.op, (ast.BitOr, ast.BitAnd)):
                return ("nat", f"({a[1]} {'|||' if isinstance(n.op, ast.BitOr) else '&&&'} {b[1]})")
            if a[0] in ("vec", "ref") and b[0] in ("vec", "ref") and isinstance(n.op, ast.Sub):
                return self.method(self.asvec(a), "__sub__", [self.asvec(b)])
            raise TErr(f"binary {type(n.op).__name__} on {a[0]},{b[0]}")
        if isinstance(n, ast.Compare):
            parts = []
            left = self.ex(n.left, env)
            for op, rn in zip(n.ops, n.comparators):
                right = self.ex(rn, env)
                parts.append(self.cmp(op, left, right))
                left = right
            return ("bool", parts[0] if len(parts) == 1 else "(" + " && ".join(parts) + ")")
        if isinstance(n, ast.BoolOp):
            op = " && " if isinstance(n.op, ast.And) else " || "
            return ("bool", "(" + op.join(self.tobool(self.ex(v, env)) for v in n.values) + ")")
        if isinstance(n, ast.IfExp):
            t = self.tobool(self.ex(n.test, env))
            return self.ite(t, self.ex(n.body, env), self.ex(n.orelse, env))
        if isinstance(n, ast.Tuple):
            return ("tuple", [self.ex(e, env) for e in n.elts])
        if isinstance(n, ast.Call):
            return self.call(n, env)
        raise TErr(f"expression {type(n).__name__}: {key[:60]}")

    def ite(self, t, a, b):
        if a == b:
            return a
        if a[0] == b[0] and a[0] in ("rat", "nat"):
            return (a[0], f"(if {t} then {a[1]} else {b[1]})")
        if a[0] == b[0] == "bool":
            return ("bool", f"(if {t} then {a[1]} else {b[1]})")
        if a[0] == b[0] == "vec":
            return ("vec", tuple(f"(if {t} then {x} else {y})" for x, y in zip(a[1], b[1])))
        if a[0] == b[0] == "tuple" and len(a[1]) == len(b[1]):
            return ("tuple", [self.ite(t, x, y) for x, y in zip(a[1], b[1])])
        if {a[0], b[0]} <= {"none", "vec", "optvec"}:
            return ("optvec", f"(if {t} then {self.optvec(a)} else {self.optvec(b)})")
        raise TErr(f"if-merge of {a[0]} and {b[0]}")

    def optvec(self, v):
        if v[0] == "none":
            return "none"
        if v[0] == "vec":
            return f"(some ({v[1][0]}, {v[1][1]}))"
        if v[0] == "optvec":
            return v[1]
        raise TErr(f"optional vector from {v[0]}")

    def cmp(self, op, a, b):
        sym = {ast.Lt: "<", ast.LtE: "≤", ast.Gt: ">", ast.GtE: "≥", ast.Eq: "=", ast.NotEq: "≠"}
        if a[0] == "inf" or b[0] == "inf":
            if a[0] == "rat" and b[0] == "inf":
                res = {ast.Lt: b[1] > 0, ast.LtE: b[1] > 0, ast.Gt: b[1] < 0, ast.GtE: b[1] < 0, ast.Eq: False, ast.NotEq: True}
                return "true" if res[type(op)] else "false"
            raise TErr("comparison with infinity on the left")
        if a[0] == "ref" and b[0] == "ref" and isinstance(op, (ast.Eq, ast.NotEq)):
            v = self.method(a, "__eq__", [b], cls="Node")
            return v[1] if isinstance(op, ast.Eq) else f"(!{v[1]})"
        if a[0] == b[0] == "bool" and isinstance(op, (ast.Is, ast.Eq)):
            return f"({a[1]} == {b[1]})"
        if a[0] == b[0] == "bool" and isinstance(op, (ast.IsNot, ast.NotEq)):
            return f"({a[1]} != {b[1]})"
        if a[0] == b[0] and a[0] in ("rat", "nat") and type(op) in sym:
            return f"(decide ({a[1]} {sym[type(op)]} {b[1]}))"
        raise TErr(f"comparison {type(op).__name__} of {a[0]} and {b[0]}")

    def find_class(self, name):
        if name == "Vec2":
            return self.vec_class
        for n in self.module.body:
            if isinstance(n, ast.ClassDef) and n.name == name:
                return n
        raise TErr(f"class {name}")

    def method(self, recv, name, args, cls="Vec2"):
        c = self.find_class(cls)
        if c is None:
            raise TErr(f"class {cls} not available")
        fn = next((m for m in c.body if isinstance(m, ast.FunctionDef) and m.name == name), None)
        if fn is None:
            raise TErr(f"method {cls}.{name}")
        names = [a.arg for a in fn.args.args]
        env = dict(zip(names, [recv] + list(args)))
        sub = SymEx(self.module, self.registry, self.vec_class, self.consts, self.nat_mode)
        sub.params, sub.roots, sub.alias = self.params, set(), getattr(self, "alias", {})
        r = sub.run(fn.body, env)
        if r[0] != "ret":
            raise TErr(f"method {cls}.{name} does not return")
        return r[1]

    def call(self, n, env):
        f = n.func
        args = n.args
        if isinstance(f, ast.Attribute) and isinstance(f.value, ast.Name) and f.value.id == "math" and f.attr == "fabs":
            f = ast.Name("abs")
        if isinstance(f, ast.Name):
            if f.id in ("min", "max", "fmin", "fmax"):
                vals = [self.ex(a, env) for a in args]
                if any(v[0] != "rat" for v in vals) or len(vals) < 2:
                    raise TErr("min/max of non-rationals")
                fn = "rmin" if f.id in ("min", "fmin") else "rmax"
                acc = vals[0][1]
                for v in vals[1:]:
                    acc = f"({fn} {acc} {v[1]})"
                return ("rat", acc)
            if f.id in ("abs", "fabs"):
                v = self.ex(args[0], env)
                if v[0] != "rat":
                    raise TErr("abs of non-rational")
                return ("rat", f"(rabs {v[1]})")
            if f.id == "Vec2" and len(args) == 2:
                a, b = self.ex(args[0], env), self.ex(args[1], env)
                if a[0] != "rat" or b[0] != "rat":
                    raise TErr("Vec2() of non-rationals")
                return ("vec", (a[1], b[1]))
            if f.id in self.registry:
                return self.kcall(self.registry[f.id], args, env)
            if f.id in env and env[f.id][0] == "closure":
                fn = env[f.id][1]
                names = [a.arg for a in fn.args.args]
                cenv = dict(env)
                cenv.update(zip(names, [self.ex(a, env) for a in args]))
                r = self.run(fn.body, cenv)
                if r[0] != "ret":
                    raise TErr(f"closure {f.id} does not return")
                return r[1]
            raise TErr(f"call of {f.id}")
        if isinstance(f, ast.Attribute):
            if f.attr == "__class__" and len(args) == 2:  # self.__class__(x, y) inside Vec2 methods
                return self.call(ast.Call(ast.Name("Vec2"), args, []), env)
            if f.attr == "equals" and len(args) == 1:  # Cython spelling of Node.__eq__
                return self.method(self.ex(f.value, env), "equals", [self.ex(args[0], env)], cls="Node")
            recv = self.ex(f.value, env)
            if recv[0] == "vec":
                return self.method(recv, f.attr, [self.ex(a, env) for a in args])
        raise TErr(f"call {ast.unparse(n)[:60]}")

    def kcall(self, k: Kernel, args, env):
        fn_args = k.argnames
        if len(fn_args) != len(args):
            raise TErr(f"arity of {k.pyname}")
        vals = dict(zip(fn_args, [self.ex(a, env) for a in args]))
        out = []
        for path, ty in k.params:
            v = vals.get(path[0])
            if v is None:
                raise TErr(f"kernel {k.pyname}: parameter root {path[0]}")
            for a in path[1:]:
                v = self.attr(v, a)
            if v[0] != ty:
                raise TErr(f"kernel {k.pyname}: argument {'.'.join(path)} has type {v[0]}, expected {ty}")
            out.append(v[1])
        return (k.rtype, "(" + " ".join([k.name] + out) + ")")

    # ---- statements
    def assign(self, target, value, env):
        if isinstance(target, ast.Name):
            if target.id not in self.roots:
                env[target.id] = value
            return
        if isinstance(target, ast.Tuple) and value[0] == "tuple" and len(value[1]) == len(target.elts):
            for t, v in zip(target.elts, value[1]):
                self.assign(t, v, env)
            return
        raise TErr(f"assignment target {ast.unparse(target)[:40]}")

    def run(self, stmts, env):
        """returns ("ret", value) or ("env", env)"""
        env = dict(env)
        for idx, s in enumerate(stmts):
            if isinstance(s, ast.Pass) or (isinstance(s, ast.Expr) and isinstance(s.value, ast.Constant)):
                continue
            if isinstance(s, ast.FunctionDef):
                env[s.name] = ("closure", s)
                continue
            if isinstance(s, (ast.Assign, ast.AnnAssign)):
                tg = s.targets[0] if isinstance(s, ast.Assign) else s.target
                nm = [x.id for x in ast.walk(tg) if isinstance(x, ast.Name)]
                if nm and all(x in self.roots or x == "_" for x in nm):
                    continue  # a declared parameter is (re)bound from something outside the kernel
            if isinstance(s, ast.Assign) and len(s.targets) == 1:
                self.assign(s.targets[0], self.ex(s.value, env), env)
                continue
            if isinstance(s, ast.AnnAssign) and s.value is not None:
                self.assign(s.target, self.ex(s.value, env), env)
                continue
            if isinstance(s, ast.AugAssign) and isinstance(s.target, ast.Name):
                v = self.ex(ast.BinOp(ast.Name(s.target.id), s.op, s.value), env)
                self.assign(s.target, v, env)
                continue
            if isinstance(s, ast.Return):
                return ("ret", self.ex(s.value, env) if s.value is not None else ("none",))
            if isinstance(s, (ast.With, ast.Try)):
                r = self.run(s.body, env)
                if r[0] == "ret":
                    return r
                env = r[1]
                continue
            if isinstance(s, ast.If):
                t = self.tobool(self.ex(s.test, env))
                rest = stmts[idx + 1:]
                r1 = self.run(s.body, env)
                r2 = self.run(s.orelse, env)
                if r1[0] == "env" and r2[0] == "env":
                    merged = dict(env)
                    for k in set(r1[1]) | set(r2[1]):
                        a, b = r1[1].get(k), r2[1].get(k)
                        if a is None or b is None:
                            continue  # defined on one path only: not usable afterwards
                        merged[k] = a if a == b else self.ite(t, a, b)
                    env = merged
                    continue
                # some path returns inside the branch: each branch continues with the remaining statements
                q1 = self.run(list(s.body) + list(rest), env)
                q2 = self.run(list(s.orelse) + list(rest), env)
                if q1[0] == "ret" and q2[0] == "ret":
                    return ("ret", self.ite(t, q1[1], q2[1]))
                return ("partial", t, q1, q2)
            raise TErr(f"statement {type(s).__name__}: {ast.unparse(s)[:60]}")
        return ("env", env)

    @staticmethod
    def need_ret(r):
        if r[0] != "ret":
            raise TErr("a path through the function does not return")
        return r[1]


def strip_cython(src: str) -> str:
    """make the arithmetic part of a .pyx file parseable by `ast` (types are dropped, semantics of the kernels kept)"""
    out = []
    lines = []
    pending = None
    for ln in src.splitlines():  # join multi-line def headers
        if pending is not None:
            pending += " " + ln.strip()
            if re.search(r"\)\s*(->\s*[^:]+)?:\s*$", ln):
                lines.append(re.sub(r",\s*\)", ")", pending))
                pending = None
            continue
        if re.match(r"^\s*(cdef|cpdef|def)\s.*\(\s*$", ln) and not ln.strip().startswith("cdef class"):
            pending = ln.rstrip()
            continue
        lines.append(ln)
    i = 0
    ctype = r"(?:const\s+)?(?:unsigned\s+)?(?:double|int|bint|long|float|object|list|tuple|Py_ssize_t|Node|Vec2|Vec3)\s*\*?"
    lines = [re.sub(r"<\s*\w+\s*>\s*(?=[\w(])", "", ln) for ln in lines]
    while i < len(lines):
        ln = lines[i]
        m = re.match(r"^(\s*)cdef\s*:\s*$", ln)
        if m:
            ind = len(m.group(1))
            i += 1
            while i < len(lines) and (not lines[i].strip() or len(lines[i]) - len(lines[i].lstrip()) > ind):
                body = lines[i].strip()
                mm = re.match(rf"^{ctype}\s*(\w+\s*=.*)$", body)
                if mm:
                    out.append(" " * ind + mm.group(1))
                i += 1
            continue
        if re.match(r"^\s*(cimport|from\s+\S+\s+cimport)", ln):
            if "(" in ln and ")" not in ln:
                while i < len(lines) and ")" not in lines[i]:
                    i += 1
            out.append("pass")
            i += 1
            continue
        if re.match(r"^\s*cdef extern", ln):
            i += 1
            while i < len(lines) and (not lines[i].strip() or lines[i][0] in " \t"):
                i += 1
            out.append("pass")
            continue
        m = re.match(rf"^(\s*)cdef\s+{ctype}\s*(\w+)\s*=(.*)$", ln)
        if m:
            out.append(f"{m.group(1)}{m.group(2)} =" + re.sub(r",\s*(\w+\s*=)", r"; \1", m.group(3)))
            i += 1
            continue
        if re.match(rf"^\s*cdef\s+{ctype}\s*[\w, ]+$", ln) or re.match(r"^\s*(cimport|from\s+\S+\s+cimport|cdef extern)", ln):
            out.append(re.match(r"^\s*", ln).group(0) + "pass")
            i += 1
            continue
        m = re.match(r"^(\s*)(?:cdef|cpdef)\s+(?:inline\s+)?(?:[\w\[\]]+\s+)?(\w+)\((.*)$", ln)
        if m and not ln.strip().startswith("cdef class"):
            ln = f"{m.group(1)}def {m.group(2)}({m.group(3)}"
        ln = re.sub(r"^(\s*)cdef class", r"\1class", ln)
        ln = re.sub(r"\b__cinit__\b", "__init__", ln)
        # typed parameters in def lines
        md = re.match(r"^(\s*def\s+\w+)\((.*)\)\s*(?:->.*)?:\s*$", ln)
        if md:
            params, depth, cur = [], 0, ""
            for ch in md.group(2):
                if ch in "([":
                    depth += 1
                elif ch in ")]":
                    depth -= 1
                if ch == "," and depth == 0:
                    params.append(cur)
                    cur = ""
                else:
                    cur += ch
            if cur.strip():
                params.append(cur)
            clean = []
            for prm in params:
                prm = prm.strip()
                default = ""
                if "=" in prm:
                    prm, default = prm.split("=", 1)
                    default = "=" + default.strip()
                prm = prm.split(":")[0].strip()
                prm = re.sub(rf"^{ctype}\s*(?=\w)", "", prm) if " " in prm else prm
                clean.append(prm.split()[-1] + default if prm not in ("*",) else "*")
            ln = f"{md.group(1)}({', '.join(clean)}):"
        ln = re.sub(r"<\w+>\s*", "", ln)
        out.append(ln)
        i += 1
    return "\n".join(out) + "\n"


def parse_source(src: str, pyx: bool):
    if not pyx:
        return ast.parse(src)
    s = strip_cython(src)
    try:
        return ast.parse(s)
    except SyntaxError:
        # fall back: parse function by function, keep what parses (kernels that are needed and missing raise later)
        mod = ast.Module([], [])
        chunks = re.split(r"(?m)^(?=def |class )", s)
        for ch in chunks:
            try:
                mod.body += ast.parse(ch).body
            except SyntaxError:
                continue
        return mod


def find_func(mod, dotted: str):
    cur = mod
    for part in dotted.split("."):
        nxt = None
        for n in ast.walk(cur):
            if n is not cur and isinstance(n, (ast.FunctionDef, ast.ClassDef)) and n.name == part:
                nxt = n
                break
        if nxt is None:
            raise TErr(f"definition {dotted} not found")
        cur = nxt
    return cur


class Unit:
    """kernels of one source file"""

    def __init__(self, ctx, rel, vec_class=None, suffix="", pyx=False):
        self.rel, self.suffix = rel, suffix
        self.mod = parse_source(ctx.src(rel), pyx)
        self.vec_class = vec_class
        self.registry: dict = {}
        self.consts = {}
        for n in self.mod.body:
            if isinstance(n, ast.Assign) and len(n.targets) == 1 and isinstance(n.targets[0], ast.Name) and isinstance(n.value, ast.Constant):
                self.consts[n.targets[0].id] = n.value.value
        self.kernels: list[Kernel] = []

    def sym(self, params, nat_mode=False, subst=None):
        sx = SymEx(self.mod, self.registry, self.vec_class, self.consts, nat_mode)
        sx.alias = {}
        subst = dict(subst or {})
        for k in [k for k in subst if k.startswith("alias:")]:
            sx.alias[tuple(k[6:].split("."))] = tuple(subst.pop(k).split("."))
        sx.params = {p: t for p, t in params}
        sx.roots = {p[0] for p, _ in params}
        sx.subst = subst or {}
        return sx

    def add(self, k: Kernel, pyname=None, argnames=None):
        k.name += self.suffix
        k.pyname, k.argnames = pyname, argnames
        self.kernels.append(k)
        if pyname:
            self.registry[pyname] = k
        return k

    def value_text(self, v, rtype):
        if rtype == "optvec":
            return SymEx.optvec(None, v)
        if rtype == "bool" and v[0] in ("rat", "nat"):
            return SymEx.tobool(None, v)
        if v[0] != rtype:
            raise TErr(f"result type {v[0]}, expected {rtype}")
        return v[1]

    def func(self, lean_name, dotted, spec, rtype="rat", register=True, nat_mode=False, subst=None, pre=None):
        """whole function -> kernel"""
        fn = find_func(self.mod, dotted)
        params = parse_params(spec)
        sx = self.sym(params, nat_mode, subst)
        r = sx.run(fn.body, dict(pre or {}))
        v = SymEx.need_ret(r)
        k = Kernel(lean_name, params, rtype, self.value_text(v, rtype))
        argnames = [a.arg for a in fn.args.args if a.arg != "self"]
        return self.add(k, dotted.split(".")[-1] if register else None, argnames)

    def expr(self, lean_name, dotted, pick, spec, rtype="bool", subst=None, nat_mode=False, inf=None, extra_env=None):
        """one expression inside a function (a loop-body condition, a formula) under the local assignments preceding it"""
        fn = find_func(self.mod, dotted)
        params = parse_params(spec)
        sx = self.sym(params, nat_mode, subst)
        target = pick(fn)
        if target is None:
            raise TErr(f"{dotted}: expression for {lean_name} not found")
        env = {}
        for n in fn.body:
            if isinstance(n, ast.FunctionDef):
                env[n.name] = ("closure", n)
        for n in sorted((m for m in ast.walk(fn) if isinstance(m, (ast.Assign, ast.AnnAssign)) and m.lineno < target.lineno),
                        key=lambda m: (m.lineno, m.col_offset)):
            tgt = n.targets[0] if isinstance(n, ast.Assign) else n.target
            if n.value is None:
                continue
            try:
                sx.assign(tgt, sx.ex(n.value, env), env)
            except TErr:
                for nm in ast.walk(tgt):
                    if isinstance(nm, ast.Name):
                        env.pop(nm.id, None)
        for k_, v_ in (inf or {}).items():
            env[k_] = ("inf", v_)
        env.update(extra_env or {})
        v = sx.ex(target, env)
        return self.add(Kernel(lean_name, params, rtype, self.value_text(v, rtype)))


def nth(kind, i, must=None, attr=None):
    """pick the i-th node of a kind (source order) inside a function; optionally one of its fields"""

    def pick(fn):
        nodes = sorted((n for n in ast.walk(fn) if isinstance(n, kind) and n is not fn), key=lambda n: (n.lineno, n.col_offset))
        if i >= len(nodes):
            return None
        n = nodes[i]
        if attr:
            n = getattr(n, attr)
        if must and must not in ast.unparse(n):
            raise TErr(f"expected {must!r} in {ast.unparse(n)[:80]!r}")
        return n

    return pick


PRELUDE = """
set_option linter.unusedVariables false
namespace EzdxfVerif.Gen.PolygonKernels

/-- Python `min(a, b)` / C `fmin` on rationals (first minimal argument) -/
def rmin (a b : Rat) : Rat := if b < a then b else a
/-- Python `max(a, b)` / C `fmax` -/
def rmax (a b : Rat) : Rat := if b > a then b else a
/-- Python `abs` / `math.fabs` -/
def rabs (a : Rat) : Rat := if a < 0 then -a else a

"""

NODE3 = "{0}.x {0}.y"


def pts(*names):
    return " ".join(NODE3.format(n) for n in names)


def translate_all(ctx) -> str:
    vec_mod = ast.parse(ctx.src("src/ezdxf/math/_vector.py"))
    vec_class = next(n for n in vec_mod.body if isinstance(n, ast.ClassDef) and n.name == "Vec2")
    out = [PRELUDE]

    # ------------------------------------------------------------------ earcut (.py and .pyx twins)
    def earcut_unit(rel, suffix, pyx):
        u = Unit(ctx, rel, vec_class, suffix, pyx)
        u.expr("signedAreaTerm", "signed_area", nth(ast.AugAssign, 0, attr="value"),
               "prev.x prev.y point.x point.y" if not pyx else "prev_x prev_y point_x point_y", "rat")
        u.func("area", "area", pts("p", "q", "r"))
        u.func("sign", "sign", "num")
        u.func("onSegment", "on_segment", pts("p", "q", "r"), "bool")
        u.func("intersects", "intersects", pts("p1", "q1", "p2", "q2"), "bool")
        u.func("pointInTriangle", "point_in_triangle", "ax ay bx " + ("by_" if pyx else "by") + " cx cy px py", "bool")
        u.func("locallyInside", "locally_inside", pts("a.prev", "a", "a.next", "b"), "bool")
        u.func("sectorContainsSector", "sector_contains_sector", pts("m.prev", "m", "m.next", "p.prev", "p.next"), "bool")
        return u

    py = earcut_unit("src/ezdxf/math/_mapbox_earcut.py", "", False)
    px = earcut_unit("src/ezdxf/acc/mapbox_earcut.pyx", "_pyx", True)
    E = py
    E.func("nodeEq", "Node.__eq__", pts("self", "other"), "bool", register=False)
    E.expr("sameWinding", "linked_list", nth(ast.If, 0, "signed_area", attr="test"), "ccw:bool s", "bool",
           subst={"signed_area(points)": "s"})
    E.expr("isEarReflex", "is_ear", nth(ast.If, 0, "area(a, b, c)", attr="test"), pts("a", "b", "c"))
    E.expr("isEarBlocked", "is_ear", nth(ast.If, 1, "point_in_triangle", attr="test"),
           pts("a", "b", "c", "p.prev", "p", "p.next"))
    E.expr("filterRemovable", "filter_points", nth(ast.If, 2, "steiner", attr="test"),
           "p.steiner:bool " + pts("p.prev", "p", "p.next"))
    E.expr("leftmostLess", "get_leftmost", nth(ast.If, 0, "leftmost", attr="test"), pts("p", "leftmost"))
    E.expr("midToggle", "middle_inside", nth(ast.If, 0, "px <", attr="test"), pts("a", "b", "p", "p.next"))
    E.expr("intersectsPolygonEdge", "intersects_polygon", nth(ast.If, 0, "intersects(", attr="test"),
           "a.i:nat b.i:nat p.i:nat p.next.i:nat " + pts("a", "b", "p", "p.next"))
    E.func("validDiagonal", "is_valid_diagonal",
           "a.next.i:nat a.prev.i:nat b.i:nat crosses:bool middle:bool " + pts("a.prev", "a", "a.next", "b.prev", "b", "b.next"),
           "bool", register=False, subst={"intersects_polygon(a, b)": "crosses", "middle_inside(a, b)": "middle"})
    E.expr("cureTest", "cure_local_intersections", nth(ast.If, 0, "intersects(", attr="test"),
           pts("a.prev", "a", "p", "p.next", "b", "b.next"),
           subst={"alias:a.next": "p", "alias:b.prev": "p.next"})
    E.expr("splitCandidate", "split_ear_cut", nth(ast.If, 0, "is_valid_diagonal", attr="test"), "a.i:nat b.i:nat valid:bool",
           subst={"is_valid_diagonal(a, b)": "valid"})
    # find_hole_bridge, first loop
    E.expr("bridgeHit", "find_hole_bridge", nth(ast.If, 0, "hy", attr="test"), "hy " + pts("p", "p.next"),
           subst={"hole.y": "hy", "hole.x": "hx"})
    E.expr("bridgeX", "find_hole_bridge", lambda fn: nth(ast.If, 0, "hy")(fn).body[0].value, "hy " + pts("p", "p.next"), "rat",
           subst={"hole.y": "hy", "hole.x": "hx"})
    E.expr("bridgeAccept", "find_hole_bridge", nth(ast.If, 1, "qx", attr="test"), "hx x qx",
           subst={"hole.y": "hy", "hole.x": "hx"}, extra_env={})
    E.expr("bridgeAcceptFirst", "find_hole_bridge", nth(ast.If, 1, "qx", attr="test"), "hx x",
           subst={"hole.y": "hy", "hole.x": "hx"}, inf={"qx": -1})
    E.expr("bridgePickP", "find_hole_bridge", lambda fn: nth(ast.If, 1, "qx")(fn).body[1].value.test, pts("p", "p.next"))
    E.expr("bridgeTouch", "find_hole_bridge", nth(ast.If, 2, "x == hx", attr="test"), "x hx",
           subst={"hole.x": "hx"})
    # second loop
    hb = {"hole.y": "hy", "hole.x": "hx", "m.x": "mx", "m.y": "my"}
    E.expr("bridgeCand", "find_hole_bridge", nth(ast.If, 5, "point_in_triangle", attr="test"), "hx hy qx mx my " + pts("p"))
    E.expr("bridgeTan", "find_hole_bridge", lambda fn: nth(ast.If, 5, "point_in_triangle")(fn).body[0].value, "hx hy " + pts("p"), "rat")
    better = "tan tan_min " + pts("p.prev", "p", "p.next", "hole", "m.prev", "m", "m.next")
    E.expr("bridgeBetter", "find_hole_bridge", nth(ast.If, 6, "locally_inside", attr="test"), better)
    E.expr("bridgeBetterFirst", "find_hole_bridge", nth(ast.If, 6, "locally_inside", attr="test"),
           better.replace("tan_min ", ""), inf={"tan_min": 1})
    E.expr("hashThreshold", "earcut", lambda fn: next(n for n in ast.walk(fn) if isinstance(n, ast.Compare) and "len(exterior) >" in ast.unparse(n)).comparators[0],
           "", "rat")
    out.append(f"/-! ## kernels of {py.rel} -/\n")
    out += [k.lean() for k in py.kernels]
    out.append(f"/-! ## the same kernels of the Cython twin {px.rel} (proved equal in Props/C19) -/\n")
    out += [k.lean() for k in px.kernels]

    # ------------------------------------------------------------------ construct (.py and .pyx twins)
    def construct_unit(rel, suffix, pyx):
        u = Unit(ctx, rel, vec_class, suffix, pyx)
        u.func("lineLine", "intersection_line_line_2d", "virtual:bool abs_tol " + pts("s1", "s2", "c1", "c2"), "optvec",
               register=False, subst={"line1[0]": "s1", "line1[1]": "s2", "line2[0]": "c1", "line2[1]": "c2"},
               )
        u.expr("cwTerm", "has_clockwise_orientation",
               (lambda fn: next(n for n in ast.walk(fn) if isinstance(n, ast.AugAssign)).value) if pyx else
               (lambda fn: next(n for n in ast.walk(fn) if isinstance(n, ast.GeneratorExp)).elt), pts("p1", "p2"), "rat")
        def on_edge(fn):
            outer, inner = nth(ast.If, 3, "<= x <=", attr="test")(fn), nth(ast.If, 4, "abs_tol", attr="test")(fn)
            if ast.unparse(nth(ast.If, 4)(fn).body[0]) != "return 0":
                raise TErr("is_point_in_polygon_2d: boundary branch changed")
            return ast.copy_location(ast.BoolOp(ast.And(), [outer, inner]), inner)

        u.expr("pipOnEdge", "is_point_in_polygon_2d", on_edge, "x y x1 y1 x2 y2 abs_tol")
        u.expr("pipToggle", "is_point_in_polygon_2d", nth(ast.If, 5, "y < y2", attr="test"), "x y x1 y1 x2 y2")
        return u

    cpy = construct_unit("src/ezdxf/math/_construct.py", "", False)
    cpx = construct_unit("src/ezdxf/acc/construct.pyx", "_pyx", True)
    cpy.expr("cwPositive", "has_clockwise_orientation", lambda fn: next(n for n in ast.walk(fn) if isinstance(n, ast.Return)).value,
             "s", "bool", subst={ast.unparse(next(n for n in ast.walk(find_func(cpy.mod, "has_clockwise_orientation")) if isinstance(n, ast.Call) and isinstance(n.func, ast.Name) and n.func.id == "sum")): "s"})
    tol = cpy.consts.get("TOLERANCE")
    if not isinstance(tol, float):
        raise TErr("_construct.TOLERANCE")
    out.append(f"/-! ## kernels of {cpy.rel} -/\n")
    out += [k.lean() for k in cpy.kernels]
    out.append(f"def tolerance : Rat := {ratlit(tol)}\n")
    out.append(f"/-! ## twin kernels of {cpx.rel} -/\n")
    out += [k.lean() for k in cpx.kernels]

    # ------------------------------------------------------------------ clipping.py
    C = Unit(ctx, "src/ezdxf/math/clipping.py", vec_class)
    side = pts("clip_start", "clip_end", "point")
    C.func("shInside", "ConvexClippingPolygon2d.clip_polygon.is_inside", side, "bool", register=False)
    C.func("shInsideLine", "ConvexClippingPolygon2d.clip_line.is_inside", side, "bool", register=False)
    win = "self.x_min self.x_max self.y_min self.y_max"
    C.func("csEncode", "CohenSutherlandLineClipping2d.encode", "x y " + win, "nat", register=False, nat_mode=True)
    out.append(f"/-! ## kernels of {C.rel} -/\n")
    out += [k.lean() for k in C.kernels]
    out.append(cs_kernels(C, win))
    if C.consts.get("TOLERANCE") is not None:
        raise TErr("clipping.TOLERANCE is expected to be imported from ezdxf.math")

    # ------------------------------------------------------------------ construct2d.py, _vector.py
    H = Unit(ctx, "src/ezdxf/math/construct2d.py", vec_class)
    H.func("hullCross", "convex_hull_2d.cross", pts("o", "a", "b"), "rat", register=True)
    H.expr("hullPop", "convex_hull_2d", nth(ast.While, 0, "cross(", attr="test"), pts("o", "a", "b"), "bool",
           subst={"hull[k - 2]": "o", "hull[k - 1]": "a", "vertices[i]": "b", "k >= 2": ("bool", "true")})
    H.expr("hullPopUpper", "convex_hull_2d", nth(ast.While, 1, "cross(", attr="test"), pts("o", "a", "b"), "bool",
           subst={"hull[k - 2]": "o", "hull[k - 1]": "a", "vertices[i]": "b", "k >= t": ("bool", "true")})
    V = Unit(ctx, "src/ezdxf/math/_vector.py", vec_class)
    V.func("vecLt", "Vec2.__lt__", "self.x self.y x y", "bool", register=False)
    iscl = next(m for m in vec_class.body if isinstance(m, ast.FunctionDef) and m.name == "isclose")
    kw = {a.arg: d.value for a, d in zip(iscl.args.kwonlyargs, iscl.args.kw_defaults)}
    out.append(f"/-! ## kernels of {H.rel} and {V.rel} -/\n")
    out += [k.lean() for k in H.kernels + V.kernels]
    out.append(f"def iscloseRelTol : Rat := {ratlit(kw['rel_tol'])}\ndef iscloseAbsTol : Rat := {ratlit(kw['abs_tol'])}\n")
    out.append("\nend EzdxfVerif.Gen.PolygonKernels\n")
    return "\n".join(out)


def cs_kernels(C: Unit, win: str) -> str:
    """Cohen-Sutherland: bit constants, accept/reject/pick tests and the clipped point of one loop iteration"""
    fn = find_func(C.mod, "CohenSutherlandLineClipping2d.clip_line")
    loop = next(n for n in ast.walk(fn) if isinstance(n, ast.While))
    if ast.unparse(loop.test) != "True":
        raise TErr("clip_line: `while True` expected")
    body = loop.body
    # shape: if accept: return ..; if reject: return ..; code = ..; if/elif chain; if code == code0: ... else: ...
    if not (len(body) == 5 and isinstance(body[0], ast.If) and isinstance(body[1], ast.If) and isinstance(body[2], ast.Assign)
            and isinstance(body[3], ast.If) and isinstance(body[4], ast.If)):
        raise TErr("clip_line: unexpected loop body shape")
    acc_ret, rej_ret = ast.unparse(body[0].body[-1]), ast.unparse(body[1].body[-1])
    if acc_ret.replace("(", "").replace(")", "") != "return Vec2x0, y0, Vec2x1, y1" or rej_ret != "return tuple()":
        raise TErr(f"clip_line: accept/reject returns changed: {acc_ret!r} {rej_ret!r}")
    upd = ast.unparse(body[4])
    want = "if code == code0:\n    x0 = x\n    y0 = y\n    code0 = self.encode(x0, y0)\nelse:\n    x1 = x\n    y1 = y\n    code1 = self.encode(x1, y1)"
    if upd != want:
        raise TErr("clip_line: endpoint update changed: " + upd)
    pre = [s for s in fn.body if isinstance(s, ast.Assign)]
    pre_txt = [ast.unparse(s) for s in pre]
    if pre_txt != ["x0, y0 = p0", "x1, y1 = p1", "code0 = self.encode(x0, y0)", "code1 = self.encode(x1, y1)", "x = x0", "y = y0"]:
        raise TErr("clip_line: prologue changed: " + repr(pre_txt))
    bits = {k: C.consts[k] for k in ("LEFT", "RIGHT", "BOTTOM", "TOP")}
    params = parse_params("code0:nat code1:nat")
    sx = C.sym(params, nat_mode=True)
    accept = sx.tobool(sx.ex(body[0].test, {}))
    reject = sx.tobool(sx.ex(body[1].test, {}))
    pick = sx.ex(body[2].value, {})
    p2 = parse_params("code:nat x y x0 y0 x1 y1 " + win)
    sx2 = C.sym(p2, nat_mode=False)
    sx2.roots = {p[0] for p, _ in p2} - {"x", "y"}
    sx2.consts = {}
    natc = {k: ("nat", str(v)) for k, v in bits.items()}
    env0 = {"x": ("rat", "x"), "y": ("rat", "y"), **natc}
    r = sx2.run([body[3]], env0)
    if r[0] != "env":
        raise TErr("clip_line: if-chain returns")
    nx, ny = r[1]["x"], r[1]["y"]
    ps2 = " ".join(f"({flat(p)} : {LEAN_TYPES[t]})" for p, t in p2)
    return (
        "".join(f"def cs{k.capitalize()} : Nat := {v}\n" for k, v in bits.items())
        + f"\ndef csAccept (code0 code1 : Nat) : Bool :=\n  {accept}\n"
        + f"\ndef csReject (code0 code1 : Nat) : Bool :=\n  {reject}\n"
        + f"\ndef csPick (code0 code1 : Nat) : Nat :=\n  {pick[1]}\n"
        + f"\ndef csClipX {ps2} : Rat :=\n  {nx[1]}\n"
        + f"\ndef csClipY {ps2} : Rat :=\n  {ny[1]}\n"
    )


SOURCES = [
    "src/ezdxf/math/_vector.py",
    "src/ezdxf/math/_mapbox_earcut.py",
    "src/ezdxf/acc/mapbox_earcut.pyx",
    "src/ezdxf/math/_construct.py",
    "src/ezdxf/acc/construct.pyx",
    "src/ezdxf/math/clipping.py",
    "src/ezdxf/math/construct2d.py",
]


def regenerate(ctx):
    text = translate_all(ctx)
    ctx.src("src/ezdxf/math/triangulation.py")
    ctx.write_gen("PolygonKernels", text, SOURCES)

"""C19  Polygon algorithms conserve area and respect containment (DESIGN.md section 7, C19).

Part 1 of this file is a small symbolic translator (Python/Cython arithmetic kernels -> Lean over core Rat) that
regenerates lean/EzdxfVerif/Gen/PolygonKernels.lean from the *current* source on every run.  The loop-carrying
algorithms (earcut ring surgery, Sutherland-Hodgman, Cohen-Sutherland, monotone chain, point-in-polygon) are
hand-modelled in lean/EzdxfVerif/Model/Polygon.lean on top of these kernels and tied to the code by the
correspondence streams of part 2; part 3 is the oracle on the real code with exact Fraction arithmetic.
"""
from __future__ import annotations

import ast
import itertools
import math
import re
import textwrap
from fractions import Fraction as F

ID = "C19"
LEAN_MODULES = ["EzdxfVerif.Props.C19"]
DRIVER_DEPS = ["EzdxfVerif.Model.Polygon", "EzdxfVerif.Gen.PolygonKernels", "Drivers.Proto"]

# =====================================================================================================
# part 1: translator
# =====================================================================================================
LEAN_KW = {"by", "at", "end", "from", "fun", "if", "then", "else", "let", "in", "do", "have", "show", "with", "open",
           "def", "match", "where", "instance", "structure", "class", "Type", "Prop", "Sort"}


class TErr(Exception):
    """the source left the supported subset (reported as a broken translation obligation)"""


def flat(path) -> str:
    name = "_".join(path)
    if name in LEAN_KW:
        name += "_"
    return name


def ratlit(v) -> str:
    fr = F(repr(v)) if isinstance(v, float) else F(v)
    if fr.denominator == 1:
        return f"({fr.numerator} : Rat)"
    return f"(({fr.numerator} : Rat) / {fr.denominator})"


LEAN_TYPES = {"rat": "Rat", "bool": "Bool", "nat": "Nat", "optvec": "Option (Rat × Rat)"}


class Kernel:
    def __init__(self, name, params, rtype, body):
        self.name, self.params, self.rtype, self.body = name, params, rtype, body  # params: [(path tuple, type)]

    def lean(self) -> str:
        ps = " ".join(f"({flat(p)} : {LEAN_TYPES[t]})" for p, t in self.params)
        return f"def {self.name} {ps} : {LEAN_TYPES[self.rtype]} :=\n  {self.body}\n"


def parse_params(spec: str):
    out = []
    for tok in spec.split():
        path, _, ty = tok.partition(":")
        out.append((tuple(path.split(".")), ty or "rat"))
    return out


class SymEx:
    """symbolic execution of straight-line code with if/else over rationals, booleans, bit-set naturals and 2-vectors"""

    def __init__(self, module: ast.Module, registry: dict, vec_class: ast.ClassDef | None, consts: dict, nat_mode=False):
        self.module, self.registry, self.vec_class, self.consts, self.nat_mode = module, registry, vec_class, consts, nat_mode
        self.params: dict = {}
        self.roots: set = set()
        self.subst: dict = {}

    # ---- values: ("rat", text) ("bool", text) ("nat", text) ("vec", (tx, ty)) ("ref", path) ("inf", sign) ("none",)
    def lit(self, v):
        if isinstance(v, bool):
            return ("bool", "true" if v else "false")
        if v is None:
            return ("none",)
        if isinstance(v, (int, float)):
            if self.nat_mode and isinstance(v, int):
                return ("nat", str(v))
            return ("rat", ratlit(v))
        raise TErr(f"constant {v!r}")

    def path_value(self, path):
        path = tuple(path)
        for k, v in getattr(self, "alias", {}).items():
            if path[: len(k)] == k:
                path = v + path[len(k):]
                break
        if path in self.params:
            return (self.params[path], flat(path))
        if any(p[: len(path)] == path for p in self.params):
            return ("ref", path)
        raise TErr(f"access path {'.'.join(path)} is not a declared parameter")

    def attr(self, base, name):
        if base[0] == "ref":
            return self.path_value(base[1] + (name,))
        if base[0] == "vec" and name in ("x", "y"):
            return ("rat", base[1][0 if name == "x" else 1])
        raise TErr(f"attribute .{name} of {base[0]}")

    def asvec(self, v):
        if v[0] == "ref":
            return ("vec", (self.attr(v, "x")[1], self.attr(v, "y")[1]))
        return v

    def tobool(self, v):
        if v[0] == "bool":
            return v[1]
        if v[0] == "rat":
            return f"(decide ({v[1]} ≠ 0))"
        if v[0] == "nat":
            return f"(decide ({v[1]} ≠ 0))"
        raise TErr(f"truth value of {v[0]}")

    def ex(self, n, env):
        key = ast.unparse(n)
        if key in self.subst:
            s = self.subst[key]
            return self.path_value(s.split(".")) if isinstance(s, str) else s
        if isinstance(n, ast.Constant):
            return self.lit(n.value)
        if isinstance(n, ast.Name):
            if n.id in self.roots:
                return self.path_value((n.id,))
            if n.id in env:
                return env[n.id]
            if n.id in self.consts:
                return self.lit(self.consts[n.id])
            raise TErr(f"free name {n.id}")
        if isinstance(n, ast.Attribute):
            if isinstance(n.value, ast.Name) and n.value.id == "math" and n.attr == "inf":
                return ("inf", 1)
            return self.attr(self.ex(n.value, env), n.attr)
        if isinstance(n, ast.UnaryOp):
            v = self.ex(n.operand, env)
            if isinstance(n.op, ast.USub):
                if v[0] == "inf":
                    return ("inf", -v[1])
                if v[0] == "rat":
                    return ("rat", f"(-{v[1]})")
            if isinstance(n.op, ast.UAdd) and v[0] in ("rat", "inf"):
                return v
            if isinstance(n.op, ast.Not):
                return ("bool", f"(!{self.tobool(v)})")
            raise TErr(f"unary {type(n.op).__name__} on {v[0]}")
        if isinstance(n, ast.BinOp):
            a, b = self.ex(n.left, env), self.ex(n.right, env)
            ops = {ast.Add: "+", ast.Sub: "-", ast.Mult: "*", ast.Div: "/"}
            if a[0] == "rat" and b[0] == "rat" and type(n.op) in ops:
                return ("rat", f"({a[1]} {ops[type(n.op)]} {b[1]})")
            if a[0] == "nat" and b[0] == "nat" and isinstance(n.op, (ast.BitOr, ast.BitAnd)):
                return ("nat", f"({a[1]} {'|||' if isinstance(n.op, ast.BitOr) else '&&&'} {b[1]})")
            if a[0] in ("vec", "ref") and b[0] in ("vec", "ref") and isinstance(n.op, ast.Sub):
                return self.method(self.asvec(a), "__sub__", [self.asvec(b)])
            raise TErr(f"binary {type(n.op).__name__} on {a[0]},{b[0]}")
        if isinstance(n, ast.Compare):
            parts = []
            left = self.ex(n.left, env)
            for op, rn in zip(n.ops, n.comparators):
                right = self.ex(rn, env)
                parts.append(self.cmp(op, left, right))
                left = right
            return ("bool", parts[0] if len(parts) == 1 else "(" + " && ".join(parts) + ")")
        if isinstance(n, ast.BoolOp):
            op = " && " if isinstance(n.op, ast.And) else " || "
            return ("bool", "(" + op.join(self.tobool(self.ex(v, env)) for v in n.values) + ")")
        if isinstance(n, ast.IfExp):
            t = self.tobool(self.ex(n.test, env))
            return self.ite(t, self.ex(n.body, env), self.ex(n.orelse, env))
        if isinstance(n, ast.Tuple):
            return ("tuple", [self.ex(e, env) for e in n.elts])
        if isinstance(n, ast.Call):
            return self.call(n, env)
        raise TErr(f"expression {type(n).__name__}: {key[:60]}")

    def ite(self, t, a, b):
        if a == b:
            return a
        if a[0] == b[0] and a[0] in ("rat", "nat"):
            return (a[0], f"(if {t} then {a[1]} else {b[1]})")
        if a[0] == b[0] == "bool":
            return ("bool", f"(if {t} then {a[1]} else {b[1]})")
        if a[0] == b[0] == "vec":
            return ("vec", tuple(f"(if {t} then {x} else {y})" for x, y in zip(a[1], b[1])))
        if a[0] == b[0] == "tuple" and len(a[1]) == len(b[1]):
            return ("tuple", [self.ite(t, x, y) for x, y in zip(a[1], b[1])])
        if {a[0], b[0]} <= {"none", "vec", "optvec"}:
            return ("optvec", f"(if {t} then {self.optvec(a)} else {self.optvec(b)})")
        raise TErr(f"if-merge of {a[0]} and {b[0]}")

    def optvec(self, v):
        if v[0] == "none":
            return "none"
        if v[0] == "vec":
            return f"(some ({v[1][0]}, {v[1][1]}))"
        if v[0] == "optvec":
            return v[1]
        raise TErr(f"optional vector from {v[0]}")

    def cmp(self, op, a, b):
        sym = {ast.Lt: "<", ast.LtE: "≤", ast.Gt: ">", ast.GtE: "≥", ast.Eq: "=", ast.NotEq: "≠"}
        if a[0] == "inf" or b[0] == "inf":
            if a[0] == "rat" and b[0] == "inf":
                res = {ast.Lt: b[1] > 0, ast.LtE: b[1] > 0, ast.Gt: b[1] < 0, ast.GtE: b[1] < 0, ast.Eq: False, ast.NotEq: True}
                return "true" if res[type(op)] else "false"
            raise TErr("comparison with infinity on the left")
        if a[0] == "ref" and b[0] == "ref" and isinstance(op, (ast.Eq, ast.NotEq)):
            v = self.method(a, "__eq__", [b], cls="Node")
            return v[1] if isinstance(op, ast.Eq) else f"(!{v[1]})"
        if a[0] == b[0] == "bool" and isinstance(op, (ast.Is, ast.Eq)):
            return f"({a[1]} == {b[1]})"
        if a[0] == b[0] == "bool" and isinstance(op, (ast.IsNot, ast.NotEq)):
            return f"({a[1]} != {b[1]})"
        if a[0] == b[0] and a[0] in ("rat", "nat") and type(op) in sym:
            return f"(decide ({a[1]} {sym[type(op)]} {b[1]}))"
        raise TErr(f"comparison {type(op).__name__} of {a[0]} and {b[0]}")

    def find_class(self, name):
        if name == "Vec2":
            return self.vec_class
        for n in self.module.body:
            if isinstance(n, ast.ClassDef) and n.name == name:
                return n
        raise TErr(f"class {name}")

    def method(self, recv, name, args, cls="Vec2"):
        c = self.find_class(cls)
        if c is None:
            raise TErr(f"class {cls} not available")
        fn = next((m for m in c.body if isinstance(m, ast.FunctionDef) and m.name == name), None)
        if fn is None:
            raise TErr(f"method {cls}.{name}")
        names = [a.arg for a in fn.args.args]
        env = dict(zip(names, [recv] + list(args)))
        sub = SymEx(self.module, self.registry, self.vec_class, self.consts, self.nat_mode)
        sub.params, sub.roots, sub.alias = self.params, set(), getattr(self, "alias", {})
        r = sub.run(fn.body, env)
        if r[0] != "ret":
            raise TErr(f"method {cls}.{name} does not return")
        return r[1]

    def call(self, n, env):
        f = n.func
        args = n.args
        if isinstance(f, ast.Attribute) and isinstance(f.value, ast.Name) and f.value.id == "math" and f.attr == "fabs":
            f = ast.Name("abs")
        if isinstance(f, ast.Name):
            if f.id in ("min", "max", "fmin", "fmax"):
                vals = [self.ex(a, env) for a in args]
                if any(v[0] != "rat" for v in vals) or len(vals) < 2:
                    raise TErr("min/max of non-rationals")
                fn = "rmin" if f.id in ("min", "fmin") else "rmax"
                acc = vals[0][1]
                for v in vals[1:]:
                    acc = f"({fn} {acc} {v[1]})"
                return ("rat", acc)
            if f.id in ("abs", "fabs"):
                v = self.ex(args[0], env)
                if v[0] != "rat":
                    raise TErr("abs of non-rational")
                return ("rat", f"(rabs {v[1]})")
            if f.id == "Vec2" and len(args) == 2:
                a, b = self.ex(args[0], env), self.ex(args[1], env)
                if a[0] != "rat" or b[0] != "rat":
                    raise TErr("Vec2() of non-rationals")
                return ("vec", (a[1], b[1]))
            if f.id in self.registry:
                return self.kcall(self.registry[f.id], args, env)
            if f.id in env and env[f.id][0] == "closure":
                fn = env[f.id][1]
                names = [a.arg for a in fn.args.args]
                cenv = dict(env)
                cenv.update(zip(names, [self.ex(a, env) for a in args]))
                r = self.run(fn.body, cenv)
                if r[0] != "ret":
                    raise TErr(f"closure {f.id} does not return")
                return r[1]
            raise TErr(f"call of {f.id}")
        if isinstance(f, ast.Attribute):
            if f.attr == "__class__" and len(args) == 2:  # self.__class__(x, y) inside Vec2 methods
                return self.call(ast.Call(ast.Name("Vec2"), args, []), env)
            if f.attr == "equals" and len(args) == 1:  # Cython spelling of Node.__eq__
                return self.method(self.ex(f.value, env), "equals", [self.ex(args[0], env)], cls="Node")
            recv = self.ex(f.value, env)
            if recv[0] == "vec":
                return self.method(recv, f.attr, [self.ex(a, env) for a in args])
        raise TErr(f"call {ast.unparse(n)[:60]}")

    def kcall(self, k: Kernel, args, env):
        fn_args = k.argnames
        if len(fn_args) != len(args):
            raise TErr(f"arity of {k.pyname}")
        vals = dict(zip(fn_args, [self.ex(a, env) for a in args]))
        out = []
        for path, ty in k.params:
            v = vals.get(path[0])
            if v is None:
                raise TErr(f"kernel {k.pyname}: parameter root {path[0]}")
            for a in path[1:]:
                v = self.attr(v, a)
            if v[0] != ty:
                raise TErr(f"kernel {k.pyname}: argument {'.'.join(path)} has type {v[0]}, expected {ty}")
            out.append(v[1])
        return (k.rtype, "(" + " ".join([k.name] + out) + ")")

    # ---- statements
    def assign(self, target, value, env):
        if isinstance(target, ast.Name):
            if target.id not in self.roots:
                env[target.id] = value
            return
        if isinstance(target, ast.Tuple) and value[0] == "tuple" and len(value[1]) == len(target.elts):
            for t, v in zip(target.elts, value[1]):
                self.assign(t, v, env)
            return
        raise TErr(f"assignment target {ast.unparse(target)[:40]}")

    def run(self, stmts, env):
        """returns ("ret", value) or ("env", env)"""
        env = dict(env)
        for idx, s in enumerate(stmts):
            if isinstance(s, ast.Pass) or (isinstance(s, ast.Expr) and isinstance(s.value, ast.Constant)):
                continue
            if isinstance(s, ast.FunctionDef):
                env[s.name] = ("closure", s)
                continue
            if isinstance(s, (ast.Assign, ast.AnnAssign)):
                tg = s.targets[0] if isinstance(s, ast.Assign) else s.target
                nm = [x.id for x in ast.walk(tg) if isinstance(x, ast.Name)]
                if nm and all(x in self.roots or x == "_" for x in nm):
                    continue  # a declared parameter is (re)bound from something outside the kernel
            if isinstance(s, ast.Assign) and len(s.targets) == 1:
                self.assign(s.targets[0], self.ex(s.value, env), env)
                continue
            if isinstance(s, ast.AnnAssign) and s.value is not None:
                self.assign(s.target, self.ex(s.value, env), env)
                continue
            if isinstance(s, ast.AugAssign) and isinstance(s.target, ast.Name):
                v = self.ex(ast.BinOp(ast.Name(s.target.id), s.op, s.value), env)
                self.assign(s.target, v, env)
                continue
            if isinstance(s, ast.Return):
                return ("ret", self.ex(s.value, env) if s.value is not None else ("none",))
            if isinstance(s, (ast.With, ast.Try)):
                r = self.run(s.body, env)
                if r[0] == "ret":
                    return r
                env = r[1]
                continue
            if isinstance(s, ast.If):
                t = self.tobool(self.ex(s.test, env))
                rest = stmts[idx + 1:]
                r1 = self.run(s.body, env)
                r2 = self.run(s.orelse, env)
                if r1[0] == "env" and r2[0] == "env":
                    merged = dict(env)
                    for k in set(r1[1]) | set(r2[1]):
                        a, b = r1[1].get(k), r2[1].get(k)
                        if a is None or b is None:
                            continue  # defined on one path only: not usable afterwards
                        merged[k] = a if a == b else self.ite(t, a, b)
                    env = merged
                    continue
                # some path returns inside the branch: each branch continues with the remaining statements
                q1 = self.run(list(s.body) + list(rest), env)
                q2 = self.run(list(s.orelse) + list(rest), env)
                if q1[0] == "ret" and q2[0] == "ret":
                    return ("ret", self.ite(t, q1[1], q2[1]))
                return ("partial", t, q1, q2)
            raise TErr(f"statement {type(s).__name__}: {ast.unparse(s)[:60]}")
        return ("env", env)

    @staticmethod
    def need_ret(r):
        if r[0] != "ret":
            raise TErr("a path through the function does not return")
        return r[1]


def strip_cython(src: str) -> str:
    """make the arithmetic part of a .pyx file parseable by `ast` (types are dropped, semantics of the kernels kept)"""
    out = []
    lines = []
    pending = None
    for ln in src.splitlines():  # join multi-line def headers
        if pending is not None:
            pending += " " + ln.strip()
            if re.search(r"\)\s*(->\s*[^:]+)?:\s*$", ln):
                lines.append(re.sub(r",\s*\)", ")", pending))
                pending = None
            continue
        if re.match(r"^\s*(cdef|cpdef|def)\s.*\(\s*$", ln) and not ln.strip().startswith("cdef class"):
            pending = ln.rstrip()
            continue
        lines.append(ln)
    i = 0
    ctype = r"(?:const\s+)?(?:unsigned\s+)?(?:double|int|bint|long|float|object|list|tuple|Py_ssize_t|Node|Vec2|Vec3)\s*\*?"
    lines = [re.sub(r"<\s*\w+\s*>\s*(?=[\w(])", "", ln) for ln in lines]
    while i < len(lines):
        ln = lines[i]
        m = re.match(r"^(\s*)cdef\s*:\s*$", ln)
        if m:
            ind = len(m.group(1))
            i += 1
            while i < len(lines) and (not lines[i].strip() or len(lines[i]) - len(lines[i].lstrip()) > ind):
                body = lines[i].strip()
                mm = re.match(rf"^{ctype}\s*(\w+\s*=.*)$", body)
                if mm:
                    out.append(" " * ind + mm.group(1))
                i += 1
            continue
        if re.match(r"^\s*(cimport|from\s+\S+\s+cimport)", ln):
            if "(" in ln and ")" not in ln:
                while i < len(lines) and ")" not in lines[i]:
                    i += 1
            out.append("pass")
            i += 1
            continue
        if re.match(r"^\s*cdef extern", ln):
            i += 1
            while i < len(lines) and (not lines[i].strip() or lines[i][0] in " \t"):
                i += 1
            out.append("pass")
            continue
        m = re.match(rf"^(\s*)cdef\s+{ctype}\s*(\w+)\s*=(.*)$", ln)
        if m:
            out.append(f"{m.group(1)}{m.group(2)} =" + re.sub(r",\s*(\w+\s*=)", r"; \1", m.group(3)))
            i += 1
            continue
        if re.match(rf"^\s*cdef\s+{ctype}\s*[\w, ]+$", ln) or re.match(r"^\s*(cimport|from\s+\S+\s+cimport|cdef extern)", ln):
            out.append(re.match(r"^\s*", ln).group(0) + "pass")
            i += 1
            continue
        m = re.match(r"^(\s*)(?:cdef|cpdef)\s+(?:inline\s+)?(?:[\w\[\]]+\s+)?(\w+)\((.*)$", ln)
        if m and not ln.strip().startswith("cdef class"):
            ln = f"{m.group(1)}def {m.group(2)}({m.group(3)}"
        ln = re.sub(r"^(\s*)cdef class", r"\1class", ln)
        ln = re.sub(r"\b__cinit__\b", "__init__", ln)
        # typed parameters in def lines
        md = re.match(r"^(\s*def\s+\w+)\((.*)\)\s*(?:->.*)?:\s*$", ln)
        if md:
            params, depth, cur = [], 0, ""
            for ch in md.group(2):
                if ch in "([":
                    depth += 1
                elif ch in ")]":
                    depth -= 1
                if ch == "," and depth == 0:
                    params.append(cur)
                    cur = ""
                else:
                    cur += ch
            if cur.strip():
                params.append(cur)
            clean = []
            for prm in params:
                prm = prm.strip()
                default = ""
                if "=" in prm:
                    prm, default = prm.split("=", 1)
                    default = "=" + default.strip()
                prm = prm.split(":")[0].strip()
                prm = re.sub(rf"^{ctype}\s*(?=\w)", "", prm) if " " in prm else prm
                clean.append(prm.split()[-1] + default if prm not in ("*",) else "*")
            ln = f"{md.group(1)}({', '.join(clean)}):"
        ln = re.sub(r"<\w+>\s*", "", ln)
        out.append(ln)
        i += 1
    return "\n".join(out) + "\n"


def parse_source(src: str, pyx: bool):
    if not pyx:
        return ast.parse(src)
    s = strip_cython(src)
    try:
        return ast.parse(s)
    except SyntaxError:
        # fall back: parse function by function, keep what parses (kernels that are needed and missing raise later)
        mod = ast.Module([], [])
        chunks = re.split(r"(?m)^(?=def |class )", s)
        for ch in chunks:
            try:
                mod.body += ast.parse(ch).body
            except SyntaxError:
                continue
        return mod


def find_func(mod, dotted: str):
    cur = mod
    for part in dotted.split("."):
        nxt = None
        for n in ast.walk(cur):
            if n is not cur and isinstance(n, (ast.FunctionDef, ast.ClassDef)) and n.name == part:
                nxt = n
                break
        if nxt is None:
            raise TErr(f"definition {dotted} not found")
        cur = nxt
    return cur


class Unit:
    """kernels of one source file"""

    def __init__(self, ctx, rel, vec_class=None, suffix="", pyx=False):
        self.rel, self.suffix = rel, suffix
        self.mod = parse_source(ctx.src(rel), pyx)
        self.vec_class = vec_class
        self.registry: dict = {}
        self.consts = {}
        for n in self.mod.body:
            if isinstance(n, ast.Assign) and len(n.targets) == 1 and isinstance(n.targets[0], ast.Name) and isinstance(n.value, ast.Constant):
                self.consts[n.targets[0].id] = n.value.value
        self.kernels: list[Kernel] = []

    def sym(self, params, nat_mode=False, subst=None):
        sx = SymEx(self.mod, self.registry, self.vec_class, self.consts, nat_mode)
        sx.alias = {}
        subst = dict(subst or {})
        for k in [k for k in subst if k.startswith("alias:")]:
            sx.alias[tuple(k[6:].split("."))] = tuple(subst.pop(k).split("."))
        sx.params = {p: t for p, t in params}
        sx.roots = {p[0] for p, _ in params}
        sx.subst = subst or {}
        return sx

    def add(self, k: Kernel, pyname=None, argnames=None):
        k.name += self.suffix
        k.pyname, k.argnames = pyname, argnames
        self.kernels.append(k)
        if pyname:
            self.registry[pyname] = k
        return k

    def value_text(self, v, rtype):
        if rtype == "optvec":
            return SymEx.optvec(None, v)
        if rtype == "bool" and v[0] in ("rat", "nat"):
            return SymEx.tobool(None, v)
        if v[0] != rtype:
            raise TErr(f"result type {v[0]}, expected {rtype}")
        return v[1]

    def func(self, lean_name, dotted, spec, rtype="rat", register=True, nat_mode=False, subst=None, pre=None):
        """whole function -> kernel"""
        fn = find_func(self.mod, dotted)
        params = parse_params(spec)
        sx = self.sym(params, nat_mode, subst)
        r = sx.run(fn.body, dict(pre or {}))
        v = SymEx.need_ret(r)
        k = Kernel(lean_name, params, rtype, self.value_text(v, rtype))
        argnames = [a.arg for a in fn.args.args if a.arg != "self"]
        return self.add(k, dotted.split(".")[-1] if register else None, argnames)

    def expr(self, lean_name, dotted, pick, spec, rtype="bool", subst=None, nat_mode=False, inf=None, extra_env=None):
        """one expression inside a function (a loop-body condition, a formula) under the local assignments preceding it"""
        fn = find_func(self.mod, dotted)
        params = parse_params(spec)
        sx = self.sym(params, nat_mode, subst)
        target = pick(fn)
        if target is None:
            raise TErr(f"{dotted}: expression for {lean_name} not found")
        env = {}
        for n in fn.body:
            if isinstance(n, ast.FunctionDef):
                env[n.name] = ("closure", n)
        for n in sorted((m for m in ast.walk(fn) if isinstance(m, (ast.Assign, ast.AnnAssign)) and m.lineno < target.lineno),
                        key=lambda m: (m.lineno, m.col_offset)):
            tgt = n.targets[0] if isinstance(n, ast.Assign) else n.target
            if n.value is None:
                continue
            try:
                sx.assign(tgt, sx.ex(n.value, env), env)
            except TErr:
                for nm in ast.walk(tgt):
                    if isinstance(nm, ast.Name):
                        env.pop(nm.id, None)
        for k_, v_ in (inf or {}).items():
            env[k_] = ("inf", v_)
        env.update(extra_env or {})
        v = sx.ex(target, env)
        return self.add(Kernel(lean_name, params, rtype, self.value_text(v, rtype)))


def nth(kind, i, must=None, attr=None):
    """pick the i-th node of a kind (source order) inside a function; optionally one of its fields"""

    def pick(fn):
        nodes = sorted((n for n in ast.walk(fn) if isinstance(n, kind) and n is not fn), key=lambda n: (n.lineno, n.col_offset))
        if i >= len(nodes):
            return None
        n = nodes[i]
        if attr:
            n = getattr(n, attr)
        if must and must not in ast.unparse(n):
            raise TErr(f"expected {must!r} in {ast.unparse(n)[:80]!r}")
        return n

    return pick


PRELUDE = """
set_option linter.unusedVariables false
namespace EzdxfVerif.Gen.PolygonKernels

/-- Python `min(a, b)` / C `fmin` on rationals (first minimal argument) -/
def rmin (a b : Rat) : Rat := if b < a then b else a
/-- Python `max(a, b)` / C `fmax` -/
def rmax (a b : Rat) : Rat := if b > a then b else a
/-- Python `abs` / `math.fabs` -/
def rabs (a : Rat) : Rat := if a < 0 then -a else a

"""

NODE3 = "{0}.x {0}.y"


def pts(*names):
    return " ".join(NODE3.format(n) for n in names)


def translate_all(ctx) -> str:
    vec_mod = ast.parse(ctx.src("src/ezdxf/math/_vector.py"))
    vec_class = next(n for n in vec_mod.body if isinstance(n, ast.ClassDef) and n.name == "Vec2")
    out = [PRELUDE]

    # ------------------------------------------------------------------ earcut (.py and .pyx twins)
    def earcut_unit(rel, suffix, pyx):
        u = Unit(ctx, rel, vec_class, suffix, pyx)
        u.expr("signedAreaTerm", "signed_area", nth(ast.AugAssign, 0, attr="value"),
               "prev.x prev.y point.x point.y" if not pyx else "prev_x prev_y point_x point_y", "rat")
        u.func("area", "area", pts("p", "q", "r"))
        u.func("sign", "sign", "num")
        u.func("onSegment", "on_segment", pts("p", "q", "r"), "bool")
        u.func("intersects", "intersects", pts("p1", "q1", "p2", "q2"), "bool")
        u.func("pointInTriangle", "point_in_triangle", "ax ay bx " + ("by_" if pyx else "by") + " cx cy px py", "bool")
        u.func("locallyInside", "locally_inside", pts("a.prev", "a", "a.next", "b"), "bool")
        u.func("sectorContainsSector", "sector_contains_sector", pts("m.prev", "m", "m.next", "p.prev", "p.next"), "bool")
        return u

    py = earcut_unit("src/ezdxf/math/_mapbox_earcut.py", "", False)
    px = earcut_unit("src/ezdxf/acc/mapbox_earcut.pyx", "_pyx", True)
    E = py
    E.func("nodeEq", "Node.__eq__", pts("self", "other"), "bool", register=False)
    E.expr("sameWinding", "linked_list", nth(ast.If, 0, "signed_area", attr="test"), "ccw:bool s", "bool",
           subst={"signed_area(points)": "s"})
    E.expr("isEarReflex", "is_ear", nth(ast.If, 0, "area(a, b, c)", attr="test"), pts("a", "b", "c"))
    E.expr("isEarBlocked", "is_ear", nth(ast.If, 1, "point_in_triangle", attr="test"),
           pts("a", "b", "c", "p.prev", "p", "p.next"))
    E.expr("filterRemovable", "filter_points", nth(ast.If, 2, "steiner", attr="test"),
           "p.steiner:bool " + pts("p.prev", "p", "p.next"))
    E.expr("leftmostLess", "get_leftmost", nth(ast.If, 0, "leftmost", attr="test"), pts("p", "leftmost"))
    E.expr("midToggle", "middle_inside", nth(ast.If, 0, "px <", attr="test"), pts("a", "b", "p", "p.next"))
    E.expr("intersectsPolygonEdge", "intersects_polygon", nth(ast.If, 0, "intersects(", attr="test"),
           "a.i:nat b.i:nat p.i:nat p.next.i:nat " + pts("a", "b", "p", "p.next"))
    E.func("validDiagonal", "is_valid_diagonal",
           "a.next.i:nat a.prev.i:nat b.i:nat crosses:bool middle:bool " + pts("a.prev", "a", "a.next", "b.prev", "b", "b.next"),
           "bool", register=False, subst={"intersects_polygon(a, b)": "crosses", "middle_inside(a, b)": "middle"})
    E.expr("cureTest", "cure_local_intersections", nth(ast.If, 0, "intersects(", attr="test"),
           pts("a.prev", "a", "p", "p.next", "b", "b.next"),
           subst={"alias:a.next": "p", "alias:b.prev": "p.next"})
    E.expr("splitCandidate", "split_ear_cut", nth(ast.If, 0, "is_valid_diagonal", attr="test"), "a.i:nat b.i:nat valid:bool",
           subst={"is_valid_diagonal(a, b)": "valid"})
    # find_hole_bridge: the two early returns for a hole point that is a vertex of the outer ring (fix 6e5a41fe8) are part of
    # the hand model (`nodeEq`); their shape is checked here
    fhb = find_func(E.mod, "find_hole_bridge")
    ifs = sorted((n for n in ast.walk(fhb) if isinstance(n, ast.If)), key=lambda n: (n.lineno, n.col_offset))
    if [ast.unparse(n) for n in ifs[:2]][0] != "if hole == p:\n    return p" or not ast.unparse(ifs[1]).startswith("if hole == p.next:\n    return p.next"):
        raise TErr("find_hole_bridge: vertex-coincidence returns changed: " + ast.unparse(ifs[0])[:60] + " / " + ast.unparse(ifs[1])[:60])
    # find_hole_bridge, first loop
    E.expr("bridgeHit", "find_hole_bridge", nth(ast.If, 2, "hy", attr="test"), "hy " + pts("p", "p.next"),
           subst={"hole.y": "hy", "hole.x": "hx"})
    E.expr("bridgeX", "find_hole_bridge", lambda fn: nth(ast.If, 2, "hy")(fn).body[0].value, "hy " + pts("p", "p.next"), "rat",
           subst={"hole.y": "hy", "hole.x": "hx"})
    E.expr("bridgeAccept", "find_hole_bridge", nth(ast.If, 3, "qx", attr="test"), "hx x qx",
           subst={"hole.y": "hy", "hole.x": "hx"}, extra_env={})
    E.expr("bridgeAcceptFirst", "find_hole_bridge", nth(ast.If, 3, "qx", attr="test"), "hx x",
           subst={"hole.y": "hy", "hole.x": "hx"}, inf={"qx": -1})
    E.expr("bridgePickP", "find_hole_bridge", lambda fn: nth(ast.If, 3, "qx")(fn).body[1].value.test, pts("p", "p.next"))
    E.expr("bridgeTouch", "find_hole_bridge", nth(ast.If, 4, "x == hx", attr="test"), "x hx",
           subst={"hole.x": "hx"})
    # the hole point lies on a segment of the outer ring that the ray does not intersect (fix 13723478a and its generalisation):
    # `elif touch is None and area(p, hole, p.next) == 0 and on_segment(p, hole, p.next): touch = <leftmost end point>`,
    # used after the loop when no early return happened
    def on_seg_test(fn):
        t = nth(ast.If, 2, "hy")(fn).orelse[0].test
        if not (isinstance(t, ast.BoolOp) and isinstance(t.op, ast.And) and ast.unparse(t.values[0]) == "touch is None"):
            raise TErr("find_hole_bridge: `touch is None and ...` expected")
        return ast.copy_location(ast.BoolOp(ast.And(), t.values[1:]), t)

    E.expr("bridgeOnSegment", "find_hole_bridge", on_seg_test, pts("hole", "p", "p.next"))
    touch_assign = nth(ast.If, 2, "hy")(fhb).orelse[0].body[0]
    if ast.unparse(touch_assign) != "touch = p if p.x < p.next.x else p.next":
        raise TErr("find_hole_bridge: assignment of the on-segment branch changed")
    E.expr("bridgePickPH", "find_hole_bridge", lambda fn: nth(ast.If, 2, "hy")(fn).orelse[0].body[0].value.test, pts("p", "p.next"))
    after = [ast.unparse(n) for n in fhb.body if isinstance(n, ast.If)]
    if after[:3] != ["if hole == p:\n    return p", "if touch is not None:\n    return touch", "if m is None:\n    return None"]:
        raise TErr("find_hole_bridge: top-level tests changed: " + repr(after[:3]))
    # second loop
    hb = {"hole.y": "hy", "hole.x": "hx", "m.x": "mx", "m.y": "my"}
    E.expr("bridgeCand", "find_hole_bridge", nth(ast.If, 9, "point_in_triangle", attr="test"), "hx hy qx mx my " + pts("p"))
    E.expr("bridgeTan", "find_hole_bridge", lambda fn: nth(ast.If, 9, "point_in_triangle")(fn).body[0].value, "hx hy " + pts("p"), "rat")
    better = "tan tan_min " + pts("p.prev", "p", "p.next", "hole", "m.prev", "m", "m.next")
    E.expr("bridgeBetter", "find_hole_bridge", nth(ast.If, 10, "locally_inside", attr="test"), better)
    E.expr("bridgeBetterFirst", "find_hole_bridge", nth(ast.If, 10, "locally_inside", attr="test"),
           better.replace("tan_min ", ""), inf={"tan_min": 1})
    E.expr("hashThreshold", "earcut", lambda fn: next(n for n in ast.walk(fn) if isinstance(n, ast.Compare) and "len(exterior) >" in ast.unparse(n)).comparators[0],
           "", "rat")
    out.append(f"/-! ## kernels of {py.rel} -/\n")
    out += [k.lean() for k in py.kernels]
    out.append(f"/-! ## the same kernels of the Cython twin {px.rel} (proved equal in Props/C19) -/\n")
    out += [k.lean() for k in px.kernels]

    # ------------------------------------------------------------------ construct (.py and .pyx twins)
    def construct_unit(rel, suffix, pyx):
        u = Unit(ctx, rel, vec_class, suffix, pyx)
        u.func("lineLine", "intersection_line_line_2d", "virtual:bool abs_tol " + pts("s1", "s2", "c1", "c2"), "optvec",
               register=False, subst={"line1[0]": "s1", "line1[1]": "s2", "line2[0]": "c1", "line2[1]": "c2"},
               )
        u.expr("cwTerm", "has_clockwise_orientation",
               (lambda fn: next(n for n in ast.walk(fn) if isinstance(n, ast.AugAssign)).value) if pyx else
               (lambda fn: next(n for n in ast.walk(fn) if isinstance(n, ast.GeneratorExp)).elt), pts("p1", "p2"), "rat")
        def on_edge(fn):
            outer, inner = nth(ast.If, 3, "<= x <=", attr="test")(fn), nth(ast.If, 4, "abs_tol", attr="test")(fn)
            if ast.unparse(nth(ast.If, 4)(fn).body[0]) != "return 0":
                raise TErr("is_point_in_polygon_2d: boundary branch changed")
            return ast.copy_location(ast.BoolOp(ast.And(), [outer, inner]), inner)

        u.expr("pipOnEdge", "is_point_in_polygon_2d", on_edge, "x y x1 y1 x2 y2 abs_tol")
        u.expr("pipToggle", "is_point_in_polygon_2d", nth(ast.If, 5, "y < y2", attr="test"), "x y x1 y1 x2 y2")
        return u

    cpy = construct_unit("src/ezdxf/math/_construct.py", "", False)
    cpx = construct_unit("src/ezdxf/acc/construct.pyx", "_pyx", True)
    cpy.expr("cwPositive", "has_clockwise_orientation", lambda fn: next(n for n in ast.walk(fn) if isinstance(n, ast.Return)).value,
             "s", "bool", subst={ast.unparse(next(n for n in ast.walk(find_func(cpy.mod, "has_clockwise_orientation")) if isinstance(n, ast.Call) and isinstance(n.func, ast.Name) and n.func.id == "sum")): "s"})
    tol = cpy.consts.get("TOLERANCE")
    if not isinstance(tol, float):
        raise TErr("_construct.TOLERANCE")
    out.append(f"/-! ## kernels of {cpy.rel} -/\n")
    out += [k.lean() for k in cpy.kernels]
    out.append(f"def tolerance : Rat := {ratlit(tol)}\n")
    out.append(f"/-! ## twin kernels of {cpx.rel} -/\n")
    out += [k.lean() for k in cpx.kernels]

    # ------------------------------------------------------------------ clipping.py
    C = Unit(ctx, "src/ezdxf/math/clipping.py", vec_class)
    side = pts("clip_start", "clip_end", "point")
    C.func("shInside", "ConvexClippingPolygon2d.clip_polygon.is_inside", side, "bool", register=False)
    C.func("shInsideLine", "ConvexClippingPolygon2d.clip_line.is_inside", side, "bool", register=False)
    win = "self.x_min self.x_max self.y_min self.y_max"
    C.func("csEncode", "CohenSutherlandLineClipping2d.encode", "x y " + win, "nat", register=False, nat_mode=True)
    out.append(f"/-! ## kernels of {C.rel} -/\n")
    out += [k.lean() for k in C.kernels]
    out.append(cs_kernels(C, win))
    if C.consts.get("TOLERANCE") is not None:
        raise TErr("clipping.TOLERANCE is expected to be imported from ezdxf.math")
    out.append(concave_fallback_kernel(C))
    out.append(gh_kernels(C))

    # ------------------------------------------------------------------ construct2d.py, _vector.py
    H = Unit(ctx, "src/ezdxf/math/construct2d.py", vec_class)
    H.func("hullCross", "convex_hull_2d.cross", pts("o", "a", "b"), "rat", register=True)
    H.expr("hullPop", "convex_hull_2d", nth(ast.While, 0, "cross(", attr="test"), pts("o", "a", "b"), "bool",
           subst={"hull[k - 2]": "o", "hull[k - 1]": "a", "vertices[i]": "b", "k >= 2": ("bool", "true")})
    H.expr("hullPopUpper", "convex_hull_2d", nth(ast.While, 1, "cross(", attr="test"), pts("o", "a", "b"), "bool",
           subst={"hull[k - 2]": "o", "hull[k - 1]": "a", "vertices[i]": "b", "k >= t": ("bool", "true")})
    # is_convex_polygon_2d: the determinant of a corner, the significance test, the sign; the loop itself is hand-modelled
    # (Model.Polygon.isConvexPolygon), its statement structure is compared with the text the model was written against
    icp = find_func(H.mod, "is_convex_polygon_2d")
    icp_for = next(n for n in icp.body if isinstance(n, ast.For))
    det_assign = next(n for n in icp_for.body if isinstance(n, ast.Assign) and ast.unparse(n.targets[0]) == "det")
    sig_if = next(n for n in icp_for.body if isinstance(n, ast.If) and "det" in ast.unparse(n.test))
    sign_assign = sig_if.body[0]
    if not (isinstance(sign_assign, ast.Assign) and ast.unparse(sign_assign.targets[0]) == "current_sign"):
        raise TErr("is_convex_polygon_2d: sign assignment expected")
    H.expr("convexDet", "is_convex_polygon_2d", lambda fn: det_assign.value, pts("prev", "vertex", "prev_prev"), "rat")
    H.expr("convexSignificant", "is_convex_polygon_2d", lambda fn: sig_if.test, "det epsilon", "bool")
    H.expr("convexSign", "is_convex_polygon_2d", lambda fn: sign_assign.value, "det", "rat")
    body_txt = "\n".join(ast.unparse(n) for n in icp.body if not (isinstance(n, ast.Expr) and isinstance(n.value, ast.Constant)))
    for node, ph in ((det_assign.value, "<DET>"), (sig_if.test, "<SIG>"), (sign_assign.value, "<SIGN>")):
        body_txt = body_txt.replace(ast.unparse(node), ph, 1)
    if body_txt != CONVEX_TEMPLATE:
        raise TErr("is_convex_polygon_2d: statement structure differs from the modelled one:\n" + body_txt)
    V = Unit(ctx, "src/ezdxf/math/_vector.py", vec_class)
    V.func("vecLt", "Vec2.__lt__", "self.x self.y x y", "bool", register=False)
    iscl = next(m for m in vec_class.body if isinstance(m, ast.FunctionDef) and m.name == "isclose")
    kw = {a.arg: d.value for a, d in zip(iscl.args.kwonlyargs, iscl.args.kw_defaults)}
    out.append(f"/-! ## kernels of {H.rel} and {V.rel} -/\n")
    out += [k.lean() for k in H.kernels + V.kernels]
    out.append(f"def iscloseRelTol : Rat := {ratlit(kw['rel_tol'])}\ndef iscloseAbsTol : Rat := {ratlit(kw['abs_tol'])}\n")
    out.append("\nend EzdxfVerif.Gen.PolygonKernels\n")
    return "\n".join(out)


GH_PHASE2 = """s_entry ^= is_inside_polygon(self.first.vtx, clip)
for subject_vertex in self:
    if subject_vertex.intersect:
        subject_vertex.entry = s_entry
        s_entry = not s_entry
c_entry ^= is_inside_polygon(clip.first.vtx, self)
for clipper_vertex in clip:
    if clipper_vertex.intersect:
        clipper_vertex.entry = c_entry
        c_entry = not c_entry"""

GH_PHASE3_STEP = """if current.entry:
    while True:
        current = current.next
        clipped.append(current.vtx)
        if current.intersect:
            break
else:
    while True:
        current = current.prev
        clipped.append(current.vtx)
        if current.intersect:
            break"""


def gh_kernels(C: Unit) -> str:
    """Greiner-Hormann: the (s_entry, c_entry) arguments of the three operations; the statements of phase 2 (entry/exit marking)
    and the walking rule of phase 3 are compared with the text Model.Polygon.ghMark / ghUsedGo were written against"""
    ops = {}
    for name in ("union", "intersection", "difference"):
        fn = find_func(C.mod, "GHPolygon." + name)
        ret = next(n for n in ast.walk(fn) if isinstance(n, ast.Return))
        call = ret.value
        if not (isinstance(call, ast.Call) and ast.unparse(call.func) == "self.clip" and len(call.args) == 3 and ast.unparse(call.args[0]) == "clip"
                and all(isinstance(a, ast.Constant) and isinstance(a.value, bool) for a in call.args[1:])):
            raise TErr(f"GHPolygon.{name}: `return self.clip(clip, <bool>, <bool>)` expected")
        ops[name] = (call.args[1].value, call.args[2].value)
    fn = find_func(C.mod, "GHPolygon.clip")
    body = [n for n in fn.body if not (isinstance(n, ast.Expr) and isinstance(n.value, ast.Constant))]
    # phase 1 = first For; phase 2 = the next four statements; phase 3 = the rest
    i = next(k for k, n in enumerate(body) if isinstance(n, ast.For))
    phase2 = "\n".join(ast.unparse(n) for n in body[i + 1: i + 5])
    if phase2 != GH_PHASE2:
        raise TErr("GHPolygon.clip: phase 2 (entry/exit marking) differs from the modelled statements:\n" + phase2)
    step = next((n for n in ast.walk(fn) if isinstance(n, ast.If) and ast.unparse(n.test) == "current.entry"), None)
    if step is None or ast.unparse(step) != GH_PHASE3_STEP:
        raise TErr("GHPolygon.clip: the walking rule of phase 3 differs from the modelled one")
    b = lambda v: "true" if v else "false"
    return "\n/-- `(s_entry, c_entry)` passed to `GHPolygon.clip` by union / intersection / difference -/\n" + "".join(
        f"def gh{k.capitalize()} : Bool × Bool := ({b(v[0])}, {b(v[1])})\n" for k, v in ops.items())


def concave_fallback_kernel(C: Unit) -> str:
    """ConcaveClippingPolygon2d.clip_polygon, the branch taken when Greiner-Hormann returns no part (after fix c773d3f04): the
    decision "subject is outside" as a function of the point-in-polygon codes of the subject vertices (in vertex order) and of the
    mid points of the subject edges"""
    fn = find_func(C.mod, "ConcaveClippingPolygon2d.clip_polygon")
    branch = next((n for n in fn.body if isinstance(n, ast.If) and ast.unparse(n.test) == "len(result) == 0"), None)
    if branch is None:
        raise TErr("ConcaveClippingPolygon2d.clip_polygon: `if len(result) == 0` expected")
    stm = [n for n in branch.body if not isinstance(n, ast.Expr)]
    PIP = "is_point_in_polygon_2d(%s, self._clipping_polygon, abs_tol=abs_tol)"
    ops = {ast.Lt: "<", ast.LtE: "≤", ast.Gt: ">", ast.GtE: "≥", ast.Eq: "=", ast.NotEq: "≠"}

    def cmp_of(e, left_txt):
        """`<left_txt> OP const` -> Lean predicate text on the code `c`"""
        if not (isinstance(e, ast.Compare) and len(e.ops) == 1 and type(e.ops[0]) in ops and ast.unparse(e.left) == left_txt):
            raise TErr("concave fall-back: comparison of a point-in-polygon code expected: " + ast.unparse(e)[:80])
        k = ast.literal_eval(e.comparators[0])
        if not isinstance(k, int):
            raise TErr("concave fall-back: integer constant expected")
        return f"decide (c {ops[type(e.ops[0])]} ({k} : Int))"

    def quant(e, iter_txt, elem_txt, lean_list):
        """any/all over a generator, or a test of one element -> Lean Bool over `lean_list`"""
        if isinstance(e, ast.Call) and isinstance(e.func, ast.Name) and e.func.id in ("any", "all") and len(e.args) == 1 \
                and isinstance(e.args[0], ast.GeneratorExp):
            g = e.args[0]
            if len(g.generators) != 1 or ast.unparse(g.generators[0].iter) != iter_txt or g.generators[0].ifs:
                raise TErr(f"concave fall-back: generator over `{iter_txt}` expected: " + ast.unparse(e)[:100])
            var = ast.unparse(g.generators[0].target)
            return f"{lean_list}.{e.func.id} (fun c => {cmp_of(g.elt, elem_txt(var))})"
        if isinstance(e, ast.Compare):  # a test of one element only, e.g. locations[0] / pip(vertices[0])
            import re
            left = ast.unparse(e.left)
            for pat in (r"locations\[(-?\d+)\]", re.escape(PIP).replace("%s", r"vertices\[(-?\d+)\]")):
                m = re.fullmatch(pat, left)
                if m and lean_list == "codes":
                    k = int(m.group(1))
                    pick = f"codes.getD {k} 1" if k >= 0 else f"codes.reverse.getD {-k - 1} 1"
                    return f"(fun (c : Int) => {cmp_of(e, left)}) ({pick})"
        raise TErr("concave fall-back: unsupported decision expression: " + ast.unparse(e)[:100])

    # modelled shape (fix c773d3f04):
    #   locations = [PIP(v) for v in vertices]
    #   is_outside = <Q1 over locations>
    #   if not is_outside and not any(locations): is_outside = <Q2 over the mid points of the edges>
    #   if is_outside: return tuple()
    #   return (vertices,)
    # also accepted (older / simplified shapes):  is_outside = <Q over pip(v) for v in vertices>  |  if <Q>: return tuple()
    txt = [ast.unparse(n) for n in stm]
    if len(stm) == 5 and txt[0] == "locations = [" + PIP % "v" + " for v in vertices]" and isinstance(stm[1], ast.Assign) \
            and txt[1].startswith("is_outside = ") and isinstance(stm[2], ast.If) \
            and ast.unparse(stm[2].test) == "not is_outside and (not any(locations))" and len(stm[2].body) == 1 \
            and ast.unparse(stm[2].body[0]).startswith("is_outside = ") and not stm[2].orelse:
        q1 = quant(stm[1].value, "locations", lambda var: var, "codes")
        q2 = quant(stm[2].body[0].value, "zip(vertices, vertices[1:] + vertices[:1])", lambda var: PIP % "a.lerp(b)", "mids")
        if ast.unparse(stm[2].body[0].value.args[0].generators[0].target) != "(a, b)":
            raise TErr("concave fall-back: `for a, b in zip(...)` expected")
        body = f"let o := {q1}\n  if !o && !(codes.any (fun c => decide (c ≠ 0))) then {q2} else o"
        iff, ret = stm[3], stm[4]
    elif len(stm) == 3 and isinstance(stm[0], ast.Assign) and isinstance(stm[1], ast.If) and \
            ast.unparse(stm[1].test) == ast.unparse(stm[0].targets[0]):
        body = quant(stm[0].value, "vertices", lambda var: PIP % var, "codes")
        iff, ret = stm[1], stm[2]
    elif len(stm) == 2 and isinstance(stm[0], ast.If):
        body = quant(stm[0].test, "vertices", lambda var: PIP % var, "codes")
        iff, ret = stm[0], stm[1]
    else:
        raise TErr("concave fall-back: unexpected statement structure: " + " | ".join(t[:60] for t in txt))
    if not isinstance(iff, ast.If) or ast.unparse(iff.body[-1]) != "return tuple()" or iff.orelse or ast.unparse(ret) != "return (vertices,)":
        raise TErr("concave fall-back: returns changed")
    return ("\n/-- `ConcaveClippingPolygon2d.clip_polygon` when Greiner-Hormann returns no part: `is_outside` as a function of the\n"
            "codes `is_point_in_polygon_2d(v, clipping_polygon)` of the subject vertices and of the mid points of the subject edges -/\n"
            f"def concaveFallbackOutside (codes mids : List Int) : Bool :=\n  {body}\n")


def cs_kernels(C: Unit, win: str) -> str:
    """Cohen-Sutherland: bit constants, accept/reject/pick tests, the clipped point and the handled bit of one loop iteration,
    the masking of already handled outcode bits"""
    fn = find_func(C.mod, "CohenSutherlandLineClipping2d.clip_line")
    loop = next(n for n in ast.walk(fn) if isinstance(n, ast.While))
    if ast.unparse(loop.test) != "True":
        raise TErr("clip_line: `while True` expected")
    body = loop.body
    # shape: if accept: return ..; if reject: return ..; code = ..; bit = 0; if/elif chain; if code == code0: ... else: ...
    if not (len(body) == 6 and isinstance(body[0], ast.If) and isinstance(body[1], ast.If) and isinstance(body[2], ast.Assign)
            and ast.unparse(body[3]) == "bit = 0" and isinstance(body[4], ast.If) and isinstance(body[5], ast.If)):
        raise TErr("clip_line: unexpected loop body shape")
    acc_ret, rej_ret = ast.unparse(body[0].body[-1]), ast.unparse(body[1].body[-1])
    if acc_ret.replace("(", "").replace(")", "") != "return Vec2x0, y0, Vec2x1, y1" or rej_ret != "return tuple()":
        raise TErr(f"clip_line: accept/reject returns changed: {acc_ret!r} {rej_ret!r}")
    upd = body[5]
    shape = lambda e: (f"if code == code0:\n    x0 = x\n    y0 = y\n    done0 |= bit\n    code0 = {e('0')}\n"
                       f"else:\n    x1 = x\n    y1 = y\n    done1 |= bit\n    code1 = {e('1')}")
    if ast.unparse(upd) != shape(lambda k: f"self.encode(x{k}, y{k}) & ~done{k}"):
        raise TErr("clip_line: endpoint update changed: " + ast.unparse(upd))
    pre_txt = [ast.unparse(s_) for s_ in fn.body if isinstance(s_, ast.Assign)]
    if pre_txt != ["x0, y0 = p0", "x1, y1 = p1", "code0 = self.encode(x0, y0)", "code1 = self.encode(x1, y1)", "x = x0", "y = y0",
                   "done0 = 0", "done1 = 0"]:
        raise TErr("clip_line: prologue changed: " + repr(pre_txt))
    bits = {k: C.consts[k] for k in ("LEFT", "RIGHT", "BOTTOM", "TOP")}
    params = parse_params("code0:nat code1:nat")
    sx = C.sym(params, nat_mode=True)
    accept = sx.tobool(sx.ex(body[0].test, {}))
    reject = sx.tobool(sx.ex(body[1].test, {}))
    pick = sx.ex(body[2].value, {})
    p2 = parse_params("code:nat x y x0 y0 x1 y1 " + win)
    sx2 = C.sym(p2, nat_mode=True)
    sx2.roots = {p[0] for p, _ in p2} - {"x", "y"}
    sx2.consts = {}
    natc = {k: ("nat", str(v)) for k, v in bits.items()}
    env0 = {"x": ("rat", "x"), "y": ("rat", "y"), "bit": ("nat", "0"), **natc}
    r = sx2.run([body[4]], env0)
    if r[0] != "env":
        raise TErr("clip_line: if-chain returns")
    nx, ny, nb = r[1]["x"], r[1]["y"], r[1]["bit"]
    ps2 = " ".join(f"({flat(p)} : {LEAN_TYPES[t]})" for p, t in p2)
    # code0 = self.encode(x0, y0) & ~done0   and   done0 |= bit
    sx3 = C.sym(parse_params("enc:nat done:nat bit:nat"), nat_mode=True)
    mexpr = upd.body[3].value
    if not (isinstance(mexpr, ast.BinOp) and isinstance(mexpr.op, ast.BitAnd) and isinstance(mexpr.right, ast.UnaryOp)
            and isinstance(mexpr.right.op, ast.Invert) and ast.unparse(mexpr.right.operand) == "done0"):
        raise TErr("clip_line: masking expression changed")
    # for natural numbers  a & ~d  =  a xor (a & d)
    mask_txt = "(enc ^^^ (enc &&& done))"
    done_v = sx3.ex(ast.BinOp(ast.Name("done"), upd.body[2].op, ast.Name("bit")), {})
    return (
        "".join(f"def cs{k.capitalize()} : Nat := {v}\n" for k, v in bits.items())
        + f"\ndef csAccept (code0 code1 : Nat) : Bool :=\n  {accept}\n"
        + f"\ndef csReject (code0 code1 : Nat) : Bool :=\n  {reject}\n"
        + f"\ndef csPick (code0 code1 : Nat) : Nat :=\n  {pick[1]}\n"
        + f"\ndef csClipX {ps2} : Rat :=\n  {nx[1]}\n"
        + f"\ndef csClipY {ps2} : Rat :=\n  {ny[1]}\n"
        + f"\n/-- `bit`: the outcode bit handled by this iteration -/\ndef csClipBit (code : Nat) : Nat :=\n  {nb[1]}\n"
        + f"\n/-- `self.encode(x, y) & ~done` on natural numbers -/\ndef csMask (enc done : Nat) : Nat :=\n  {mask_txt}\n"
        + f"\n/-- `done |= bit` -/\ndef csDone (done bit : Nat) : Nat :=\n  {done_v[1]}\n"
    )


CONVEX_TEMPLATE = """if len(polygon) < 3:
    return False
global_sign: int = 0
current_sign: int = 0
prev = polygon[-1]
index = len(polygon) - 2
while index > 0 and polygon[index].isclose(prev):
    index -= 1
prev_prev = polygon[index]
for vertex in polygon:
    if vertex.isclose(prev):
        continue
    det = <DET>
    if <SIG>:
        current_sign = <SIGN>
        if not global_sign:
            global_sign = current_sign
        if global_sign != current_sign:
            return False
    elif strict:
        return False
    prev_prev = prev
    prev = vertex
return bool(global_sign)"""

SOURCES = [
    "src/ezdxf/math/_vector.py",
    "src/ezdxf/math/_mapbox_earcut.py",
    "src/ezdxf/acc/mapbox_earcut.pyx",
    "src/ezdxf/math/_construct.py",
    "src/ezdxf/acc/construct.pyx",
    "src/ezdxf/math/clipping.py",
    "src/ezdxf/math/construct2d.py",
]

HAND_MODELLED = {
    "src/ezdxf/math/_mapbox_earcut.py": ["earcut", "linked_list", "eliminate_holes", "eliminate_hole", "filter_points", "earcut_linked",
                                         "is_ear", "get_leftmost", "split_polygon", "cure_local_intersections", "split_ear_cut",
                                         "find_hole_bridge", "middle_inside", "intersects_polygon", "remove_node", "insert_node"],
    "src/ezdxf/math/clipping.py": ["ConvexClippingPolygon2d.__init__", "ConvexClippingPolygon2d.clip_polygon", "ConvexClippingPolygon2d.clip_line",
                                   "CohenSutherlandLineClipping2d.clip_line", "ConcaveClippingPolygon2d.clip_polygon", "GHPolygon.clip"],
    "src/ezdxf/math/construct2d.py": ["convex_hull_2d", "is_convex_polygon_2d"],
    "src/ezdxf/math/_construct.py": ["is_point_in_polygon_2d", "has_clockwise_orientation"],
}


def regenerate(ctx):
    import hashlib

    text = translate_all(ctx)
    ctx.src("src/ezdxf/math/triangulation.py")
    ctx.write_gen("PolygonKernels", text, SOURCES)
    # loop structure of the hand-modelled functions: recorded (not enforced) so that a reader of the evidence can see whether
    # the code the model was written against is the code that was checked; the tie itself is the correspondence stream
    sig = []
    for rel, names in HAND_MODELLED.items():
        mod = ast.parse(ctx.src(rel))
        for nm in names:
            fn = find_func(mod, nm)
            sig.append(f"{nm}:{hashlib.sha256(ast.dump(fn).encode()).hexdigest()[:8]}")
    ctx.note("hand-modelled loops (sha256 of ast.dump): " + " ".join(sig))


# =====================================================================================================
# part 2: exact geometry (ints / Fractions), generators, adapters to the real code
# =====================================================================================================
RULE = (
    "correspondence: (X1) earcut triangle lists as index triples, Lean model vs. ezdxf.math._mapbox_earcut and vs. the compiled "
    "ezdxf.acc.mapbox_earcut on every simple polygon of the 4x4 integer grid with up to 6 (quick) / 7 (thorough) vertices (both "
    "orientations), rotated start vertices, star-shaped and orthogonal polygons with holes, holes touching the exterior in one point "
    "(every start vertex of the hole), and degenerate / self-intersecting point sequences with holes; a float/exact difference is "
    "accepted only if the same Python code run with Fractions agrees with the model; (X1c) the public wrapper mapbox_earcut_2d vs. "
    "the model of earcut; (X2) exact-valued predicates on dyadic inputs: is_point_in_polygon_2d, has_clockwise_orientation (both "
    "twins), CohenSutherland encode and accept/reject, convex_hull_2d, is_convex_polygon_2d (every start vertex, open/closed, "
    "repeated vertices, both modes); (X3) rational-valued results compared at 1e-9: ConvexClippingPolygon2d.clip_polygon / "
    "clip_line, ClippingRect2d.clip_line, intersection_line_line_2d (both twins); cases in which a computed point lies exactly on "
    "a clipping line are the stated decision band and are counted, not compared; (X4) ConcaveClippingPolygon2d.clip_polygon for "
    "subjects without a proper crossing (Greiner-Hormann returns no part): nothing / whole subject; (X5) Greiner-Hormann union, "
    "intersection, difference on polygons in general position: entry/exit marks of all nodes of both polygons and the set of "
    "original vertices that appear in the result. non-trivial = at least one triangle / a clipped or rejected result / a boundary "
    "or inside answer. oracle: exact Fraction checks on the real code (see notes)."
)
TRUSTED_BASE = [
    "the symbolic translator in harness/props/c19.py (Python/Cython kernels -> Lean over Rat); every kernel is also exercised by the correspondence streams",
    "hand models of the loops in Model/Polygon.lean (earcut ring surgery, Sutherland-Hodgman, convex clip_line, Cohen-Sutherland, monotone chain, "
    "is_convex_polygon_2d, is_point_in_polygon_2d, the concave fall-back, Greiner-Hormann phase 2/3 rule), tied by correspondence and, for "
    "is_convex_polygon_2d / find_hole_bridge / GHPolygon.clip / the concave fall-back, by a comparison of the statement structure with the modelled text",
    "IEEE double arithmetic is exact on the small dyadic inputs used by the exact streams (sums/products), divisions are correctly rounded",
    "CPython list.sort is stable; set() of Vec2 deduplicates by coordinates",
]
ASSUMPTIONS = [
    "earcut model: at most 80 exterior vertices (the z-order hashed path is covered by the oracle only)",
    "eliminate_hole: the case in which filter_points removes the bridge node AND one of its former neighbours is not modelled (driver answers 'detached', counted)",
    "Greiner-Hormann: phase 1 (intersection search with its perturbation-free end point exclusion) and the polygon construction of phase 3 are oracle only; "
    "modelled and proved: the entry/exit classification (phase 2) and which boundary pieces phase 3 walks; InvertedClippingPolygon2d and "
    "ConcaveClippingPolygon2d.clip_line: oracle only",
    "clipLineConvex_exact, cs_accept_exact, cs_reject_sound are statements in exact arithmetic (tolerance 0 / proper window); the float code is tied by X3 at 1e-9 outside the stated decision band",
    "pip_agrees_exact identifies the answer with the parity of the exact winding number; that the winding number of a SIMPLE polygon is 0 or +-1 (odd = inside) is not proved",
]
OPEN = [
    "completion of earcut for every simple polygon (two-ears theorem) is not proved: earcut_conserves assumes the run is complete; proved for strictly convex rings of any size (earcut_completes_convex)",
    "non-overlap of the earcut triangles: proved for every ring from ONE explicit hypothesis (earcut_no_overlap, earcut_no_holes_no_overlap, earcut_with_holes_no_overlap: the ring winds at most "
    "once around the point, wnRing x l <= 1) for complete runs; that a simple counter-clockwise polygon satisfies the hypothesis at every point (Jordan curve theorem) is not proved; "
    "the exact oracle keeps testing pairwise non-overlap on the real code",
    "Sutherland-Hodgman: exactness of the clipped AREA (result = intersection as point sets) is oracle only; proved: result inside every clip half-plane, inside the "
    "convex hull of the subject, subject outside one edge => empty, subject strictly inside => unchanged, one cut and the whole clip conserve the signed area (clipEdge_area_split, clipPolygon_area_balance, tolerance 0), the cut-away parts lie outside their edge (cutOffs_outside), the result REGION (winding number) is inside every clip half-plane and inside the hull of the subject (clipPolygon_region_inside, clipPolygon_region_in_subject_hull); "
    "the converse containment (subject ∩ clip ⊆ result) is not proved, also not for convex subjects; clip_idempotent not proved (vertices on a clip edge are re-cut, "
    "equal only up to the intersection tolerance)",
    "ConvexClippingPolygon2d.clip_line: exact for abs_tol = 0 (clipLineConvex_exact); for abs_tol > 0 the band statement clipLineConvex_band (nothing inside is cut away, everything returned "
    "violates an edge by at most abs_tol in units of the side determinant) - not a statement about Euclidean distance",
    "hull: strictness needs 'not all collinear' (hull_collinear states what is returned otherwise); that every extreme input point is a hull vertex follows from "
    "hull_contains_all + hull_convex only with a separate geometric argument, not stated",
    "Greiner-Hormann area law as a statement about areas: oracle only (gh_union_intersection_partition is the combinatorial part)",
]


def orient(a, b, c):
    return (b[0] - a[0]) * (c[1] - a[1]) - (b[1] - a[1]) * (c[0] - a[0])


def sgn(v):
    return (v > 0) - (v < 0)


def on_seg(a, b, p):
    return orient(a, b, p) == 0 and min(a[0], b[0]) <= p[0] <= max(a[0], b[0]) and min(a[1], b[1]) <= p[1] <= max(a[1], b[1])


def seg_touch(a, b, c, d):
    """closed segments share at least one point"""
    o1, o2, o3, o4 = sgn(orient(a, b, c)), sgn(orient(a, b, d)), sgn(orient(c, d, a)), sgn(orient(c, d, b))
    if o1 * o2 < 0 and o3 * o4 < 0:
        return True
    return on_seg(a, b, c) or on_seg(a, b, d) or on_seg(c, d, a) or on_seg(c, d, b)


def seg_proper(a, b, c, d):
    return sgn(orient(a, b, c)) * sgn(orient(a, b, d)) < 0 and sgn(orient(c, d, a)) * sgn(orient(c, d, b)) < 0


def area2(poly):
    """twice the signed area, counter-clockwise positive"""
    s = 0
    for i in range(len(poly)):
        a, b = poly[i - 1], poly[i]
        s += a[0] * b[1] - b[0] * a[1]
    return s


def pip_exact(p, poly):
    """+1 inside, 0 on the boundary, -1 outside; winding by signed crossings of the upward ray, exact"""
    wn = 0
    for i in range(len(poly)):
        a, b = poly[i - 1], poly[i]
        if on_seg(a, b, p):
            return 0
        if a[1] <= p[1]:
            if b[1] > p[1] and orient(a, b, p) > 0:
                wn += 1
        elif b[1] <= p[1] and orient(a, b, p) < 0:
            wn -= 1
    return 1 if wn != 0 else -1


def is_simple(poly):
    n = len(poly)
    if n < 3 or len(set(poly)) != n:
        return False
    for i in range(n):
        a, b = poly[i], poly[(i + 1) % n]
        for j in range(i + 1, n):
            c, d = poly[j], poly[(j + 1) % n]
            if j == i + 1 or (i == 0 and j == n - 1):
                # adjacent edges: only the shared vertex
                if j == i + 1:
                    if on_seg(a, b, d) or on_seg(c, d, a):
                        return False
                else:
                    if on_seg(a, b, c) or on_seg(c, d, b):
                        return False
            elif seg_touch(a, b, c, d):
                return False
    return True


def seg_inter_point(a, b, c, d):
    """intersection point of the lines ab and cd (not parallel), exact"""
    da, db = orient(c, d, a), orient(c, d, b)
    t = F(da) / F(da - db)
    return (a[0] + t * (b[0] - a[0]), a[1] + t * (b[1] - a[1]))


def hull_exact(pts):
    pts = sorted(set(pts))
    if len(pts) < 3:
        return pts
    lo, up = [], []
    for p in pts:
        while len(lo) >= 2 and orient(lo[-2], lo[-1], p) <= 0:
            lo.pop()
        lo.append(p)
    for p in reversed(pts):
        while len(up) >= 2 and orient(up[-2], up[-1], p) <= 0:
            up.pop()
        up.append(p)
    return lo[:-1] + up[:-1]


def convex_inter_area2(A, B):
    """twice the area of the intersection of two convex polygons (any orientation), by vertex enumeration + hull"""
    def inside(p, poly, s):
        return all(sgn(orient(poly[i - 1], poly[i], p)) * s >= 0 for i in range(len(poly)))

    sa, sb = sgn(area2(A)), sgn(area2(B))
    if sa == 0 or sb == 0:
        return 0
    cand = [p for p in A if inside(p, B, sb)] + [p for p in B if inside(p, A, sa)]
    for i in range(len(A)):
        a, b = A[i - 1], A[i]
        for j in range(len(B)):
            c, d = B[j - 1], B[j]
            if orient(a, b, c) - orient(a, b, d) != 0 and seg_touch(a, b, c, d):
                cand.append(seg_inter_point(a, b, c, d))
    h = hull_exact([(F(x), F(y)) for x, y in cand])
    return abs(area2(h)) if len(h) >= 3 else 0


def fan(poly):
    """signed triangle fan of a polygon: [(sign, triangle)]"""
    o = poly[0]
    out = []
    for i in range(1, len(poly) - 1):
        t = (o, poly[i], poly[i + 1])
        s = sgn(area2(t))
        if s:
            out.append((s, t))
    return out


def inter_area2(P, Q):
    """twice the area of the intersection of two simple polygons, exact (signed fan decomposition of both)"""
    sp, sq = sgn(area2(P)), sgn(area2(Q))
    tot = 0
    fq = fan(Q)
    for s1, t1 in fan(P):
        for s2, t2 in fq:
            tot += s1 * s2 * convex_inter_area2(list(t1), list(t2))
    return tot * sp * sq


def tri_interiors_meet(t1, t2):
    """open triangles intersect (separating axis test, exact)"""
    for A, B in ((t1, t2), (t2, t1)):
        s = sgn(area2(A))
        if s == 0:
            return False
        for i in range(3):
            a, b = A[i - 1], A[i]
            if all(sgn(orient(a, b, p)) * s <= 0 for p in B):
                return False
    return True


# ------------------------------------------------------------------ generators
GRID_CACHE: dict = {}


def grid_simple_polygons(G, n):
    """all simple polygons with n vertices on the G x G integer grid, start vertex = smallest, both directions"""
    key = (G, n)
    if key in GRID_CACHE:
        return GRID_CACHE[key]
    pts = [(x, y) for x in range(G) for y in range(G)]
    out = []

    def ok_new_edge(path, q):
        a = path[-1]
        m = len(path)
        for i in range(m - 1):
            c, d = path[i], path[i + 1]
            if i == m - 2:
                if orient(c, d, q) == 0 and ((q[0] - a[0]) * (c[0] - a[0]) + (q[1] - a[1]) * (c[1] - a[1])) > 0:
                    return False
                if on_seg(a, q, c):
                    return False
            elif seg_touch(a, q, c, d):
                return False
        return True

    def rec(path, used):
        if len(path) == n:
            a, q = path[-1], path[0]
            m = len(path)
            for i in range(m - 1):
                c, d = path[i], path[i + 1]
                if i == 0:
                    if orient(c, d, a) == 0 and ((a[0] - c[0]) * (d[0] - c[0]) + (a[1] - c[1]) * (d[1] - c[1])) > 0:
                        return
                    if on_seg(a, q, d):
                        return
                elif i == m - 2:
                    if orient(c, d, q) == 0 and ((q[0] - a[0]) * (c[0] - a[0]) + (q[1] - a[1]) * (c[1] - a[1])) > 0:
                        return
                    if on_seg(a, q, c):
                        return
                elif seg_touch(a, q, c, d):
                    return
            out.append(tuple(path))
            return
        for q in pts:
            if q in used or q < path[0]:
                continue
            if len(path) >= 2 and not ok_new_edge(path, q):
                continue
            used.add(q)
            path.append(q)
            rec(path, used)
            path.pop()
            used.discard(q)

    for s in pts:
        rec([s], {s})
    GRID_CACHE[key] = out
    return out


def star_polygon(rng, n, R):
    """star-shaped simple polygon with integer vertices (sorted by exact angle around an interior centre)"""
    for _ in range(50):
        c = (R // 2, R // 2)
        pts = set()
        while len(pts) < n:
            p = (rng.randint(0, R), rng.randint(0, R))
            if p != c:
                pts.add(p)

        def half(p):
            dx, dy = p[0] - c[0], p[1] - c[1]
            return 0 if (dy > 0 or (dy == 0 and dx > 0)) else 1

        import functools

        def cmp(p, q):
            hp, hq = half(p), half(q)
            if hp != hq:
                return hp - hq
            o = orient(c, p, q)
            if o != 0:
                return -1 if o > 0 else 1
            dp = (p[0] - c[0]) ** 2 + (p[1] - c[1]) ** 2
            dq = (q[0] - c[0]) ** 2 + (q[1] - c[1]) ** 2
            return -1 if dp < dq else (1 if dp > dq else 0)

        order = sorted(pts, key=functools.cmp_to_key(cmp))
        # one point per direction
        poly = []
        for p in order:
            if poly and half(poly[-1]) == half(p) and orient(c, poly[-1], p) == 0:
                continue
            poly.append(p)
        if len(poly) >= 3 and is_simple(poly) and pip_exact(c, poly) == 1:
            return poly
    return [(0, 0), (R, 0), (R, R)]


def ortho_polygon(rng, k, H, keep_collinear=True):
    """x-monotone orthogonal polygon (staircase over the x axis), counter-clockwise; columns of width 2"""
    hs = [rng.randint(2, H) for _ in range(k)]
    top = []
    x = 2 * k
    for i in range(k - 1, -1, -1):
        top.append((x, hs[i]))
        x -= 2
        top.append((x, hs[i]))
    poly = [(0, 0), (2 * k, 0)] + top
    out = []
    for p in poly:
        if out and out[-1] == p:
            continue
        out.append(p)
    if out[0] == out[-1]:
        out.pop()
    if not keep_collinear:
        out = [p for i, p in enumerate(out) if orient(out[i - 1], p, out[(i + 1) % len(out)]) != 0]
    return out, hs


def place_holes(rng, ext, count, scale, tries=40):
    """small polygons strictly inside ext, pairwise disjoint (checked exactly)"""
    holes = []
    xs = [p[0] for p in ext]
    ys = [p[1] for p in ext]
    shapes = [[(0, 0), (1, 0), (1, 1), (0, 1)], [(0, 0), (2, 0), (1, 1)], [(0, 0), (1, 0), (0, 1)], [(0, 0), (2, 1), (1, 2), (0, 1)],
              [(0, 0), (1, 0), (2, 0), (2, 1), (0, 1)]]
    for _ in range(tries):
        if len(holes) >= count:
            break
        sh = rng.choice(shapes)
        s = rng.randint(1, scale)
        ox, oy = rng.randint(min(xs), max(xs)), rng.randint(min(ys), max(ys))
        h = [(ox + s * x, oy + s * y) for x, y in sh]
        if rng.random() < 0.5:
            h.reverse()
        if any(pip_exact(p, ext) != 1 for p in h):
            continue
        bad = False
        for i in range(len(h)):
            a, b = h[i - 1], h[i]
            for j in range(len(ext)):
                if seg_touch(a, b, ext[j - 1], ext[j]):
                    bad = True
            for g in holes:
                for j in range(len(g)):
                    if seg_touch(a, b, g[j - 1], g[j]):
                        bad = True
        if bad:
            continue
        if any(pip_exact(h[0], g) >= 0 or pip_exact(g[0], h) >= 0 for g in holes):
            continue
        holes.append(h)
    return holes


def valid_with_holes(ctx, salt, count):
    """(kind, exterior, holes): star-shaped and orthogonal polygons with holes, integer coordinates"""
    rng = ctx.rng(salt)
    out = []
    for k in range(count):
        if k % 2 == 0:
            ext = star_polygon(rng, rng.choice([5, 8, 12, 20, 35]), rng.choice([12, 20, 40]))
            kind = "star"
        else:
            ext, _ = ortho_polygon(rng, rng.randint(2, 9), rng.choice([4, 8, 12]), keep_collinear=rng.random() < 0.5)
            ext = [(3 * x, 3 * y) for x, y in ext]
            kind = "ortho"
        if rng.random() < 0.5:
            ext = ext[::-1]
        r = rng.randrange(len(ext))
        ext = ext[r:] + ext[:r]
        holes = place_holes(rng, ext, rng.choice([0, 1, 1, 2, 3, 5]), 3)
        if rng.random() < 0.15 and holes:
            # a Steiner point (hole with a single vertex) strictly inside and outside the other holes
            for _ in range(10):
                p = (rng.randint(min(x for x, _ in ext), max(x for x, _ in ext)), rng.randint(min(y for _, y in ext), max(y for _, y in ext)))
                if pip_exact(p, ext) == 1 and all(pip_exact(p, h) == -1 for h in holes):
                    holes.append([p])
                    break
        out.append((kind, ext, holes))
    return out


def degenerate_inputs(ctx, salt, count):
    rng = ctx.rng(salt)
    out = []
    for _ in range(count):
        G = rng.choice([3, 4, 5, 8])
        n = rng.randint(0, 12)
        ext = [(rng.randint(0, G), rng.randint(0, G)) for _ in range(n)]
        if rng.random() < 0.2 and ext:
            ext.append(ext[0])
        holes = []
        for _ in range(rng.choice([0, 0, 0, 1, 1, 2, 3])):
            m = rng.choice([0, 1, 1, 2, 3, 3, 4, 5])
            holes.append([(rng.randint(0, G), rng.randint(0, G)) for _ in range(m)])
        out.append(("degenerate", ext, holes))
    return out


# ------------------------------------------------------------------ protocol formatting
def rs(v) -> str:
    if isinstance(v, int):
        return str(v)
    v = F(v)
    return str(v.numerator) if v.denominator == 1 else f"{v.numerator}/{v.denominator}"


def ps(p) -> str:
    return rs(p[0]) + "," + rs(p[1])


def pl(poly) -> str:
    return " ".join(ps(p) for p in poly)


def parse_pts(s):
    out = []
    for tok in s.split():
        a, b = tok.split(",")
        out.append((F(a), F(b)))
    return out


TOL = "1/10000000000"


class FP:
    """point with exact Fraction coordinates (the pure Python earcut is duck typed)"""
    __slots__ = ("x", "y")

    def __init__(self, x, y):
        self.x, self.y = F(x), F(y)


def run_earcut(fn, ext, holes, mk):
    pts = [mk(p) for p in ext]
    hs = [[mk(p) for p in h] for h in holes]
    ids = {}
    k = 0
    for p in pts:
        ids[id(p)] = k
        k += 1
    for h in hs:
        for p in h:
            ids[id(p)] = k
            k += 1
    tris = fn(pts, hs)
    return [tuple(ids[id(v)] for v in t) for t in tris]


def tri_text(tris):
    return " ".join("-".join(str(i) for i in t) for t in tris)


class Hang(Exception):
    pass


class watchdog:
    """SIGALRM based time limit for calls that may not return (main thread only)"""

    def __init__(self, seconds=2.0):
        self.seconds = seconds

    def __enter__(self):
        import signal

        def handler(*_):
            raise Hang()

        self.old = signal.signal(signal.SIGALRM, handler)
        signal.setitimer(signal.ITIMER_REAL, self.seconds)

    def __exit__(self, *a):
        import signal

        signal.setitimer(signal.ITIMER_REAL, 0)
        signal.signal(signal.SIGALRM, self.old)
        return False


def impls():
    """the two triangulation implementations and the two construct twins (None if the C-extension is not available)"""
    import ezdxf.math._mapbox_earcut as PY
    import ezdxf.math._construct as CPY

    try:
        import ezdxf.acc.mapbox_earcut as CY
        import ezdxf.acc.construct as CCY
    except ImportError:
        CY = CCY = None
    return PY, CY, CPY, CCY


def close(a: float, b, tol=1e-9) -> bool:
    b = float(b)
    return abs(a - b) <= tol * max(1.0, abs(a), abs(b))


def custom_compare(ctx, stream, driver_lines, items):
    """items: [(request, compare(model_line) -> None | 'skip:<why>' | 'diff:<impl text>', nontrivial)]"""
    outs = ctx.driver("C19", driver_lines, build=DRIVER_DEPS)
    for (req, cmp, nontriv), model in zip(items, outs):
        verdict = cmp(model)
        if verdict and verdict.startswith("skip:"):
            ctx.hist(stream, verdict[5:])
            continue
        ctx.count(stream, req, nontriv, sample={"request": req[:300], "model": model[:300], "verdict": verdict or "agree"})
        if verdict:
            ctx.disagree(stream, req, verdict[5:], model)
    ctx.cov["disagreements_checked"] += len(items)


# =====================================================================================================
# correspondence
# =====================================================================================================
def earcut_cases(ctx):
    """(kind, exterior, holes) with at most 80 exterior vertices"""
    cases = []
    for n in range(3, ctx.n(6, 7) + 1):
        for poly in grid_simple_polygons(4, n):
            cases.append((f"grid{n}", list(poly), []))
    rng = ctx.rng("rot")
    for n in range(4, ctx.n(6, 7) + 1):
        polys = grid_simple_polygons(4, n)
        for _ in range(ctx.n(1500, 20000)):
            p = list(rng.choice(polys))
            r = rng.randrange(1, len(p))
            cases.append(("grid-rotated", p[r:] + p[:r], []))
    for kind, ext, holes in valid_with_holes(ctx, "valid", ctx.n(1500, 15000)):
        if len(ext) <= 80:
            cases.append((kind, ext, holes))
    cases += degenerate_inputs(ctx, "degenerate", ctx.n(6000, 60000))
    # a hole touching the exterior in one point (vertex on vertex / vertex on edge), every start vertex of the hole
    for ext, hole, variants in touching_hole_cases(ctx, "x1-touching", ctx.n(150, 1500)):
        for hv in variants:
            cases.append(("touching-hole", ext, [hv]))
    # closed input (first vertex repeated), duplicates, collinear runs
    for poly in grid_simple_polygons(4, 4)[:: ctx.n(9, 2)]:
        p = list(poly)
        cases.append(("closed", p + [p[0]], []))
        cases.append(("dup", [p[0], p[0]] + p[1:], []))
    return cases


def correspond(ctx):
    PY, CY, CPY, CCY = impls()
    from ezdxf.math import Vec2

    if CY is None:
        ctx.note("C-extension not importable: the Cython twins are not exercised in this run")
    # ---------------------------------------------------------------- X1 earcut
    cases = earcut_cases(ctx)
    lines, items = [], []
    twin_diff = 0
    for kind, ext, holes in cases:
        req = f"tris|{pl(ext)}|{';'.join(pl(h) for h in holes)}"
        tf = tri_text(run_earcut(PY.earcut, ext, holes, lambda p: Vec2(p)))
        if CY is not None:
            tc = tri_text(run_earcut(CY.earcut, ext, holes, lambda p: Vec2(p)))
            ctx.count("X1b earcut twins (C-extension vs pure Python)", req, bool(tf))
            if tc != tf:
                twin_diff += 1
                ctx.disagree("X1b earcut twins (C-extension vs pure Python)", req, "cython: " + tc, "python: " + tf)

        def cmp(model, tf=tf, ext=ext, holes=holes, kind=kind):
            if model.startswith("detached"):
                return f"skip:unmodelled in {kind}: bridge and a neighbour removed by filter_points"
            ctx.hist("X1 earcut model vs code", kind)
            if model == ("ok " + tf).rstrip() or model == "ok " + tf:
                return None
            exact = tri_text(run_earcut(PY.earcut, ext, holes, lambda p: FP(*p)))
            if model.rstrip() == ("ok " + exact).rstrip():
                if kind.startswith("grid") or kind in ("star", "ortho", "closed", "dup", "touching-hole"):
                    return "diff:float run differs from the exact run of the same code on a valid input: " + tf
                return "skip:float rounding decides (the code run with Fractions agrees with the model)"
            return "diff:" + tf + "   [exact run: " + exact + "]"

        lines.append(req)
        items.append((req, cmp, bool(tf)))
    custom_compare(ctx, "X1 earcut model vs code", lines, items)

    # ---------------------------------------------------------------- X1c the public wrapper mapbox_earcut_2d = earcut on Vec2 lists
    from ezdxf.math import triangulation as TRI

    lines, items = [], []
    wrapper_cases = [c for c in cases if c[0] in ("touching-hole", "star", "ortho")]
    wrapper_cases = wrapper_cases[:: max(1, len(wrapper_cases) // ctx.n(1500, 15000))]
    for kind, ext, holes in wrapper_cases:
        req = f"tris|{pl(ext)}|{';'.join(pl(h) for h in holes)}"
        res = TRI.mapbox_earcut_2d([Vec2(p) for p in ext], [[Vec2(p) for p in h] for h in holes])
        impl = [tuple((v.x, v.y) for v in t) for t in res]
        pts_all = list(ext) + [p for h in holes for p in h]

        def cmp(model, impl=impl, pts_all=pts_all, kind=kind):
            if model.startswith("detached"):
                return f"skip:unmodelled in {kind}: bridge and a neighbour removed by filter_points"
            if not model.startswith("ok"):
                return "diff:" + repr(impl)[:200]
            mt = [tuple((float(pts_all[int(i)][0]), float(pts_all[int(i)][1])) for i in t.split("-")) for t in model[2:].split()]
            return None if mt == impl else "diff:" + repr(impl)[:300]

        lines.append(req)
        items.append((req, cmp, bool(impl)))
    custom_compare(ctx, "X1c mapbox_earcut_2d (wrapper) vs model of earcut", lines, items)

    # ---------------------------------------------------------------- X2 exact predicates
    x2 = []
    rng = ctx.rng("x2")
    polys = []
    for n in (3, 4, 5, 6):
        g = grid_simple_polygons(4, n)
        polys += [list(rng.choice(g)) for _ in range(ctx.n(60, 400))]
    half = [F(k, 2) for k in range(-1, 8)]
    for poly in polys:
        if rng.random() < 0.3:
            poly = poly + [poly[0]]
        vs = [Vec2(p) for p in poly]
        for _ in range(ctx.n(12, 30)):
            p = (rng.choice(half), rng.choice(half))
            req = f"pip|{TOL}|{ps(p)}|{pl(poly)}"
            def call(mod):
                try:
                    return mod.is_point_in_polygon_2d(Vec2(float(p[0]), float(p[1])), vs)
                except Exception as e:  # noqa
                    return "err " + type(e).__name__

            a = call(CPY)
            if CCY is not None and call(CCY) != a:
                ctx.disagree("X2 exact predicates", req, "cython differs", str(a))
            x2.append((req, str(a), a != -1))
    for poly in polys + [[], [(0, 0)], [(0, 0), (1, 1)], [(0, 0), (1, 0), (0, 0)], [(0, 0), (1, 0), (2, 0)]]:
        for variant in (poly, poly[::-1], poly + poly[:1]):
            req = f"cw|{pl(variant)}"
            try:
                a = "1" if CPY.has_clockwise_orientation([Vec2(p) for p in variant]) else "0"
            except ValueError:
                a = "err ValueError"
            if CCY is not None:
                try:
                    b = "1" if CCY.has_clockwise_orientation([Vec2(p) for p in variant]) else "0"
                except ValueError:
                    b = "err ValueError"
                if a != b:
                    ctx.disagree("X2 exact predicates", req, "cython: " + b, a)
            x2.append((req, a, a == "1"))
    from ezdxf.math.clipping import CohenSutherlandLineClipping2d, ConvexClippingPolygon2d, ClippingRect2d
    from ezdxf.math import convex_hull_2d

    quarter = [F(k, 4) for k in range(-8, 21)]
    for _ in range(ctx.n(1500, 15000)):
        lo = (rng.choice(quarter[8:14]), rng.choice(quarter[8:14]))
        hi = (lo[0] + rng.choice(quarter[8:17]), lo[1] + rng.choice(quarter[8:17]))
        p = (rng.choice(quarter), rng.choice(quarter))
        if rng.random() < 0.3:
            p = (rng.choice([lo[0], hi[0]]), p[1])
        if rng.random() < 0.3:
            p = (p[0], rng.choice([lo[1], hi[1]]))
        cs = CohenSutherlandLineClipping2d(Vec2(float(lo[0]), float(lo[1])), Vec2(float(hi[0]), float(hi[1])))
        code = cs.encode(float(p[0]), float(p[1]))
        x2.append((f"code|{ps(lo)}|{ps(hi)}|{ps(p)}", str(code), code != 0))
    for _ in range(ctx.n(1500, 15000)):
        n = rng.choice([0, 1, 2, 3, 4, 6, 9, 15, 30])
        G = rng.choice([2, 3, 6])
        pts = [(F(rng.randint(0, 2 * G), 2), F(rng.randint(0, 2 * G), 2)) for _ in range(n)]
        if rng.random() < 0.3:
            pts += pts[: rng.randint(0, 3)]
        req = f"hull|{pl(pts)}"
        try:
            h = convex_hull_2d([Vec2(float(x), float(y)) for x, y in pts])
            a = "ok " + pl([(F(v.x), F(v.y)) for v in h])
        except ValueError:
            a = "err ValueError"
        x2.append((req, a, a.startswith("ok")))
    # is_convex_polygon_2d: every start vertex, open / closed, repeated vertices, both modes
    from ezdxf.math.construct2d import is_convex_polygon_2d

    ccases = convexity_cases(ctx, "x2-convex")
    for q in ccases[:: max(1, len(ccases) // ctx.n(12000, 80000))]:
        vs = [Vec2(p) for p in q]
        for strict in (False, True):
            got = is_convex_polygon_2d(vs, strict=strict)
            x2.append((f"convex|{1 if strict else 0}|1/1000000|{pl(q)}", "1" if got else "0", got))
    ctx.correspond("X2 exact predicates", "C19", x2, build=DRIVER_DEPS)

    # ---------------------------------------------------------------- X3 rational valued results at 1e-9
    lines, items = [], []

    def pts_cmp(model_pts, impl_pts):
        if len(model_pts) != len(impl_pts):
            return False
        return all(close(v.x, m[0]) and close(v.y, m[1]) for v, m in zip(impl_pts, model_pts))

    windows = []
    for _ in range(ctx.n(60, 300)):
        k = rng.choice(["rect", "rect", "convex", "convex-cw", "closed"])
        if k == "rect":
            lo = (F(rng.randint(0, 4)), F(rng.randint(0, 4)))
            hi = (lo[0] + rng.randint(1, 4), lo[1] + rng.randint(1, 4))
            w = [lo, (hi[0], lo[1]), hi, (lo[0], hi[1])]
        else:
            w = hull_exact([(F(rng.randint(0, 8)), F(rng.randint(0, 8))) for _ in range(rng.randint(3, 7))])
            if len(w) < 3:
                continue
            if k == "convex-cw":
                w = w[::-1]
            if k == "closed":
                w = w + [w[0]]
        windows.append(w)
    windows += [[(F(0), F(0)), (F(1), F(0))], [(F(0), F(0)), (F(1), F(0)), (F(0), F(0))]]  # ValueError
    subjects = [list(map(lambda p: (F(2 * p[0]), F(2 * p[1])), rng.choice(grid_simple_polygons(4, n)))) for n in (3, 4, 5, 6) for _ in range(ctx.n(8, 40))]
    subjects += [[], [(F(1), F(1))], [(F(1), F(1)), (F(3), F(3))]]
    for w in windows:
        for subj in rng.sample(subjects, min(len(subjects), ctx.n(12, 40))):
            ccw = rng.random() < 0.8
            req = f"sh|{1 if ccw else 0}|{TOL}|{pl(w)}|{pl(subj)}"
            try:
                clipper = ConvexClippingPolygon2d([Vec2(float(x), float(y)) for x, y in w], ccw_check=ccw)
                res = list(clipper.clip_polygon([Vec2(float(x), float(y)) for x, y in subj])[0])
                err = None
            except ValueError:
                res, err = None, "err ValueError"

            def cmp(model, res=res, err=err):
                if err:
                    return None if model == err else "diff:" + err
                if model.startswith("band"):
                    return "skip:decision band (a computed vertex lies exactly on a clipping line)"
                if not model.startswith("ok"):
                    return "diff:" + repr(res)
                return None if pts_cmp(parse_pts(model[3:]), res) else "diff:" + " ".join(f"{v.x!r},{v.y!r}" for v in res)

            lines.append(req)
            items.append((req, cmp, bool(res)))
        for _ in range(ctx.n(10, 30)):
            a = (F(rng.randint(-4, 20), 2), F(rng.randint(-4, 20), 2))
            b = (F(rng.randint(-4, 20), 2), F(rng.randint(-4, 20), 2))
            req = f"shline|1|{TOL}|{pl(w)}|{ps(a)}|{ps(b)}"
            try:
                clipper = ConvexClippingPolygon2d([Vec2(float(x), float(y)) for x, y in w])
                res = clipper.clip_line(Vec2(float(a[0]), float(a[1])), Vec2(float(b[0]), float(b[1])))
                err = None
            except ValueError:
                res, err = None, "err ValueError"

            def cmp(model, res=res, err=err):
                if err:
                    return None if model == err else "diff:" + err
                if model.startswith("band"):
                    return "skip:decision band (a computed end point lies exactly on a clipping line)"
                if not res:
                    return None if model == "none" else "diff:()"
                if not model.startswith("ok"):
                    return "diff:" + repr(res)
                return None if pts_cmp(parse_pts(model[3:]), list(res[0])) else "diff:" + repr(res)

            lines.append(req)
            items.append((req, cmp, bool(res)))
    # Cohen-Sutherland end points and intersection_line_line_2d
    for _ in range(ctx.n(3000, 30000)):
        lo = (rng.choice(quarter[8:14]), rng.choice(quarter[8:14]))
        hi = (lo[0] + rng.choice(quarter[9:17]), lo[1] + rng.choice(quarter[9:17]))
        a = (rng.choice(quarter), rng.choice(quarter))
        b = (rng.choice(quarter), rng.choice(quarter))
        if rng.random() < 0.25:  # through a corner of the window
            c = (rng.choice([lo[0], hi[0]]), rng.choice([lo[1], hi[1]]))
            d = (rng.choice(quarter[9:13]), rng.choice(quarter[4:13]))
            a, b = (c[0] - d[0], c[1] - d[1]), (c[0] + 2 * d[0], c[1] + 2 * d[1])
        req = f"cs|{ps(lo)}|{ps(hi)}|{ps(a)}|{ps(b)}"
        cs = CohenSutherlandLineClipping2d(Vec2(float(lo[0]), float(lo[1])), Vec2(float(hi[0]), float(hi[1])))
        try:
            with watchdog(2.0):
                res = cs.clip_line(Vec2(float(a[0]), float(a[1])), Vec2(float(b[0]), float(b[1])))
        except Hang:
            ctx.fail(f"cs/hang/{req}", f"CohenSutherlandLineClipping2d.clip_line does not return: window {ps(lo)}..{ps(hi)} line {ps(a)} -> {ps(b)}",
                     {"op": "cs", "lo": [str(v) for v in lo], "hi": [str(v) for v in hi], "a": [str(v) for v in a], "b": [str(v) for v in b]})
            continue

        def cmp(model, res=res):
            if not res:
                if model == "reject":
                    return None
                if model.startswith("accept"):
                    m = parse_pts(model[7:])
                    if m[0] == m[1] or (abs(float(m[0][0] - m[1][0])) < 1e-9 and abs(float(m[0][1] - m[1][1])) < 1e-9):
                        return "skip:decision band (the segment touches the window in one point)"
                return "diff:()"
            if not model.startswith("accept"):
                if abs(res[0].x - res[1].x) < 1e-9 and abs(res[0].y - res[1].y) < 1e-9:
                    return "skip:decision band (the segment touches the window in one point)"
                return "diff:" + repr(res)
            return None if pts_cmp(parse_pts(model[7:]), list(res)) else "diff:" + repr(res)

        lines.append(req)
        items.append((req, cmp, True))
    for _ in range(ctx.n(3000, 30000)):
        q = [(rng.choice(quarter), rng.choice(quarter)) for _ in range(4)]
        if rng.random() < 0.2:
            q[2] = q[0]
        if rng.random() < 0.2:  # parallel
            q[3] = (q[2][0] + (q[1][0] - q[0][0]), q[2][1] + (q[1][1] - q[0][1]))
        if rng.random() < 0.2:  # end point on the other line
            t = F(rng.randint(0, 4), 4)
            q[2] = (q[0][0] + t * (q[1][0] - q[0][0]), q[0][1] + t * (q[1][1] - q[0][1]))
        virtual = rng.random() < 0.5
        req = f"ill|{1 if virtual else 0}|{TOL}|{ps(q[0])}|{ps(q[1])}|{ps(q[2])}|{ps(q[3])}"
        v = [Vec2(float(x), float(y)) for x, y in q]
        res = CPY.intersection_line_line_2d((v[0], v[1]), (v[2], v[3]), virtual=virtual)
        if CCY is not None:
            res2 = CCY.intersection_line_line_2d((v[0], v[1]), (v[2], v[3]), virtual=virtual)
            if (res is None) != (res2 is None) or (res is not None and (res.x != res2.x or res.y != res2.y)):
                ctx.disagree("X3 rational valued results", req, f"cython: {res2!r}", f"python: {res!r}")

        def cmp(model, res=res):
            if res is None:
                return None if model == "none" else "diff:None"
            if not model.startswith("ok"):
                return "diff:" + repr(res)
            return None if pts_cmp(parse_pts(model[3:]), [res]) else "diff:" + repr(res)

        lines.append(req)
        items.append((req, cmp, res is not None))
    custom_compare(ctx, "X3 rational valued results", lines, items)

    # ---------------------------------------------------------------- X4 concave clipping polygon, the branch without Greiner-Hormann parts
    from ezdxf.math.clipping import ConcaveClippingPolygon2d, clip_arbitrary_polygons
    from ezdxf.math import BoundingBox2d

    x4 = []
    rng4 = ctx.rng("x4")
    tries = 0
    target = ctx.n(2500, 25000)
    while len(x4) < target and tries < 30 * target:
        tries += 1
        poly = [(2 * x, 2 * y) for x, y in rng4.choice(grid_simple_polygons(4, rng4.choice([4, 5, 6, 6])))]
        sh = rng4.choice(TOUCH_SHAPES)
        ox, oy = rng4.randint(-1, 6), rng4.randint(-1, 6)
        subj = [(ox + x, oy + y) for x, y in sh]
        if rng4.random() < 0.5:
            subj = subj[::-1]
        r = rng4.randrange(len(subj))
        subj = subj[r:] + subj[:r]
        if rng4.random() < 0.15:
            subj = subj + [subj[0]]
        vp = [Vec2(p) for p in poly]
        vsub = [Vec2(p) for p in subj]
        if not BoundingBox2d(vp).has_intersection(BoundingBox2d(vsub)):
            continue
        if len(clip_arbitrary_polygons(list(vp), [v for v in vsub[: len(sh)]])) != 0:
            continue
        res = ConcaveClippingPolygon2d(vp).clip_polygon(vsub)
        a = "none" if len(res) == 0 else "whole " + pl([(F(v.x), F(v.y)) for v in res[0]])
        x4.append((f"cfb|{TOL}|{pl(poly)}|{pl(subj)}", a, len(res) != 0))
    ctx.correspond("X4 concave clip_polygon without Greiner-Hormann parts", "C19", x4, build=DRIVER_DEPS)

    # ---------------------------------------------------------------- X5 Greiner-Hormann: entry/exit marks and walked pieces
    from ezdxf.math.clipping import GHPolygon, is_inside_polygon

    x5 = []
    rng5 = ctx.rng("x5")
    done = tries = 0
    target = ctx.n(500, 5000)
    while done < target and tries < 20 * target:
        tries += 1
        P = star_polygon(rng5, rng5.choice([3, 4, 5, 7, 9]), 16)
        Q = star_polygon(rng5, rng5.choice([3, 4, 5, 7, 9]), 16)
        off = (F(rng5.randint(-40, 40), 4) + F(1, 8), F(rng5.randint(-40, 40), 4) + F(1, 16))
        Q = [(F(x) + off[0], F(y) + off[1]) for x, y in Q]
        P = [(F(x), F(y)) for x, y in P]
        if rng5.random() < 0.5:
            Q = Q[::-1]
        if rng5.random() < 0.3:
            P = P[::-1]
        if not general_position(P, Q):
            continue
        if not any(seg_proper(P[i - 1], P[i], Q[j - 1], Q[j]) for i in range(len(P)) for j in range(len(Q))):
            continue
        done += 1
        for s_entry, c_entry in ((False, False), (True, True), (False, True)):
            sp = GHPolygon.from_vec2([Vec2(float(x), float(y)) for x, y in P])
            cp = GHPolygon.from_vec2([Vec2(float(x), float(y)) for x, y in Q])
            res = sp.clip(cp, s_entry, c_entry)
            in_result = set((v.x, v.y) for r in res for v in r)
            for poly, other, e in ((sp, cp, s_entry), (cp, sp, c_entry)):
                nodes = list(poly)
                bits = "".join("1" if nd.intersect else "0" for nd in nodes)
                ins = is_inside_polygon(poly.first.vtx, other)
                marks = "".join(("1" if nd.entry else "0") if nd.intersect else "-" for nd in nodes)
                used = "".join("1" if (nd.vtx.x, nd.vtx.y) in in_result else "0" for nd in nodes if not nd.intersect)
                x5.append((f"gh|{1 if e else 0}|{1 if ins else 0}|{bits}", marks + "|" + used, True))
    ctx.correspond("X5 Greiner-Hormann entry/exit marks and walked pieces", "C19", x5, build=DRIVER_DEPS)


# =====================================================================================================
# part 3: oracle on the real code (exact Fraction arithmetic on the inputs, stated tolerance on float outputs)
# =====================================================================================================
EPS = 1e-9


def check_triangulation(ext, holes, tris, pts_all):
    """the C19 predicate for one triangulation; returns None or a short reason.  ext simple, holes disjoint and strictly inside."""
    n = len(pts_all)
    for t in tris:
        if len(t) != 3 or any(not (0 <= i < n) for i in t):
            return "triangle vertex is not an input vertex"
    want = abs(area2(ext)) - sum(abs(area2(h)) for h in holes)
    areas = [area2([pts_all[i] for i in t]) for t in tris]
    if any(a <= 0 for a in areas):
        return "triangle with non-positive (clockwise or zero) area"
    if sum(areas) != want:
        return f"area sum {F(sum(areas), 2)} != polygon area {F(want, 2)}"
    T = [[pts_all[i] for i in t] for t in tris]
    if len(T) <= 60:
        for i in range(len(T)):
            for j in range(i + 1, len(T)):
                if tri_interiors_meet(T[i], T[j]):
                    return f"triangles {tris[i]} and {tris[j]} overlap"
    ext3 = [(3 * x, 3 * y) for x, y in ext]  # centroid test in coordinates scaled by 3 (stays in the integers)
    holes3 = [[(3 * x, 3 * y) for x, y in h] for h in holes]
    for t in T[:200]:
        c = (t[0][0] + t[1][0] + t[2][0], t[0][1] + t[1][1] + t[2][1])
        if pip_exact(c, ext3) < 0 or any(pip_exact(c, h) > 0 for h in holes3):
            return "triangle centroid outside the polygon or inside a hole"
    return None


def oracle_triangulation(ctx):
    PY, CY, _, _ = impls()
    from ezdxf.math import Vec2
    from ezdxf.math import triangulation as TRI

    mods = [("python", PY.earcut)] + ([("cython", CY.earcut)] if CY is not None else [])

    def run(kind, ext, holes):
        pts_all = list(ext) + [p for h in holes for p in h]
        for name, fn in mods:
            tris = run_earcut(fn, ext, holes, lambda p: Vec2(p))
            ctx.count("O1 triangulation", (name, tuple(ext), tuple(map(tuple, holes))), len(tris) > 1)
            why = check_triangulation(ext, holes, tris, pts_all)
            if why:
                # inputs with a Steiner point (hole of a single vertex) have their own key class: known finding C19-F6
                cls = "earcut-steiner" if any(len(h) == 1 for h in holes) else "earcut"
                ctx.fail(f"{cls}/{kind}/{name}/{pl(ext)}|{';'.join(pl(h) for h in holes)}"[:300],
                         f"{name} earcut of {kind} polygon {ext} holes {holes}: {why}; triangles {tris}",
                         {"op": "earcut", "impl": name, "ext": [list(map(str, p)) for p in ext],
                          "holes": [[list(map(str, p)) for p in h] for h in holes]})

    # corpus: the input on which the linked_list index off-by-one (fixed by 774525a2f) produced overlapping triangles
    run("ortho", [(18, 15), (12, 15), (6, 15), (0, 15), (0, 0), (24, 0), (24, 21), (18, 21)],
        [[(14, 8), (20, 11), (17, 14), (14, 11)], [(9, 6), (10, 6), (10, 5), (9, 5)]])
    # corpus: known finding C19-F6 (Steiner point, found by the thorough tier with seed 2)
    run("star", [(8, 9), (7, 11), (2, 4), (12, 6), (11, 10)], [[(9, 7), (10, 7), (10, 6), (9, 6)], [(6, 9), (7, 8), (6, 8)], [(5, 7)]])
    for n in range(3, ctx.n(6, 7) + 1):
        polys = grid_simple_polygons(4, n)
        step = 1 if n < 6 else ctx.n(3, 1)
        for poly in polys[::step]:
            run(f"grid{n}", list(poly), [])
    for kind, ext, holes in valid_with_holes(ctx, "oracle-valid", ctx.n(1200, 12000)):
        run(kind, ext, holes)
    # z-order hashed path: more than 80 exterior vertices
    rng = ctx.rng("big")
    for _ in range(ctx.n(25, 300)):
        ext = star_polygon(rng, rng.choice([81, 90, 120, 200]), rng.choice([200, 1000]))
        holes = place_holes(rng, ext, rng.choice([0, 1, 3]), 4)
        ctx.hist("O1 triangulation", "hashed(>80 vertices)" if len(ext) > 80 else "star")
        run("big-star", ext, holes)
    for _ in range(ctx.n(25, 300)):
        ext, _ = ortho_polygon(rng, rng.randint(41, 60), 9, keep_collinear=False)
        ctx.hist("O1 triangulation", "hashed(>80 vertices)" if len(ext) > 80 else "ortho")
        run("big-ortho", ext, place_holes(rng, ext, 2, 1))
    # the public entry point, 2D and 3D (flat polygon in a tilted plane): same predicate through the API
    from ezdxf.math import Vec3

    for kind, ext, holes in valid_with_holes(ctx, "api", ctx.n(100, 1000)):
        res = TRI.mapbox_earcut_2d([Vec2(p) for p in ext], [[Vec2(p) for p in h] for h in holes])
        index = {}
        for k, p in enumerate(list(ext) + [p for h in holes for p in h]):
            index.setdefault((float(p[0]), float(p[1])), k)
        tris = [tuple(index.get((v.x, v.y), -1) for v in t) for t in res]
        ctx.count("O1 triangulation", ("api2d", tuple(ext)), True)
        why = check_triangulation(ext, holes, tris, list(ext) + [p for h in holes for p in h])
        if why:
            cls = "earcut-steiner" if any(len(h) == 1 for h in holes) else "earcut"
            ctx.fail(f"{cls}/api2d/{pl(ext)}"[:300], f"mapbox_earcut_2d {ext} {holes}: {why}", {"op": "earcut2d", "ext": [list(map(str, p)) for p in ext], "holes": [[list(map(str, p)) for p in h] for h in holes]})
        res3 = list(TRI.mapbox_earcut_3d([Vec3(p[0], p[1], 5.0) for p in ext], [[Vec3(p[0], p[1], 5.0) for p in h] for h in holes]))
        a3 = sum(abs((t[1] - t[0]).cross(t[2] - t[0]).z) for t in res3)
        want = abs(area2(ext)) - sum(abs(area2(h)) for h in holes)
        if len(ext) > 3 and not close(a3, want, 1e-9):
            cls = "earcut-steiner" if any(len(h) == 1 for h in holes) else "earcut"
            ctx.fail(f"{cls}/api3d/{pl(ext)}"[:300], f"mapbox_earcut_3d area {a3 / 2} != {want / 2}", {"op": "earcut3d", "ext": [list(map(str, p)) for p in ext]})


def float_area2(vs):
    s = 0.0
    for i in range(len(vs)):
        a, b = vs[i - 1], vs[i]
        s += a.x * b.y - b.x * a.y
    return s


def dist_to_boundary(p, poly):
    best = math.inf
    for i in range(len(poly)):
        a, b = poly[i - 1], poly[i]
        ax, ay, bx, by = float(a[0]), float(a[1]), float(b[0]), float(b[1])
        dx, dy = bx - ax, by - ay
        L = dx * dx + dy * dy
        t = 0.0 if L == 0 else max(0.0, min(1.0, ((p.x - ax) * dx + (p.y - ay) * dy) / L))
        best = min(best, math.hypot(p.x - (ax + t * dx), p.y - (ay + t * dy)))
    return best


def window_set(ctx, rng, count):
    """convex clipping windows (ccw lists of Fractions), rectangles first"""
    out = []
    for _ in range(count):
        if rng.random() < 0.5:
            lo = (F(rng.randint(0, 5)), F(rng.randint(0, 5)))
            hi = (lo[0] + rng.randint(1, 5), lo[1] + rng.randint(1, 5))
            out.append(("rect", [lo, (hi[0], lo[1]), hi, (lo[0], hi[1])]))
        else:
            w = hull_exact([(F(rng.randint(0, 12), 2), F(rng.randint(0, 12), 2)) for _ in range(rng.randint(3, 8))])
            if len(w) >= 3:
                out.append(("convex", w))
    return out


def liang_barsky(w, a, b):
    """exact clipping of segment ab against a convex ccw polygon: (t0, t1) or None"""
    t0, t1 = F(0), F(1)
    for i in range(len(w)):
        c, d = w[i - 1], w[i]
        sa, sb = orient(c, d, a), orient(c, d, b)
        if sa < 0 and sb < 0:
            return None
        if sa < 0:
            t0 = max(t0, F(sa) / F(sa - sb))
        elif sb < 0:
            t1 = min(t1, F(sa) / F(sa - sb))
    return (t0, t1) if t0 <= t1 else None


def oracle_clipping(ctx):
    from ezdxf.math import Vec2
    from ezdxf.math.clipping import ConvexClippingPolygon2d, ClippingRect2d, ConcaveClippingPolygon2d, CohenSutherlandLineClipping2d

    rng = ctx.rng("clip")
    V = lambda p: Vec2(float(p[0]), float(p[1]))
    subjects = []
    for n in (3, 4, 5, 6, 7 if not ctx.quick else 6):
        g = grid_simple_polygons(4, n)
        subjects += [[(F(3 * x, 2), F(3 * y, 2)) for x, y in rng.choice(g)] for _ in range(ctx.n(15, 80))]
    for kind, w in window_set(ctx, rng, ctx.n(50, 400)):
        rect = ClippingRect2d(V(w[0]), V(w[2])) if kind == "rect" else None
        conv = ConvexClippingPolygon2d([V(p) for p in w])
        for subj in rng.sample(subjects, ctx.n(10, 30)):
            if rng.random() < 0.3:  # move a window edge onto a subject vertex / make edges collinear
                subj = [(x + w[0][0] - subj[0][0], y + w[0][1] - subj[0][1]) for x, y in subj]
            want = inter_area2(subj, w)
            for name, clipper in (("ConvexClippingPolygon2d", conv), ("ClippingRect2d", rect)):
                if clipper is None:
                    continue
                res = list(clipper.clip_polygon([V(p) for p in subj])[0])
                ctx.count("O2 convex clipping of polygons", (name, tuple(w), tuple(subj)), 0 < want < abs(area2(subj)))
                key = f"clip-polygon/{name}/{pl(w)}|{pl(subj)}"[:300]
                rep = {"op": "clip_polygon", "cls": name, "window": [list(map(str, p)) for p in w], "subject": [list(map(str, p)) for p in subj]}
                scale = 1.0 + max(abs(float(c)) for p in subj + w for c in p)
                bad = None
                for v in res:
                    if any(float(orient(w[i - 1], w[i], (F(v.x), F(v.y)))) < -EPS * scale * scale for i in range(len(w))):
                        bad = f"vertex {v} outside the window"
                    elif dist_to_boundary(v, subj) > EPS * scale and dist_to_boundary(v, w) > EPS * scale:
                        bad = f"vertex {v} neither on the subject boundary nor on the window boundary"
                got = abs(float_area2(res)) if len(res) >= 3 else 0.0
                if bad is None and abs(got - float(want)) > EPS * scale * scale:
                    bad = f"area {got / 2} != exact area of the intersection {float(want) / 2}"
                if bad:
                    ctx.fail(key, f"{name}({w}).clip_polygon({subj}): {bad}", rep)
        # lines and polylines against the same window
        for _ in range(ctx.n(20, 60)):
            a = (F(rng.randint(-4, 24), 2), F(rng.randint(-4, 24), 2))
            b = (F(rng.randint(-4, 24), 2), F(rng.randint(-4, 24), 2))
            if rng.random() < 0.3:  # along a window edge / through a window corner
                i = rng.randrange(len(w))
                c, d = w[i - 1], w[i]
                t, u = F(rng.randint(-2, 6), 4), F(rng.randint(-2, 6), 4)
                a = (c[0] + t * (d[0] - c[0]), c[1] + t * (d[1] - c[1]))
                b = (c[0] + u * (d[0] - c[0]), c[1] + u * (d[1] - c[1])) if rng.random() < 0.5 else b
            if a == b:
                continue
            exact = liang_barsky(w, a, b)
            for name, clipper in (("ConvexClippingPolygon2d", conv), ("ClippingRect2d", rect)):
                if clipper is None:
                    continue
                key = f"clip-line/{name}/{pl(w)}|{ps(a)}|{ps(b)}"[:300]
                rep = {"op": "clip_line", "cls": name, "window": [list(map(str, p)) for p in w], "a": list(map(str, a)), "b": list(map(str, b))}
                try:
                    with watchdog(2.0):
                        res = clipper.clip_line(V(a), V(b))
                except Hang:
                    ctx.fail("cs/hang/" + key, f"{name}.clip_line does not return: window {w} line {a}->{b}", rep)
                    continue
                ctx.count("O2b convex clipping of lines", (name, tuple(w), a, b), exact is not None)
                L = math.hypot(float(b[0] - a[0]), float(b[1] - a[1]))
                want_len = 0.0 if exact is None else float(exact[1] - exact[0]) * L
                got_len = sum(s.distance(e) for s, e in res)
                bad = None
                if abs(want_len - got_len) > 1e-9 * (1 + L):
                    bad = f"clipped length {got_len} != exact {want_len}"
                elif res and exact is not None:
                    s, e = res[0]
                    es = (float(a[0] + exact[0] * (b[0] - a[0])), float(a[1] + exact[0] * (b[1] - a[1])))
                    if math.hypot(s.x - es[0], s.y - es[1]) > 1e-9 * (1 + L):
                        bad = f"start {s} != exact {es}"
                if bad:
                    ctx.fail(key, f"{name}({w}).clip_line({a}, {b}) = {res}: {bad}", rep)
    # Cohen-Sutherland with arbitrary doubles through / near the window corners: must return
    # corpus: lines on which clip_line did not return before fix 435c9c75f
    known = [((0.0, 0.0), (0.3, 0.9), (-1.0, 0.0), (1.6, 1.8)),
             ((-1.8235708280514515, -2.0836537051291737), (-1.3195868047377943, 1.5929110349303293),
              (-12.581545355849991, -5.253434649144358), (8.860937774076618, 7.781833698377621))]
    for k in range(ctx.n(60000, 400000)):
        if k < len(known):
            lo, hi, a, b = known[k]
        else:
            lo = (rng.uniform(-10, 10), rng.uniform(-10, 10))
            hi = (lo[0] + rng.uniform(0.1, 5), lo[1] + rng.uniform(0.1, 5))
            c = (rng.choice([lo[0], hi[0]]), rng.choice([lo[1], hi[1]]))
            dx, dy = rng.uniform(-5, 5), rng.uniform(-5, 5)
            t1, t2 = rng.uniform(0.1, 3), rng.uniform(0.1, 3)
            a, b = (c[0] - dx * t1, c[1] - dy * t1), (c[0] + dx * t2, c[1] + dy * t2)
        cs = CohenSutherlandLineClipping2d(Vec2(lo), Vec2(hi))
        ctx.count("O2c Cohen-Sutherland returns", (lo, hi, a, b), True)
        try:
            try:
                with watchdog(0.25):
                    res = cs.clip_line(Vec2(a), Vec2(b))
            except Hang:  # confirm with a longer limit (a loaded machine must not produce a finding)
                with watchdog(2.0):
                    res = cs.clip_line(Vec2(a), Vec2(b))
        except Hang:
            ctx.fail(f"cs/hang/{lo!r}|{hi!r}|{a!r}|{b!r}", f"CohenSutherlandLineClipping2d({lo}, {hi}).clip_line({a}, {b}) does not return (rounding makes the outcode alternate)",
                     {"op": "cs-float", "lo": list(lo), "hi": list(hi), "a": list(a), "b": list(b)})
            continue
        for v in res:
            if not (lo[0] - 1e-9 <= v.x <= hi[0] + 1e-9 and lo[1] - 1e-9 <= v.y <= hi[1] + 1e-9):
                ctx.fail(f"cs/outside/{lo!r}|{hi!r}|{a!r}|{b!r}", f"clip_line end point {v} outside window {lo}..{hi}", {"op": "cs-float", "lo": list(lo), "hi": list(hi), "a": list(a), "b": list(b)})
    # concave clipping polygon: lines (general position and touching) against exact inside intervals
    for _ in range(ctx.n(150, 1500)):
        n = rng.choice([4, 5, 6])
        poly = [(F(2 * x), F(2 * y)) for x, y in rng.choice(grid_simple_polygons(4, n))]
        clipper = ConcaveClippingPolygon2d([V(p) for p in poly])
        for _ in range(8):
            general = rng.random() < 0.6
            if general:
                a = (F(rng.randint(-8, 56), 8) + F(1, 16), F(rng.randint(-8, 56), 8) + F(1, 32))
                b = (F(rng.randint(-8, 56), 8) + F(1, 64), F(rng.randint(-8, 56), 8) + F(1, 128))
            else:
                a = (F(rng.randint(-1, 7)), F(rng.randint(-1, 7)))
                b = (F(rng.randint(-1, 7)), F(rng.randint(-1, 7)))
            if a == b:
                continue
            # exact inside length: cut parameters, midpoints classified exactly (closed polygon)
            ts = {F(0), F(1)}
            for i in range(len(poly)):
                c, d = poly[i - 1], poly[i]
                da, db = orient(c, d, a), orient(c, d, b)
                if da != db and seg_touch(a, b, c, d):
                    ts.add(F(da) / F(da - db))
                for q in (c, d):
                    if on_seg(a, b, q):
                        den = (b[0] - a[0]) if b[0] != a[0] else (b[1] - a[1])
                        ts.add(F((q[0] - a[0]) if b[0] != a[0] else (q[1] - a[1])) / F(den))
            ts = sorted(ts)
            inside_len = F(0)
            for t0, t1 in zip(ts, ts[1:]):
                m = (a[0] + (t0 + t1) / 2 * (b[0] - a[0]), a[1] + (t0 + t1) / 2 * (b[1] - a[1]))
                if pip_exact(m, poly) >= 0:
                    inside_len += t1 - t0
            L = math.hypot(float(b[0] - a[0]), float(b[1] - a[1]))
            try:
                with watchdog(2.0):
                    res = clipper.clip_line(V(a), V(b))
            except Hang:
                ctx.fail(f"concave/hang/{pl(poly)}|{ps(a)}|{ps(b)}", "ConcaveClippingPolygon2d.clip_line does not return", {"op": "concave_line", "poly": [list(map(str, p)) for p in poly], "a": list(map(str, a)), "b": list(map(str, b))})
                continue
            got = sum(s.distance(e) for s, e in res)
            stream = "O2d concave clipping of lines (general position)" if general else "O2e concave clipping of lines (touching, collinear)"
            ctx.count(stream, (tuple(poly), a, b), 0 < inside_len < 1)
            if abs(got - float(inside_len) * L) > 1e-8 * (1 + L):
                if pip_exact(a, poly) == 0:
                    kind = "start-on-boundary"
                elif any(on_seg(a, b, q) for q in poly):
                    kind = "through-vertex"
                elif pip_exact(b, poly) == 0:
                    kind = "end-on-boundary"
                else:
                    kind = "general" if general else "touching-other"
                ctx.fail(f"concave-line/{kind}/{pl(poly)}|{ps(a)}|{ps(b)}"[:300],
                         f"ConcaveClippingPolygon2d({poly}).clip_line({a}, {b}) = {res}: inside length {got} != exact {float(inside_len) * L}",
                         {"op": "concave_line", "poly": [list(map(str, p)) for p in poly], "a": list(map(str, a)), "b": list(map(str, b))})


def general_position(P, Q):
    """no vertex of one polygon on an edge (line segment) of the other, no parallel overlapping edges"""
    for A, B in ((P, Q), (Q, P)):
        for p in A:
            for i in range(len(B)):
                if on_seg(B[i - 1], B[i], p):
                    return False
    return True


def oracle_greiner_hormann(ctx):
    from ezdxf.math import Vec2
    from ezdxf.math.clipping import greiner_hormann_union, greiner_hormann_intersection, greiner_hormann_difference, ConcaveClippingPolygon2d

    rng = ctx.rng("gh")
    done = 0
    tries = 0
    target = ctx.n(400, 4000)
    while done < target and tries < 20 * target:
        tries += 1
        P = star_polygon(rng, rng.choice([3, 4, 5, 7, 9]), 16)
        Q = star_polygon(rng, rng.choice([3, 4, 5, 7, 9]), 16)
        off = (F(rng.randint(-40, 40), 4) + F(1, 8), F(rng.randint(-40, 40), 4) + F(1, 16))
        Q = [(F(x) + off[0], F(y) + off[1]) for x, y in Q]
        P = [(F(x), F(y)) for x, y in P]
        if rng.random() < 0.5:
            Q = Q[::-1]
        if not general_position(P, Q):
            continue
        crossings = sum(1 for i in range(len(P)) for j in range(len(Q)) if seg_proper(P[i - 1], P[i], Q[j - 1], Q[j]))
        if crossings == 0:
            continue
        done += 1
        aP, aQ, aI = abs(area2(P)), abs(area2(Q)), inter_area2(P, Q)
        vp = [Vec2(float(x), float(y)) for x, y in P]
        vq = [Vec2(float(x), float(y)) for x, y in Q]
        rep = {"op": "gh", "p": [list(map(str, p)) for p in P], "q": [list(map(str, p)) for p in Q]}
        key = f"{pl(P)}|{pl(Q)}"[:250]
        try:
            with watchdog(2.0):
                U = greiner_hormann_union(vp, vq)
                I = greiner_hormann_intersection(vp, vq)
                D = greiner_hormann_difference(vp, vq)
        except Hang:
            ctx.fail("gh/hang/" + key, f"greiner_hormann does not return for {P} {Q}", rep)
            continue
        except Exception as e:  # noqa
            ctx.fail(f"gh/raise/{type(e).__name__}/" + key, f"greiner_hormann raised {type(e).__name__}: {e}", rep)
            continue
        ctx.count("O3 Greiner-Hormann area laws", (tuple(P), tuple(Q)), True)
        ctx.hist("O3 Greiner-Hormann area laws", f"{min(crossings, 8)} crossings")
        ua = sorted((abs(float_area2(r)) for r in U), reverse=True)
        union = (ua[0] - sum(ua[1:])) if ua else 0.0
        inter = sum(abs(float_area2(r)) for r in I)
        diff = sum(abs(float_area2(r)) for r in D)
        scale = float(aP + aQ) + 1.0
        bad = []
        if abs(inter - float(aI)) > 1e-9 * scale:
            bad.append(f"area(A&B)={inter / 2} exact {float(aI) / 2}")
        if abs((union + inter) - float(aP + aQ)) > 1e-9 * scale:
            bad.append(f"area(A|B)+area(A&B)={(union + inter) / 2} != area(A)+area(B)={float(aP + aQ) / 2}")
        if abs(diff - float(aP - aI)) > 1e-9 * scale:
            bad.append(f"area(A-B)={diff / 2} exact {float(aP - aI) / 2}")
        if bad:
            ctx.fail("gh/area/" + key, f"Greiner-Hormann on {P} and {Q} (general position, {crossings} crossings): " + "; ".join(bad), rep)
        # the concave clipping polygon uses the same machinery
        try:
            res = ConcaveClippingPolygon2d(vq).clip_polygon(vp)
            got = sum(abs(float_area2(list(r))) for r in res)
            ctx.count("O3b ConcaveClippingPolygon2d.clip_polygon", (tuple(P), tuple(Q)), True)
            if abs(got - float(aI)) > 1e-9 * scale:
                ctx.fail("concave-polygon/area/" + key, f"ConcaveClippingPolygon2d({Q}).clip_polygon({P}): area {got / 2} != exact {float(aI) / 2}", dict(rep, op="concave_polygon"))
        except Exception as e:  # noqa
            ctx.fail(f"concave-polygon/raise/{type(e).__name__}/" + key, f"ConcaveClippingPolygon2d.clip_polygon raised {type(e).__name__}: {e}", dict(rep, op="concave_polygon"))


def oracle_hull_predicates(ctx):
    from ezdxf.math import Vec2, convex_hull_2d
    from ezdxf.math.construct2d import is_convex_polygon_2d, area as area_fn

    _, _, CPY, CCY = impls()
    rng = ctx.rng("hull")
    for _ in range(ctx.n(3000, 30000)):
        n = rng.choice([3, 4, 5, 8, 13, 30, 80])
        G = rng.choice([2, 3, 5, 9, 40])
        pts = [(F(rng.randint(0, 4 * G), 4), F(rng.randint(0, 4 * G), 4)) for _ in range(n)]
        if rng.random() < 0.2:
            k = F(rng.randint(-3, 3))
            pts = [(x, k * x + 1) for x, _ in pts]  # all collinear
        ctx.count("O4 convex hull", tuple(pts), len(set(pts)) > 3)
        key = f"hull/{pl(pts)}"[:300]
        rep = {"op": "hull", "pts": [list(map(str, p)) for p in pts]}
        try:
            h = convex_hull_2d([Vec2(float(x), float(y)) for x, y in pts])
        except ValueError:
            if len(set(pts)) >= 3:
                ctx.fail(key, f"convex_hull_2d raised ValueError for {len(set(pts))} distinct points", rep)
            continue
        hp = [(F(v.x), F(v.y)) for v in h]
        bad = None
        if hp[0] != hp[-1]:
            bad = "result is not closed"
        elif any(p not in set(pts) for p in hp):
            bad = "hull vertex is not an input point"
        else:
            ring = hp[:-1]
            exact = hull_exact(pts)
            if len(exact) >= 3:
                if any(orient(ring[i - 1], ring[i], p) < 0 for i in range(len(ring)) for p in set(pts)):
                    bad = "an input point lies outside the hull"
                elif any(orient(ring[i - 2], ring[i - 1], ring[i]) <= 0 for i in range(len(ring))):
                    bad = "hull is not strictly convex"
                elif sorted(ring) != sorted(exact):
                    bad = "hull differs from the exact hull"
        if bad:
            ctx.fail(key, f"convex_hull_2d({pts}) = {hp}: {bad}", rep)
    # predicates against exact arithmetic, away from the tolerance band (dyadic inputs, exact zero included)
    twins = [("python", CPY)] + ([("cython", CCY)] if CCY is not None else [])
    half = [F(k, 2) for k in range(-1, 8)]
    for n in (3, 4, 5, 6):
        g = grid_simple_polygons(4, n)
        for _ in range(ctx.n(150, 1500)):
            poly = list(rng.choice(g))
            vs = [Vec2(p) for p in poly]
            for name, mod in twins:
                cw = mod.has_clockwise_orientation(vs)
                ctx.count("O5 predicates vs exact arithmetic", ("cw", name, tuple(poly)), True)
                if cw != (area2(poly) < 0):
                    ctx.fail(f"cw/{name}/{pl(poly)}", f"has_clockwise_orientation({poly}) = {cw}", {"op": "cw", "poly": poly})
            a = float(area_fn(vs))
            if abs(a - abs(area2(poly)) / 2) > 1e-12:
                ctx.fail(f"area/{pl(poly)}", f"construct2d.area({poly}) = {a}", {"op": "area", "poly": poly})
            for _ in range(10):
                p = (rng.choice(half), rng.choice(half))
                want = pip_exact(p, poly)
                for name, mod in twins:
                    got = mod.is_point_in_polygon_2d(Vec2(float(p[0]), float(p[1])), vs)
                    ctx.count("O5 predicates vs exact arithmetic", ("pip", name, tuple(poly), p), want >= 0)
                    if got != want:
                        ctx.fail(f"pip/{name}/{pl(poly)}|{ps(p)}", f"is_point_in_polygon_2d({p}, {poly}) = {got}, exact {want}", {"op": "pip", "poly": poly, "p": list(map(str, p))})
    quarter = [F(k, 4) for k in range(-8, 21)]
    for _ in range(ctx.n(3000, 30000)):
        q = [(rng.choice(quarter), rng.choice(quarter)) for _ in range(4)]
        if rng.random() < 0.25:
            t = F(rng.randint(0, 4), 4)
            q[2] = (q[0][0] + t * (q[1][0] - q[0][0]), q[0][1] + t * (q[1][1] - q[0][1]))
        v = [Vec2(float(x), float(y)) for x, y in q]
        den = orient(q[2], q[3], q[0]) - orient(q[2], q[3], q[1])
        for virtual in (True, False):
            if den == 0:
                want = None
            else:
                us = F(orient(q[2], q[3], q[0])) / F(den)
                uc = F(orient(q[0], q[1], q[2])) / F(orient(q[0], q[1], q[2]) - orient(q[0], q[1], q[3])) if orient(q[0], q[1], q[2]) != orient(q[0], q[1], q[3]) else None
                want = (q[0][0] + us * (q[1][0] - q[0][0]), q[0][1] + us * (q[1][1] - q[0][1]))
                if not virtual and not (0 <= us <= 1 and uc is not None and 0 <= uc <= 1):
                    want = None
            for name, mod in twins:
                got = mod.intersection_line_line_2d((v[0], v[1]), (v[2], v[3]), virtual=virtual)
                ctx.count("O5 predicates vs exact arithmetic", ("ill", name, tuple(q), virtual), want is not None)
                ok = (got is None) == (want is None) and (got is None or (close(got.x, want[0]) and close(got.y, want[1])))
                if not ok:
                    ctx.fail(f"ill/{name}/{pl(q)}|{virtual}", f"intersection_line_line_2d({q}, virtual={virtual}) = {got}, exact {want}", {"op": "ill", "q": [list(map(str, p)) for p in q], "virtual": virtual})


# ------------------------------------------------------------------ session 3: convexity predicate, touching contacts
def convex_exact(poly, strict):
    """exact convexity of a vertex sequence (open or closed, coincident neighbours skipped): all non-zero corner
    orientations agree and there is at least one; strict: no zero orientation"""
    ring = [p for i, p in enumerate(poly) if i == 0 or p != poly[i - 1]]
    if len(ring) > 1 and ring[0] == ring[-1]:
        ring.pop()
    if len(ring) < 3:
        return False
    s = [sgn(orient(ring[i - 2], ring[i - 1], ring[i])) for i in range(len(ring))]
    nz = [v for v in s if v]
    if not nz or (strict and len(nz) != len(s)):
        return False
    return all(v == nz[0] for v in nz)


def inside_length_exact(poly, a, b):
    """fraction of the segment ab that lies in the closed simple polygon (exact)"""
    ts = {F(0), F(1)}
    for i in range(len(poly)):
        c, d = poly[i - 1], poly[i]
        da, db = orient(c, d, a), orient(c, d, b)
        if da != db and seg_touch(a, b, c, d):
            ts.add(F(da) / F(da - db))
        for q in (c, d):
            if on_seg(a, b, q):
                den = (b[0] - a[0]) if b[0] != a[0] else (b[1] - a[1])
                ts.add(F((q[0] - a[0]) if b[0] != a[0] else (q[1] - a[1])) / F(den))
    ts = sorted(ts)
    inside = F(0)
    for t0, t1 in zip(ts, ts[1:]):
        m = (a[0] + (t0 + t1) / 2 * (b[0] - a[0]), a[1] + (t0 + t1) / 2 * (b[1] - a[1]))
        if pip_exact(m, poly) >= 0:
            inside += t1 - t0
    return inside


def convexity_cases(ctx, salt):
    """vertex sequences for is_convex_polygon_2d: every start vertex, open and closed, of simple grid polygons (both
    directions are in the enumeration), plus sequences with repeated vertices"""
    rng = ctx.rng(salt)
    out = []
    for n in (3, 4, 5, 6):
        polys = grid_simple_polygons(4, n)
        if n >= 5:
            polys = rng.sample(polys, ctx.n(1500, 12000))
        for poly in polys:
            poly = list(poly)
            for r in range(n):
                q = poly[r:] + poly[:r]
                out.append(q)
                out.append(q + [q[0]])
            if rng.random() < 0.2:
                k = rng.randrange(n)
                out.append(poly[:k] + [poly[k]] + poly[k:])
    out += [[], [(0, 0)], [(0, 0), (1, 1)], [(0, 0), (1, 0), (2, 0)], [(0, 0), (1, 0), (2, 0), (3, 0)], [(0, 0), (0, 0), (0, 0)],
            [(0, 0), (2, 0), (2, 0), (2, 2), (0, 2), (0, 0)]]
    return out


def oracle_convexity(ctx):
    """is_convex_polygon_2d against exact arithmetic (integer inputs: every corner determinant is 0 or at least 1, far from
    the epsilon band), and its user find_best_clipping_shape: a concave clipping path must not get a convex clipper, the
    chosen clipper must return exactly the inside part of a line"""
    from ezdxf.math import Vec2
    from ezdxf.math.construct2d import is_convex_polygon_2d
    from ezdxf.tools.clipping_portal import find_best_clipping_shape, ConcaveClippingPolygon

    rng = ctx.rng("convexity")
    cases = convexity_cases(ctx, "convexity-cases")
    for q in cases:
        vs = [Vec2(p) for p in q]
        for strict in (False, True):
            got = is_convex_polygon_2d(vs, strict=strict)
            want = convex_exact(q, strict)
            ctx.count("O6 is_convex_polygon_2d vs exact", (tuple(q), strict), want)
            if got != want:
                ctx.fail(f"convex/{int(strict)}/{pl(q)}"[:300], f"is_convex_polygon_2d({q}, strict={strict}) = {got}, exact {want}",
                         {"op": "convex", "poly": [list(p) for p in q], "strict": strict})
    # second site: the clipping shape chosen for a clipping path
    sample = [q for q in cases if len(q) >= 4 and len(set(q)) >= 4]
    for q in rng.sample(sample, min(len(sample), ctx.n(1200, 12000))):
        ring = q[:-1] if q[0] == q[-1] else q
        if not is_simple(ring):
            continue
        scaled = [(2 * x, 2 * y) for x, y in q]
        ring2 = [(F(2 * x), F(2 * y)) for x, y in ring]
        shape = find_best_clipping_shape([Vec2(p) for p in scaled])
        concave = not convex_exact(ring, False)
        ctx.count("O6b find_best_clipping_shape", tuple(q), concave)
        if concave and not isinstance(shape, ConcaveClippingPolygon):
            ctx.fail(f"best-shape/class/{pl(q)}"[:300], f"find_best_clipping_shape({scaled}) = {type(shape).__name__} for a concave clipping path",
                     {"op": "best_shape", "poly": [list(p) for p in scaled]})
            continue
        for _ in range(3):
            a = (F(rng.randint(-8, 56), 8) + F(1, 16), F(rng.randint(-8, 56), 8) + F(1, 32))
            b = (F(rng.randint(-8, 56), 8) + F(1, 64), F(rng.randint(-8, 56), 8) + F(1, 128))
            if any(on_seg(a, b, v) for v in ring2) or pip_exact(a, ring2) == 0 or pip_exact(b, ring2) == 0:
                continue
            want = inside_length_exact(ring2, a, b)
            L = math.hypot(float(b[0] - a[0]), float(b[1] - a[1]))
            res = shape.clip_line(Vec2(float(a[0]), float(a[1])), Vec2(float(b[0]), float(b[1])))
            got = sum(s.distance(e) for s, e in res)
            ctx.count("O6b find_best_clipping_shape", (tuple(q), a, b), 0 < want < 1)
            if abs(got - float(want) * L) > 1e-8 * (1 + L):
                ctx.fail(f"best-shape/line/{pl(scaled)}|{ps(a)}|{ps(b)}"[:300],
                         f"find_best_clipping_shape({scaled}) -> {type(shape).__name__}.clip_line({a}, {b}): inside length {got} != exact {float(want) * L}",
                         {"op": "best_shape", "poly": [list(p) for p in scaled], "a": list(map(str, a)), "b": list(map(str, b))})


TOUCH_SHAPES = [[(0, 0), (1, 0), (1, 1), (0, 1)], [(0, 0), (2, 0), (2, 1), (0, 1)], [(0, 0), (1, 0), (0, 1)], [(0, 0), (2, 0), (1, 1)],
                [(0, 0), (1, 1), (0, 2)], [(0, 0), (2, 0), (2, 2), (0, 2)], [(0, 0), (1, 0), (1, 2), (0, 2)], [(0, 0), (2, 1), (0, 1)],
                [(1, 0), (2, 1), (1, 2), (0, 1)]]


def oracle_concave_touching(ctx):
    """ConcaveClippingPolygon2d / InvertedClippingPolygon2d.clip_polygon for subjects that touch the clipping path without
    crossing it (vertex on edge, vertex on vertex, shared edge parts): Greiner-Hormann reports no intersection points, the
    answer is decided by the point-in-polygon tests of the fall-back branch.  Every start vertex, both directions."""
    from ezdxf.math import Vec2
    from ezdxf.math.clipping import ConcaveClippingPolygon2d

    rng = ctx.rng("concave-touch")
    V = lambda p: Vec2(float(p[0]), float(p[1]))
    done = 0
    target = ctx.n(700, 7000)
    tries = 0
    while done < target and tries < 40 * target:
        tries += 1
        n = rng.choice([5, 6, 6])
        poly = [(2 * x, 2 * y) for x, y in rng.choice(grid_simple_polygons(4, n))]
        if convex_exact(poly, False):
            continue
        sh = rng.choice(TOUCH_SHAPES)
        ox, oy = rng.randint(-1, 6), rng.randint(-1, 6)
        subj = [(ox + x, oy + y) for x, y in sh]
        if any(seg_proper(subj[i - 1], subj[i], poly[j - 1], poly[j]) for i in range(len(subj)) for j in range(len(poly))):
            continue
        if not any(seg_touch(subj[i - 1], subj[i], poly[j - 1], poly[j]) for i in range(len(subj)) for j in range(len(poly))):
            if rng.random() < 0.9:
                continue
        want = inter_area2(subj, poly)
        codes = [pip_exact(p, poly) for p in subj]
        if want == 0:
            cls = "outside-all-on-boundary" if all(c == 0 for c in codes) else "outside"
        elif want == abs(area2(subj)):
            cls = "inside"
        else:
            cls = "partial"  # the boundaries cross in vertices only
        done += 1
        clipper = ConcaveClippingPolygon2d([V(p) for p in poly])
        variants = []
        for d in (subj, subj[::-1]):
            for r in range(len(d)):
                variants.append(d[r:] + d[:r])
        for sv in variants:
            ctx.count("O7 concave clip_polygon, touching subjects", (tuple(poly), tuple(sv)), want != 0)
            ctx.hist("O7 concave clip_polygon, touching subjects", cls)
            try:
                res = clipper.clip_polygon([V(p) for p in sv])
            except Exception as e:  # noqa
                ctx.fail(f"concave-polygon/raise/{type(e).__name__}/{pl(poly)}|{pl(sv)}"[:300], f"ConcaveClippingPolygon2d.clip_polygon raised {type(e).__name__}: {e}",
                         {"op": "concave_polygon", "q": [list(map(str, p)) for p in poly], "p": [list(map(str, p)) for p in sv]})
                break
            got = sum(abs(float_area2(list(r))) for r in res)
            if abs(got - float(want)) > 1e-9 * (1 + float(abs(area2(subj)))):
                ctx.fail(f"concave-polygon/touching/{cls}/{pl(poly)}|{pl(sv)}"[:300],
                         f"ConcaveClippingPolygon2d({poly}).clip_polygon({sv}) (touching, no proper crossing; {cls}): area {got / 2} != exact {float(want) / 2}",
                         {"op": "concave_polygon", "q": [list(map(str, p)) for p in poly], "p": [list(map(str, p)) for p in sv]})


def touching_holes(rng, ext, tries):
    """holes (triangles / quadrilaterals, integer vertices) with exactly one vertex t on the boundary of ext (an exterior
    vertex or the midpoint of an exterior edge), everything else strictly inside; t is the first vertex"""
    n = len(ext)
    xs = [p[0] for p in ext]
    ys = [p[1] for p in ext]
    inner = [(x, y) for x in range(min(xs), max(xs) + 1) for y in range(min(ys), max(ys) + 1) if pip_exact((x, y), ext) == 1]
    out = []
    if len(inner) < 2:
        return out
    cands = list(ext) + [((ext[i - 1][0] + ext[i][0]) // 2, (ext[i - 1][1] + ext[i][1]) // 2) for i in range(n)
                         if (ext[i - 1][0] + ext[i][0]) % 2 == 0 and (ext[i - 1][1] + ext[i][1]) % 2 == 0]
    ext2 = [(2 * x, 2 * y) for x, y in ext]

    def seg_ok(t, a):  # the half open segment (t, a] lies strictly inside ext
        for j in range(n):
            c, d = ext[j - 1], ext[j]
            if seg_proper(t, a, c, d) or (c != t and on_seg(t, a, c)) or (d != t and on_seg(t, a, d)) or on_seg(c, d, a):
                return False
        return pip_exact((t[0] + a[0], t[1] + a[1]), ext2) == 1

    for _ in range(tries):
        t = rng.choice(cands)
        hole = [t] + rng.sample(inner, min(rng.choice([2, 2, 3]), len(inner)))
        if not is_simple(hole) or area2(hole) == 0:
            continue
        if not (seg_ok(t, hole[1]) and seg_ok(t, hole[-1])):
            continue
        if any(seg_touch(hole[i], hole[i + 1], ext[j - 1], ext[j]) for i in range(1, len(hole) - 1) for j in range(n)):
            continue
        if any(p != t and pip_exact(p, hole) >= 0 for p in ext):
            continue
        out.append(hole)
    return out


def touching_hole_cases(ctx, salt, count):
    """(exterior, hole variants): a hole touching the exterior in one point, every start vertex, both directions, open/closed"""
    rng = ctx.rng(salt)
    out = []
    # corpus: the inputs of the three find_hole_bridge defects fixed by 6e5a41fe8, 13723478a, 0f325b9d9
    for ext, hole in (([(0, 0), (4, 12), (12, 12), (8, 4), (4, 4)], [(8, 4), (10, 11), (8, 8)]),
                      ([(8, 4), (12, 4), (12, 8), (0, 0)], [(10, 4), (10, 6), (11, 6), (11, 5)]),
                      ([(0, 0), (4, 4), (12, 8), (12, 12), (8, 12)], [(8, 6), (8, 7), (9, 9)])):
        variants = []
        for d in (hole, hole[::-1]):
            for r in range(len(d)):
                variants.append(d[r:] + d[:r])
        out.append((ext, hole, variants))
    tries = 0
    while len(out) < count and tries < 20 * count:
        tries += 1
        n = rng.choice([4, 5, 6])
        ext = [(4 * x, 4 * y) for x, y in rng.choice(grid_simple_polygons(4, n))]
        if rng.random() < 0.3:
            r = rng.randrange(n)
            ext = ext[r:] + ext[:r]
        for hole in touching_holes(rng, ext, 6)[:2]:
            variants = []
            for d in (hole, hole[::-1]):
                for r in range(len(d)):
                    v = d[r:] + d[:r]
                    variants.append(v)
                    if r == 0:
                        variants.append(v + [v[0]])
            out.append((ext, hole, variants))
    return out


def oracle_touching_holes(ctx):
    """triangulation of polygons whose hole touches the exterior in one point (hole vertex on an exterior edge or on an
    exterior vertex), through the public entry point mapbox_earcut_2d and through both earcut implementations"""
    PY, CY, _, _ = impls()
    from ezdxf.math import Vec2
    from ezdxf.math import triangulation as TRI

    mods = [("python", PY.earcut)] + ([("cython", CY.earcut)] if CY is not None else [])
    for ext, hole, variants in touching_hole_cases(ctx, "touching-holes", ctx.n(250, 2500)):
        at_vertex = hole[0] in ext
        for hv in variants:
            ring = hv[:-1] if hv[0] == hv[-1] else hv
            pts_all = list(ext) + list(hv)
            core_ok = True
            for name, fn in mods:
                tris = run_earcut(fn, ext, [hv], lambda p: Vec2(p))
                ctx.count("O8 holes touching the exterior", (name, tuple(ext), tuple(hv)), True)
                why = check_triangulation(ext, [ring], tris, pts_all)
                if why:
                    core_ok = False
                    ctx.fail(f"earcut/touching-hole/{'vertex' if at_vertex else 'edge'}/{name}/{pl(ext)}|{pl(hv)}"[:300],
                             f"{name} earcut of {ext} with hole {hv} touching the exterior in {hole[0]}: {why}; triangles {tris}",
                             {"op": "earcut", "impl": name, "ext": [list(map(str, p)) for p in ext], "holes": [[list(map(str, p)) for p in hv]]})
            res = TRI.mapbox_earcut_2d([Vec2(p) for p in ext], [[Vec2(p) for p in hv]])
            index = {}
            for k, p in enumerate(pts_all):
                index.setdefault((float(p[0]), float(p[1])), k)
            tris = [tuple(index.get((v.x, v.y), -1) for v in t) for t in res]
            ctx.count("O8 holes touching the exterior", ("api2d", tuple(ext), tuple(hv)), True)
            why = check_triangulation(ext, [ring], tris, pts_all)
            if why and core_ok:
                ctx.fail(f"earcut/api2d-touching/{pl(ext)}|{pl(hv)}"[:300],
                         f"mapbox_earcut_2d({ext}, [{hv}]) (hole touches the exterior in {hole[0]}): {why}; earcut() itself is right on this input",
                         {"op": "earcut2d", "ext": [list(map(str, p)) for p in ext], "holes": [[list(map(str, p)) for p in hv]]})


def segment_inside_fraction(a, b, polys, pred):
    """fraction of the segment ab whose points satisfy pred (exact); the status can only change where ab meets an edge of polys"""
    ts = {F(0), F(1)}
    for poly in polys:
        for i in range(len(poly)):
            c, d = poly[i - 1], poly[i]
            da, db = orient(c, d, a), orient(c, d, b)
            if da != db and seg_touch(a, b, c, d):
                ts.add(F(da) / F(da - db))
            for q in (c, d):
                if on_seg(a, b, q):
                    den = (b[0] - a[0]) if b[0] != a[0] else (b[1] - a[1])
                    ts.add(F((q[0] - a[0]) if b[0] != a[0] else (q[1] - a[1])) / F(den))
    ts = sorted(ts)
    inside = F(0)
    for t0, t1 in zip(ts, ts[1:]):
        m = (a[0] + (t0 + t1) / 2 * (b[0] - a[0]), a[1] + (t0 + t1) / 2 * (b[1] - a[1]))
        if pred(m):
            inside += t1 - t0
    return inside


def oracle_polylines(ctx):
    """clip_polyline of the convex, rectangular, concave and inverted clipping shapes: the total length of the returned parts is the
    exact length of the polyline inside the shape (general position and integer grid positions with touching / collinear / through-vertex
    contacts), every part is a chain of consecutive points"""
    from ezdxf.math import Vec2, BoundingBox2d
    from ezdxf.math.clipping import ConvexClippingPolygon2d, ClippingRect2d, ConcaveClippingPolygon2d, InvertedClippingPolygon2d

    rng = ctx.rng("polylines")
    V = lambda p: Vec2(float(p[0]), float(p[1]))
    ob = [(F(-2), F(-2)), (F(8), F(-2)), (F(8), F(8)), (F(-2), F(8))]
    for _ in range(ctx.n(700, 7000)):
        poly = [(F(2 * x), F(2 * y)) for x, y in rng.choice(grid_simple_polygons(4, rng.choice([4, 5, 6])))]
        general = rng.random() < 0.5
        m = rng.randint(2, 5)
        if general:
            line = [(F(rng.randint(-8, 56), 8) + F(1, 2 ** (4 + j)), F(rng.randint(-8, 56), 8) + F(1, 2 ** (10 + j))) for j in range(m)]
        else:
            line = [(F(rng.randint(-1, 7)), F(rng.randint(-1, 7))) for _ in range(m)]
        line = [p for i, p in enumerate(line) if i == 0 or p != line[i - 1]]
        if len(line) < 2:
            continue
        hull = hull_exact(poly)
        lo = (min(p[0] for p in poly), min(p[1] for p in poly))
        hi = (max(p[0] for p in poly), max(p[1] for p in poly))
        rect = [lo, (hi[0], lo[1]), hi, (lo[0], hi[1])]
        shapes = [
            ("ConcaveClippingPolygon2d", ConcaveClippingPolygon2d([V(p) for p in poly]), [poly], lambda q: pip_exact(q, poly) >= 0),
            ("ConvexClippingPolygon2d", ConvexClippingPolygon2d([V(p) for p in hull]), [hull], lambda q: pip_exact(q, hull) >= 0),
            ("ClippingRect2d", ClippingRect2d(V(lo), V(hi)), [rect], lambda q: lo[0] <= q[0] <= hi[0] and lo[1] <= q[1] <= hi[1]),
            ("InvertedClippingPolygon2d", InvertedClippingPolygon2d([V(p) for p in poly], BoundingBox2d([V(ob[0]), V(ob[2])])), [poly, ob],
             lambda q: -2 <= q[0] <= 8 and -2 <= q[1] <= 8 and pip_exact(q, poly) <= 0),
        ]
        for name, clipper, polys, pred in shapes:
            want = 0.0
            for a, b in zip(line, line[1:]):
                want += float(segment_inside_fraction(a, b, polys, pred)) * math.hypot(float(b[0] - a[0]), float(b[1] - a[1]))
            key = f"clip-polyline/{name}/{'general' if general else 'grid'}/{pl(poly)}|{pl(line)}"[:300]
            rep = {"op": "clip_polyline", "cls": name, "poly": [list(map(str, p)) for p in poly], "line": [list(map(str, p)) for p in line]}
            try:
                with watchdog(2.0):
                    parts = clipper.clip_polyline([V(p) for p in line])
            except Hang:
                ctx.fail("hang/" + key, f"{name}.clip_polyline does not return", rep)
                continue
            ctx.count("O9 clip_polyline", (name, tuple(poly), tuple(line)), 0 < want)
            got = sum(p0.distance(p1) for part in parts for p0, p1 in zip(part, part[1:]))
            if abs(got - want) > 1e-8 * (1 + want):
                ctx.fail(key, f"{name}({poly}).clip_polyline({line}): length of the returned parts {got} != exact inside length {want}", rep)



def oracle(ctx):
    ctx.note("oracle O1: triangles use input vertices only, are counter-clockwise, exact area sum = polygon area minus holes, "
             "pairwise exact non-overlap (separating axis), centroid inside; both implementations; > 80 vertices for the hashed path")
    ctx.note("oracle O2: clip_polygon result inside the window, on subject/window boundary, area = exact area of the intersection "
             "(signed fan decomposition + convex vertex enumeration in Fractions, tolerance 1e-9); clip_line = exact Liang-Barsky; "
             "Cohen-Sutherland must return (0.25 s watchdog); concave clip_line = exact inside length")
    ctx.note("oracle O3: Greiner-Hormann on polygons in general position with at least one proper crossing: area(A&B) exact, "
             "area(A)+area(B) = area(A|B)+area(A&B), area(A-B) = area(A)-area(A&B), tolerance 1e-9 relative")
    ctx.note("oracle O6-O8 (session 3): is_convex_polygon_2d vs exact arithmetic for every start vertex / open / closed / repeated vertices, "
             "find_best_clipping_shape (class and clipped line length); concave clip_polygon for subjects touching the clipping path "
             "without crossing it, every start vertex; triangulation with a hole touching the exterior, every start vertex, via "
             "mapbox_earcut_2d and both earcut implementations; O9: clip_polyline of the convex, rectangular, concave and inverted clipping shapes: "
             "exact inside length, general position and grid positions")
    for part in (oracle_triangulation, oracle_clipping, oracle_greiner_hormann, oracle_hull_predicates, oracle_convexity,
                 oracle_concave_touching, oracle_touching_holes, oracle_polylines):
        try:
            part(ctx)
        except Exception as e:  # noqa: an exception escaping from the implementation is a finding of its own
            import traceback

            tb = traceback.extract_tb(e.__traceback__)
            inside = [fr for fr in tb if "/ezdxf/" in fr.filename]
            if not inside:
                raise
            where = f"{inside[-1].filename.split('/ezdxf/')[-1]}:{inside[-1].name}"
            ctx.fail(f"raise/{part.__name__}/{type(e).__name__}/{where}", f"{part.__name__}: {type(e).__name__}: {e} raised in {where}; "
                     "the remaining inputs of this part were not evaluated", {"op": "raise", "part": part.__name__})


def replay(ctx, rep):
    from ezdxf.math import Vec2
    from ezdxf.math.clipping import CohenSutherlandLineClipping2d

    bad = []
    PY, CY, _, _ = impls()
    for f in rep.get("failing_inputs", []):
        r = f["replay"]
        try:
            if r["op"] == "earcut":
                ext = [(F(a), F(b)) for a, b in r["ext"]]
                holes = [[(F(a), F(b)) for a, b in h] for h in r["holes"]]
                fn = PY.earcut if r.get("impl") == "python" or CY is None else CY.earcut
                tris = run_earcut(fn, ext, holes, lambda p: Vec2(float(p[0]), float(p[1])))
                why = check_triangulation(ext, holes, tris, ext + [p for h in holes for p in h])
                if why:
                    bad.append(f"{f['key'][:80]}: {why}")
            elif r["op"] in ("cs", "cs-float"):
                conv = (lambda v: float(F(v))) if r["op"] == "cs" else float
                lo, hi, a, b = ([conv(v) for v in r[k]] for k in ("lo", "hi", "a", "b"))
                try:
                    with watchdog(1.0):
                        CohenSutherlandLineClipping2d(Vec2(lo), Vec2(hi)).clip_line(Vec2(a), Vec2(b))
                except Hang:
                    bad.append(f"{f['key'][:80]}: does not return")
            elif r["op"] == "convex":
                from ezdxf.math.construct2d import is_convex_polygon_2d

                q = [tuple(p) for p in r["poly"]]
                if is_convex_polygon_2d([Vec2(p) for p in q], strict=r["strict"]) != convex_exact(q, r["strict"]):
                    bad.append(f"{f['key'][:80]}: differs from exact convexity")
            elif r["op"] == "earcut2d":
                from ezdxf.math import triangulation as TRI

                ext = [(F(a), F(b)) for a, b in r["ext"]]
                holes = [[(F(a), F(b)) for a, b in h] for h in r["holes"]]
                res = TRI.mapbox_earcut_2d([Vec2(float(x), float(y)) for x, y in ext], [[Vec2(float(x), float(y)) for x, y in h] for h in holes])
                rings = [h[:-1] if len(h) > 1 and h[0] == h[-1] else h for h in holes]
                pts_all = ext + [p for h in holes for p in h]
                index = {}
                for k, p in enumerate(pts_all):
                    index.setdefault((float(p[0]), float(p[1])), k)
                why = check_triangulation(ext, rings, [tuple(index.get((v.x, v.y), -1) for v in t) for t in res], pts_all)
                if why:
                    bad.append(f"{f['key'][:80]}: {why}")
            elif r["op"] == "concave_polygon":
                from ezdxf.math.clipping import ConcaveClippingPolygon2d

                Q = [(F(a), F(b)) for a, b in r["q"]]
                P = [(F(a), F(b)) for a, b in r["p"]]
                res = ConcaveClippingPolygon2d([Vec2(float(x), float(y)) for x, y in Q]).clip_polygon([Vec2(float(x), float(y)) for x, y in P])
                got = sum(abs(float_area2(list(x))) for x in res)
                if abs(got - float(inter_area2(P, Q))) > 1e-9 * (1 + float(abs(area2(P)))):
                    bad.append(f"{f['key'][:80]}: area {got / 2} != exact {float(inter_area2(P, Q)) / 2}")
            else:
                bad.append(f"{f['key'][:80]}: replay of op {r['op']} = rerun ./check C19 with the recorded seed")
        except Exception as e:  # noqa
            bad.append(f"{f['key'][:80]}: {type(e).__name__}")
    return (not bad, "; ".join(bad) or "all recorded failing inputs pass now")

"""C15  Bounding boxes contain the geometry and are tight (DESIGN.md section 7, C15)."""
from __future__ import annotations

import ast
import hashlib
import itertools
import math
from fractions import Fraction

from leanfmt import lean_list, lean_str

ID = "C15"
LEAN_MODULES = ["EzdxfVerif.Props.C15"]
DRIVER_DEPS = ["EzdxfVerif.Model.BBox", "EzdxfVerif.Model.BBoxTree", "EzdxfVerif.Gen.BBoxKernels", "Drivers.Proto"]
RULE = (
    "correspondence X1 (box algebra): every ordered pair of a structured grid of boxes (empty, zero-size point, flat, "
    "touching at a face/edge/corner, nested, properly overlapping, disjoint, inverted corners written through the public "
    "attributes) for BoundingBox and BoundingBox2d and the mixed 2d/3d calls: union, intersection, has_intersection, "
    "has_overlap, contains, is_empty, size, center, rect_vertices, cube_vertices; every box x every grid point: inside, extend; point lists: constructor, "
    "extend, all_inside, any_inside; grow for values around the ValueError threshold; exact comparison (inputs are "
    "multiples of 1/4, results converted with Fraction(float)). X2 (Bezier): Bezier4P/Bezier3P.point (default = Cython "
    "class and the pure Python twin) for dyadic control points and t = k/8, exact. X3 (cache protocol): the model of "
    "Cache/multi_recursive/multi_flat/extents (yielded boxes, resulting box, cache content, hits, misses) vs. the real "
    "functions on generated documents with integer LINE/POINT/LWPOLYLINE entities, nested INSERTs with ATTRIBs, HATCH, "
    "repeated and overlapping calls with one cache. Generated kernels (Gen/BBoxKernels.lean, translated from the AST of "
    "math/bbox.py, _bezier4p.py, _bezier3p.py on every run) are proved equal to the hand model for all inputs. "
    "non-trivial = at least one operand has data (X1), t strictly inside (0,1) (X2), a cache is in use (X3); distinct by "
    "hash of the request line. oracle O1: ezdxf.bbox.extents per top-level entity (precise and fast) on generated documents "
    "with LINE, POINT, CIRCLE, ARC, ELLIPSE, LWPOLYLINE/POLYLINE with bulges, SPLINE (degree 2-4, rational), SOLID, 3DFACE, "
    "3D POLYLINE and nested INSERT/MINSERT (depth <= 3, translation, non-uniform/negative scale, rotation, tilted extrusions, "
    "block base points) against points sampled by an independent implementation of the entity geometry and of the block "
    "transformation: every sampled point inside the box (1e-7 relative to the coordinate size), box not larger than the "
    "sampled hull by more than 2e-3 of the entity size (1e-9 for entities made of straight segments; 0.01 = the documented "
    "flattening distance for splines that are only approximated), fast >= precise. O2: exact self-consistency of "
    "extents/multi_flat/multi_recursive and of every cache mode (none, handle keys, uuid keys; cold, warm, subsets; HATCH "
    "with several paths), one cache with both `fast` values. O3: cubic_bezier_bbox/quadratic_bezier_bbox/precise_bbox/"
    "path.bbox vs 2001-point Bernstein sampling (1e-5 of the span). O5: precise_bbox/path.bbox of random multi-paths (MOVE_TO; sub-paths starting with a line, "
    "cubic or quadratic curve) vs Bernstein sampling with an independently tracked pen position; O1 also contains HATCH "
    "entities with 1-4 boundary paths (polyline paths whose first segment is a bulge, edge paths starting with an arc). "
    "O4: the set-theoretic reading of union/intersection/"
    "has_overlap/has_intersection/contains/inside/extend/grow/all_inside/any_inside on the real classes over the same "
    "grid of boxes, with per-axis interval logic written independently of the model. "
    "Session 3: X4 (precise_bbox loop): random multi-paths (1-4 sub-paths, sub-paths starting with a line, a cubic or a "
    "quadratic curve, dyadic coordinates) with the two curve-box functions of ezdxf.path.tools replaced by an exact stub (box "
    "of the control points of the segment, which depends on the pen position): precise_bbox, control_vertices box, "
    "path.bbox(fast=False/True) vs the hand model AND vs the loop body generated from the current source; exact. "
    "X5 (cubic_bezier_bbox): curves whose derivative has a prescribed root structure per axis (two rational roots in or "
    "outside (0,1), double root, complex roots, linear, constant, zero) so that every square root is exact: "
    "cubic_bezier_bbox, quadratic_bezier_bbox and precise_bbox of a multi-path line/MOVE_TO/curve with the REAL curve boxes vs "
    "the hand model and vs the per-axis kernel generated from the source, compared on the grid 2^-20. X6 (entity trees): "
    "documents with nested INSERTs (depth <= 3, base points, non-uniform/negative scale, rotation by multiples of 90 degrees "
    "and by the rational 3-4-5 angles, so that shears and with them the explode fall-back occur) over LINE/POINT/LWPOLYLINE/"
    "POLYLINE/3DFACE/SOLID: per top-level entity the flat stream of (cache key, box) of to_primitives(recursive_decompose()), "
    "extents without and with a fresh cache, nesting depth vs the tree model (the MODEL computes the INSERT and MINSERT grid matrices "
    "from base point, scale, cos/sin, insert point, grid; MINSERT at top level and inside blocks), grid 2^-20. X3 now uses one cache "
    "with both values of `fast` (the flag is part of the key) and, for a quarter of the documents, Cache(uuid=True): virtual entities are then "
    "stored under their uuid, which is new on every decomposition - the model receives fresh keys (>= 2^41) for them and the cache contents "
    "are compared as handle-keyed entries plus the multiset of the boxes of the uuid-keyed entries, hits and misses exactly. X7 (selection shapes): select.Window / select.Circle "
    "is_inside_bbox / is_outside_bbox / is_overlapping_bbox on boxes and shapes in quarters (circle inside a large box, crossing one "
    "edge, touching, enclosing) vs the model and vs the kernel generated from Circle.is_overlapping_bbox; exact. "
    "X8 (primitive fast box): Primitive.bbox(fast=True) of every primitive of generated documents (all entity kinds, tilted extrusions, "
    "virtual entities of nested INSERTs) = model Path.box = box of the control vertices resp. mesh vertices, exact; and "
    "Primitive.bbox(fast=False) == precise_bbox(path) exactly (no shortcut per entity type). X3 additionally contains "
    "compute/modify/invalidate/compute histories (`inval` step: entities moved, a random subset incl. uncached ones - HATCH, a new "
    "POINT - invalidated in random order, cache content compared), O2 the same history on the real code against cache-less results. "
    "non-trivial = a MOVE_TO is present (X4), always (X5, X7), nesting depth >= 1 (X6). "
    "oracle O6: select.bbox_inside/bbox_outside/bbox_overlap for Window and Circle on generated documents, with and without cache, "
    "against the set-theoretic reading computed here (per-axis intervals; closest-point / farthest-corner distance for the circle). "
    "Round 2: X9 (add_bezier4p / add_bezier3p): chains of curves with dyadic control points, inner control points collapsed into the "
    "start point, the end point, both or none, gaps between curves: commands of the resulting path vs the model, exact, plus path.bbox "
    "(fast and precise) against dense samples of every curve; X8 now also documents with MESH, POLYFACE, POLYMESH, TRACE, SOLID, 3DFACE, "
    "IMAGE, WIPEOUT, VIEWPORT, TEXT, MTEXT, INSERT+ATTRIB and the primitive kinds line / point / mesh / path of the model (PrimRep); "
    "oracle O8: extents of these special entities = box of their declared WCS vertex set; X6 also INSERTs in an OCS with an "
    "axis-parallel tilted extrusion (matrix ocsAff = C12 insertMatrix); O4 mixed 3D/2D operand pairs (2D operand at z = 0); O1 SPLINEs "
    "with doubled end control points; O7b cubic_bezier_from_arc (segment count, end directions) for -360 <= start < 360; O9 bulge_to_arc "
    "vs the trigonometry-free model (centre, radius, angles, apex). "
    "oracle O7: cubic_bezier_arc_parameters (accelerated twin) for random start angles, sweeps and segment counts against the closed "
    "form of the radial error proved in arc_bezier_radial_error (|B(t)|^2 - 1 = u^6 w^2 (1-w^2)^2 / (1+u^2)^2, 1e-12), segment angle "
    "<= 90 degrees, segments joined, radial bounds [1, 1.0004]."
)
TRUSTED_BASE = [
    "the mini symbolic executor in harness/props/c15.py (Python AST of the predicates -> Lean Bool/Rat expressions); its output "
    "is proved equal to the hand model (kernel_* theorems) and both are compared with the running code (X1)",
    "IEEE double arithmetic is exact for the small dyadic inputs of the correspondence streams (+, -, *, min, max, comparisons)",
    "numpy min/max over axis 0 = columnwise minimum/maximum",
    "the oracle's independent geometry sampler (OCS arbitrary-axis algorithm, bulge arcs, de Boor evaluation, block transformation) in harness/props/c15.py",
    "session 3: the two small translators translate_precise_step / translate_cubic (ScalarExec) in harness/props/c15.py (loop body of "
    "precise_bbox per command type; per-axis body of cubic_bezier_bbox incl. try/except around math.sqrt, the unrolled `for t in "
    "(q / a, c / q)`; text of everything around the loops is pinned); their output is proved equal to the hand model "
    "(kernel_precise_step, kernel_cubic_params, kernel_quad_elevation) and run against the code (X4, X5)",
    "X6: the mapping recipe entity -> model leaf (vertex list) in tree_points() and the rational cos/sin of the rotation angle; "
    "rounding to the grid 2^-20 (inputs have <= 2 fractional bits resp. denominators 5^k, far from the rounding boundaries)",
    "round 2: translate_add_bezier, translate_primitives (live registry _PRIMITIVE_CLASSES + MRO of `bbox`), the text pins of "
    "cubic_bezier_from_arc's normalisation; special_doc()'s declared vertex sets of MESH/POLYFACE/POLYMESH/TRACE/SOLID/3DFACE/IMAGE/WIPEOUT/VIEWPORT",
    "select: distances are compared through their squares in the model (radius >= 0); math.hypot is exact enough on the quarter-valued X7 inputs",
    "IEEE sqrt/division are exact on the X5 inputs (perfect-square discriminants, dyadic roots) up to the grid",
    "arcs: the tangent half-angle substitution u = tan(segment_angle/4) links the rational model (rotByQuarterTan) to angles; the link is "
    "PROVED (rotQ_trig in Lemmas/BBoxArc.lean) for real angles; floating point trigonometry of the code is compared numerically (O7, 1e-12)",
]
ASSUMPTIONS = [
    "coordinates are finite numbers (inf/nan inputs other than the empty-box sentinel are outside the model)",
    "cache_transparent assumes one box per key: unmodified entities between the calls (the `fast` flag is part of the key since fix 20e7078cb; in the model the key is handle*2+flag)",
    "the exact-arithmetic theorems on cubic_bezier_bbox (cubic_axis_extrema, cubic_bbox_contains_curve, real_path_boxes containment) assume AxisOK: "
    "math.sqrt exact at the discriminant and coefficients a, b of the derivative that are either 0 or not below abs_tol (tiny non-zero "
    "leading coefficients are the domain of the oracle O3: classes tiny-a / cancellation); the fast>=precise and the tightness statements need no hypothesis",
    "tree theorems: INSERTs inside blocks carry no ATTRIBs (Forest.plainBlocks; the explode fall-back of the code does not yield them - text entities, outside this property), "
    "no cyclic block definitions, extrusion (0,0,1) for the INSERT matrix of the model (insertAff); a MINSERT is the wrapper `minsert` around its grid copies",
    "the quantitative statements (*_tol) assume only 0 < abs_tol and AxisSqrtOK: every square root that is actually taken is exact",
    "text entities (TEXT/MTEXT/ATTRIB content boxes are estimates by design) are outside the oracle's tightness check",
]
OPEN = [
    "circular arcs (ARC, CIRCLE, bulges; ELLIPSE by affine invariance): proved now over the reals that the Bezier curves built from "
    "cubic_bezier_arc_parameters have Hausdorff distance <= 0.0004 r from the true arc (arc_segment_covers, arc_curve_in_sector, "
    "arc_hausdorff, arc_path_covers); NOT proved: the bookkeeping of make_path around it (start/end angle normalisation, OCS, bulge -> arc "
    "conversion) and the SPLINE approximations (cubic_bezier_approximation for degree != 3 / rational: known finding F3); oracle O1",
    "cubic_bezier_bbox with an INEXACT sqrt (floating point rounding of math.sqrt and of the divisions) is not a theorem (oracle O3); "
    "tiny non-zero coefficients ARE covered now (cubic_axis_extrema_tol: at most 5/3 abs_tol)",
    "OCS of an INSERT with a tilted extrusion, entity.transform() of curved entities under non-uniform scaling (ARC -> ELLIPSE) and the "
    "representability test of Insert.transform are not in the tree model (C12 proves the INSERT algebra; here oracle O1; the tree theorems "
    "hold for EVERY representability predicate)",
    "cubic_bezier_from_arc outside the range the converters deliver is WRONG and not covered by from_arc_normalised: start_angle >= 360 "
    "adds floor(start/360) full turns to the sweep (cubic_bezier_from_arc((0,0),1,360,450) yields 5 segments = 1.25 turns), start < 0 with "
    "a 360 degree span raises ValueError (cubic_bezier_from_arc((0,0),1,-90,270)); not reachable from ARC/CIRCLE/ELLIPSE/bulge conversion "
    "(bulge_to_arc angles come from atan2, spans < 360), reported as observation (C13/C14 area), no fix made",
    "the reversal branch of add_bezier4p/add_bezier3p (curves given end-to-start: reverse_bezier_curves) is not in the model; X9 avoids it",
    "TEXT/MTEXT/ATTRIB primitives: only the consistency Primitive.bbox = box of the own path/mesh is checked (text is outside the property)",
    "the modification step of the cache histories is outside the model: the theorem invalidate_then_extents takes the old and the new "
    "truth function (box per key) as given",
    "select.Polygon and bbox_crosses_fence (Cohen-Sutherland clipping, documented as approximate for concave polygons) are not modelled",
    "has_intersection_iff_interiors_meet is proved for boxes of positive size; the behaviour on zero-size operands is "
    "stated separately as the code behaves (has_intersection_point)",
]

BBOX_PY = "src/ezdxf/math/bbox.py"
BEZ4_PY = "src/ezdxf/math/_bezier4p.py"
BEZ3_PY = "src/ezdxf/math/_bezier3p.py"
EZBBOX_PY = "src/ezdxf/bbox.py"
TOOLS_PY = "src/ezdxf/path/tools.py"
CMDS_PY = "src/ezdxf/path/commands.py"
CURVETOOLS_PY = "src/ezdxf/math/curvetools.py"
SELECT_PY = "src/ezdxf/select.py"


# ====================================================================== translator (T-ast, light)
class Unsupported(Exception):
    pass


class Opaque(str):
    """an uninterpreted value (Lean term)"""


CMP = {ast.LtE: "≤", ast.Lt: "<", ast.GtE: "≥", ast.Gt: ">", ast.Eq: "=", ast.NotEq: "≠"}
ARITH = {ast.Add: "+", ast.Sub: "-", ast.Mult: "*", ast.Div: "/"}


def _num(v) -> str:
    fr = Fraction(v)
    if fr.denominator == 1:
        return str(fr.numerator) if fr.numerator >= 0 else f"({fr.numerator})"
    return f"(({fr.numerator} : Rat) / {fr.denominator})"


class SymExec:
    """Symbolic execution of straight-line Python with early-return `if`s over scalars (Lean `Rat` terms),
    Booleans (Lean `Bool` terms) and vectors (tuples of scalar terms).  Anything else raises Unsupported."""

    def __init__(self, cls_nodes: dict, attrs: dict, on_return, on_raise, on_end, calls=None):
        self.cls_nodes = cls_nodes  # name -> FunctionDef of properties that may be inlined (size)
        self.attrs = attrs  # ("self","extmin") -> value
        self.on_return, self.on_raise, self.on_end = on_return, on_raise, on_end
        self.calls = calls or {}

    # ---------------------------------------------------------------- expressions
    def ev(self, e, env):
        if isinstance(e, ast.Constant):
            if isinstance(e.value, bool):
                return ("bool", "true" if e.value else "false")
            if isinstance(e.value, (int, float)):
                return _num(e.value)
            raise Unsupported(f"constant {e.value!r}")
        if isinstance(e, ast.Name):
            if e.id in env:
                return env[e.id]
            raise Unsupported(f"unbound name {e.id}")
        if isinstance(e, ast.Attribute):
            if isinstance(e.value, ast.Name) and (e.value.id, e.attr) in self.attrs:
                v = self.attrs[(e.value.id, e.attr)]
                return env.get(("attr", e.value.id, e.attr), v)
            if isinstance(e.value, ast.Name) and e.value.id == "self" and e.attr in self.cls_nodes:
                # inline a property: single `return <expr>` body
                body = [s for s in self.cls_nodes[e.attr].body if not _is_doc(s)]
                if len(body) != 1 or not isinstance(body[0], ast.Return):
                    raise Unsupported(f"property {e.attr} is not a single return")
                return self.ev(body[0].value, env)
            base = self.ev(e.value, env)
            if isinstance(base, tuple) and base and base[0] != "bool":
                if e.attr in ("x", "y", "z"):
                    i = "xyz".index(e.attr)
                    if i >= len(base):
                        raise Unsupported(f".{e.attr} of a {len(base)}d vector")
                    return base[i]
                if e.attr == "xyz" and len(base) == 3:
                    return base
            raise Unsupported(f"attribute .{e.attr}")
        if isinstance(e, ast.UnaryOp):
            v = self.ev(e.operand, env)
            if isinstance(e.op, ast.Not):
                return ("bool", f"(!{self.b(v)})")
            if isinstance(e.op, ast.USub):
                return f"(-{self.s(v)})"
            raise Unsupported("unary op")
        if isinstance(e, ast.BoolOp):
            op = "&&" if isinstance(e.op, ast.And) else "||"
            return ("bool", "(" + f" {op} ".join(self.b(self.ev(v, env)) for v in e.values) + ")")
        if isinstance(e, ast.Compare):
            parts, left = [], self.ev(e.left, env)
            for op, right in zip(e.ops, e.comparators):
                r = self.ev(right, env)
                if type(op) not in CMP:
                    raise Unsupported("comparison operator")
                parts.append(f"decide ({self.s(left)} {CMP[type(op)]} {self.s(r)})")
                left = r
            return ("bool", "(" + " && ".join(parts) + ")")
        if isinstance(e, ast.BinOp):
            if type(e.op) not in ARITH:
                raise Unsupported("binary operator")
            a, b = self.ev(e.left, env), self.ev(e.right, env)
            op = ARITH[type(e.op)]
            if self.isvec(a) and self.isvec(b) and op in "+-":
                # Vec2 op Vec3 reads only .x/.y of the right operand; Vec3 op Vec2 is not used by the modelled code
                if len(b) < len(a):
                    raise Unsupported("vector dimension mismatch")
                return tuple(f"({x} {op} {y})" for x, y in zip(a, b))
            if self.isvec(a) and op == "*" and not self.isvec(b):
                return tuple(f"({x} * {self.s(b)})" for x in a)
            return f"({self.s(a)} {op} {self.s(b)})"
        if isinstance(e, ast.Tuple):
            return tuple(self.s(self.ev(x, env)) for x in e.elts)
        if isinstance(e, ast.Call):
            f = e.func
            if isinstance(f, ast.Name) and f.id in ("Vec3", "Vec2") and not e.keywords:
                dim = 3 if f.id == "Vec3" else 2
                if len(e.args) == 1:
                    v = self.ev(e.args[0], env)
                    if not self.isvec(v):
                        raise Unsupported("Vec of non-vector")
                    v = tuple(v)[:dim]
                    return v + ("0",) * (dim - len(v))
                if len(e.args) == dim:
                    return tuple(self.s(self.ev(a, env)) for a in e.args)
            if isinstance(f, ast.Name) and f.id in ("min", "max") and not e.keywords:
                fn = "pyMin" if f.id == "min" else "pyMax"
                if len(e.args) == 1:
                    items = self.ev(e.args[0], env)
                    if not self.isvec(items):
                        raise Unsupported("min/max of non-vector")
                    items = list(items)
                else:
                    items = [self.s(self.ev(a, env)) for a in e.args]
                acc = items[0]
                for it in items[1:]:
                    acc = f"({fn} {acc} {it})"
                return acc
            key = ast.unparse(f)
            if key in self.calls:
                return self.calls[key]([self.ev(a, env) for a in e.args])
            raise Unsupported(f"call {key}")
        raise Unsupported(type(e).__name__)

    @staticmethod
    def isvec(v):
        return isinstance(v, tuple) and (not v or v[0] != "bool")

    def s(self, v) -> str:
        if isinstance(v, str):
            return v
        raise Unsupported(f"scalar expected, got {v!r}")

    def b(self, v) -> str:
        if isinstance(v, tuple) and len(v) == 2 and v[0] == "bool":
            return v[1]
        raise Unsupported(f"bool expected, got {v!r}")

    # ---------------------------------------------------------------- statements
    def run(self, stmts, env) -> str:
        if not stmts:
            return self.on_end(env)
        s, rest = stmts[0], stmts[1:]
        if _is_doc(s):
            return self.run(rest, env)
        if isinstance(s, ast.Return):
            return self.on_return(self, None if s.value is None else self.ev(s.value, env), env)
        if isinstance(s, ast.Raise):
            return self.on_raise(env)
        if isinstance(s, ast.Assign) and len(s.targets) == 1:
            env = dict(env)
            self.assign(s.targets[0], self.ev(s.value, env), env)
            return self.run(rest, env)
        if isinstance(s, ast.AugAssign) and isinstance(s.op, ast.Add):
            cur = self.ev(s.target, env)
            val = self.ev(ast.BinOp(left=s.target, op=ast.Add(), right=s.value), env)
            assert self.isvec(cur) and len(val) == len(cur)
            env = dict(env)
            self.assign(s.target, val, env)
            return self.run(rest, env)
        if isinstance(s, ast.If):
            c = self.b(self.ev(s.test, env))
            then = self.run(list(s.body) + rest, env)
            els = self.run(list(s.orelse) + rest, env)
            return f"(bif {c} then {then} else {els})"
        if isinstance(s, ast.Expr) and isinstance(s.value, ast.Call):
            key = ast.unparse(s.value.func)
            if key in self.calls:
                env = dict(env)
                self.calls[key]([self.ev(a, env) for a in s.value.args], env)
                return self.run(rest, env)
        raise Unsupported(f"statement {ast.unparse(s)[:60]!r}")

    def assign(self, target, val, env):
        if isinstance(target, ast.Name):
            env[target.id] = val
        elif isinstance(target, ast.Tuple):
            if not self.isvec(val) or len(val) != len(target.elts):
                raise Unsupported("tuple unpacking")
            for t, v in zip(target.elts, val):
                self.assign(t, v, env)
        elif isinstance(target, ast.Attribute) and isinstance(target.value, ast.Name):
            env[("attr", target.value.id, target.attr)] = val
        else:
            raise Unsupported("assignment target")


def _is_doc(s) -> bool:
    return isinstance(s, ast.Expr) and isinstance(s.value, ast.Constant) and isinstance(s.value.value, str)


def _methods(tree, cls):
    for n in tree.body:
        if isinstance(n, ast.ClassDef) and n.name == cls:
            return {f.name: f for f in n.body if isinstance(f, ast.FunctionDef)}
    raise Unsupported(f"class {cls} not found")


def _vec(prefix, dim):
    return tuple(f"{prefix}{c}" for c in "xyz"[:dim])


def _binders(names, ty="Rat"):
    return "(" + " ".join(names) + f" : {ty})"


def _fingerprint(fn) -> str:
    body = [s for s in fn.body if not _is_doc(s)]
    return hashlib.sha256("\n".join(ast.dump(s) for s in body).encode()).hexdigest()[:16]


# ---------------------------------------------------------------- session 3: precise_bbox loop, cubic_bezier_bbox
def _func(tree, name):
    for n in tree.body:
        if isinstance(n, ast.FunctionDef) and n.name == name:
            return n
    raise Unsupported(f"function {name} not found")


def _body(fn):
    return [s for s in fn.body if not _is_doc(s)]


def translate_precise_step(src_tools: str, src_cmds: str) -> str:
    """The loop body of `ezdxf.path.tools.precise_bbox`, executed once per command type: which points are appended
    and what the pen position `start` is afterwards.  Everything around the loop is pinned by text."""
    enum = None
    for n in ast.parse(src_cmds).body:
        if isinstance(n, ast.ClassDef) and n.name == "Command":
            enum = {s.targets[0].id: s.value.value for s in n.body if isinstance(s, ast.Assign)}
    if not enum or sorted(enum) != ["CURVE3_TO", "CURVE4_TO", "LINE_TO", "MOVE_TO"]:
        raise Unsupported(f"Command enum {enum}")
    fn = _func(ast.parse(src_tools), "precise_bbox")
    body = _body(fn)
    if [a.arg for a in fn.args.args] != ["path"] or len(body) != 5:
        raise Unsupported("precise_bbox: signature/shape")
    pro = [ast.unparse(s) for s in body[:3]]
    if pro != ["if len(path) == 0:\n    return BoundingBox()", "start = path.start", "points: list[Vec3] = [start]"]:
        raise Unsupported(f"precise_bbox prologue {pro}")
    loop = body[3]
    if not (isinstance(loop, ast.For) and ast.unparse(loop.target) == "cmd" and ast.unparse(loop.iter) == "path.commands()" and not loop.orelse):
        raise Unsupported("precise_bbox: loop header")
    if ast.unparse(body[4]) != "return BoundingBox(points)":
        raise Unsupported("precise_bbox: epilogue")

    class Stop(Exception):
        pass

    def ev(e, env):
        if isinstance(e, ast.Name) and e.id in env:
            return env[e.id]
        if isinstance(e, ast.Attribute) and isinstance(e.value, ast.Name):
            if e.value.id == "cmd" and e.attr in ("end", "ctrl", "ctrl1", "ctrl2"):
                return {"end": "cmdEnd"}.get(e.attr, e.attr)
            base = env.get(e.value.id)
            if isinstance(base, tuple) and base[0] == "box" and e.attr in ("extmin", "extmax"):
                return f"({e.attr} {base[1]})"
        if isinstance(e, ast.Call) and isinstance(e.func, ast.Name) and len(e.args) == 1 and not e.keywords:
            inner = e.args[0]
            want = {"cubic_bezier_bbox": ("Bezier4P", 4, "bb4"), "quadratic_bezier_bbox": ("Bezier3P", 3, "bb3")}.get(e.func.id)
            if want and isinstance(inner, ast.Call) and isinstance(inner.func, ast.Name) and inner.func.id == want[0] \
                    and len(inner.args) == 1 and isinstance(inner.args[0], ast.Tuple) and len(inner.args[0].elts) == want[1]:
                return ("box", "(" + want[2] + " " + " ".join(ev(x, env) for x in inner.args[0].elts) + ")")
        raise Unsupported(f"precise_bbox: expression {ast.unparse(e)}")

    def run(stmts, env, pts, ty):
        for s in stmts:
            if isinstance(s, ast.Continue):
                raise Stop
            if isinstance(s, ast.If):
                tst = s.test
                if not (isinstance(tst, ast.Compare) and len(tst.ops) == 1 and isinstance(tst.ops[0], ast.Eq)
                        and ast.unparse(tst.left) == "cmd.type" and ast.unparse(tst.comparators[0]).startswith("Command.")):
                    raise Unsupported(f"precise_bbox: test {ast.unparse(tst)}")
                name = ast.unparse(tst.comparators[0])[len("Command."):]
                if name not in enum:
                    raise Unsupported(f"precise_bbox: unknown command {name}")
                run(s.body if name == ty else s.orelse, env, pts, ty)
            elif isinstance(s, ast.Assign) and len(s.targets) == 1 and isinstance(s.targets[0], ast.Name):
                env[s.targets[0].id] = ev(s.value, env)
            elif isinstance(s, ast.Expr) and isinstance(s.value, ast.Call) and ast.unparse(s.value.func) in ("points.append", "points.extend") \
                    and len(s.value.args) == 1:
                v = ev(s.value.args[0], env)
                if ast.unparse(s.value.func) == "points.append":
                    if not isinstance(v, str):
                        raise Unsupported("precise_bbox: append of a box")
                    pts.append(v)
                else:  # extend(box): BoundingBox.__iter__ yields extmin, extmax
                    if not (isinstance(v, tuple) and v[0] == "box"):
                        raise Unsupported("precise_bbox: extend of a non-box")
                    pts += [f"(extmin {v[1]})", f"(extmax {v[1]})"]
            else:
                raise Unsupported(f"precise_bbox: statement {ast.unparse(s)[:60]!r}")

    arms = []
    for ty, code in sorted(enum.items(), key=lambda kv: kv[1]):
        env, pts = {"start": "start"}, []
        try:
            run(loop.body, env, pts, ty)
        except Stop:
            pass
        if not isinstance(env["start"], str):
            raise Unsupported("precise_bbox: pen position is not a point")
        arms.append(f"if ty = {code} then ([{', '.join(pts)}], {env['start']})  -- {ty}")
    return ("/-- the loop body of `ezdxf.path.tools.precise_bbox` for the command type `ty` (values of `Command`): the points\n"
            "    appended to `points` and the pen position `start` afterwards -/\n"
            "def preciseStep {α β : Type} (bb4 : α → α → α → α → β) (bb3 : α → α → α → β) (extmin extmax : β → α)\n"
            "    (ty : Nat) (start cmdEnd ctrl1 ctrl2 ctrl : α) : List α × α :=\n  "
            + "\n  else ".join(arms) + "\n  else ([], start)\n\n"
            "def commandCodes : List (String × Nat) := "
            + lean_list((f"({lean_str(k)}, {v})" for k, v in sorted(enum.items(), key=lambda kv: kv[1])), per_line=4) + "\n")


class ScalarExec:
    """continuation-passing symbolic execution of the per-axis loop body of `cubic_bezier_bbox` over Lean `Rat` terms"""

    def __init__(self, names):
        self.names = names  # python name -> lean term
        self.fresh = {}

    def ev(self, e, env):
        if isinstance(e, ast.Constant) and isinstance(e.value, (int, float)) and not isinstance(e.value, bool):
            return _num(e.value)
        if isinstance(e, ast.Name):
            if e.id in env:
                return env[e.id]
            if e.id in self.names:
                return self.names[e.id]
            raise Unsupported(f"unbound {e.id}")
        if isinstance(e, ast.UnaryOp) and isinstance(e.op, ast.USub):
            return f"(-{self.ev(e.operand, env)})"
        if isinstance(e, ast.BinOp) and type(e.op) in ARITH:
            return f"({self.ev(e.left, env)} {ARITH[type(e.op)]} {self.ev(e.right, env)})"
        if isinstance(e, ast.Call) and not e.keywords:
            f = ast.unparse(e.func)
            args = [self.ev(a, env) for a in e.args]
            if f == "abs" and len(args) == 1:
                return f"(pyAbs {args[0]})"
            if f == "math.copysign" and len(args) == 2:
                return f"(pyCopysign {args[0]} {args[1]})"
        raise Unsupported(f"scalar expression {ast.unparse(e)}")

    def cond(self, e, env):
        if isinstance(e, ast.Compare):
            parts, left = [], self.ev(e.left, env)
            for op, right in zip(e.ops, e.comparators):
                r = self.ev(right, env)
                if type(op) not in CMP:
                    raise Unsupported("comparison")
                parts.append(f"{left} {CMP[type(op)]} {r}")
                left = r
            return " ∧ ".join(parts)
        raise Unsupported(f"condition {ast.unparse(e)}")

    def run(self, stmts, env, pts) -> str:
        if not stmts:
            return "[" + ", ".join(pts) + "]"
        s, rest = stmts[0], stmts[1:]
        if isinstance(s, ast.Continue):
            return "[" + ", ".join(pts) + "]"
        if isinstance(s, ast.Assign) and len(s.targets) == 1 and isinstance(s.targets[0], ast.Name):
            name = s.targets[0].id
            val = self.ev(s.value, env)
            env = dict(env)
            self.fresh[name] = self.fresh.get(name, 0) + 1  # every assignment binds a new Lean name (no shadowing)
            lean_name = name if self.fresh[name] == 1 else f"{name}_{self.fresh[name]}"
            env[name] = lean_name
            return f"(let {lean_name} := {val}\n  {self.run(rest, env, pts)})"
        if isinstance(s, ast.If):
            c = self.cond(s.test, env)
            return f"(if {c} then {self.run(list(s.body) + rest, env, pts)} else {self.run(list(s.orelse) + rest, env, pts)})"
        if isinstance(s, ast.Try):
            ok = (len(s.body) == 1 and isinstance(s.body[0], ast.Assign) and isinstance(s.body[0].targets[0], ast.Name)
                  and isinstance(s.body[0].value, ast.Call) and ast.unparse(s.body[0].value.func) == "math.sqrt"
                  and len(s.handlers) == 1 and ast.unparse(s.handlers[0].type) == "ValueError" and not s.orelse and not s.finalbody)
            if not ok:
                raise Unsupported("try statement")
            arg = self.ev(s.body[0].value.args[0], env)
            var = s.body[0].targets[0].id
            env2 = dict(env)
            env2[var] = var
            return (f"(match sqrt {arg} with\n  | none => {self.run(list(s.handlers[0].body) + rest, env, pts)}\n"
                    f"  | some {var} => {self.run(rest, env2, pts)})")
        if isinstance(s, ast.For) and isinstance(s.iter, ast.Tuple) and isinstance(s.target, ast.Name) and not s.orelse:
            for n in ast.walk(s):
                if isinstance(n, (ast.Continue, ast.Break)):
                    raise Unsupported("continue/break inside the inner loop")
            flat = []
            for i, el in enumerate(s.iter.elts):
                flat.append(ast.Assign(targets=[ast.Name(id=s.target.id, ctx=ast.Store())], value=el))
                flat += list(s.body)
            return self.run(flat + rest, env, pts)
        if isinstance(s, ast.Expr) and isinstance(s.value, ast.Call) and ast.unparse(s.value.func) == "points.append" and len(s.value.args) == 1:
            a = s.value.args[0]
            if isinstance(a, ast.Call) and ast.unparse(a.func) == "curve.point" and len(a.args) == 1:
                return self.run(rest, env, pts + [self.ev(a.args[0], env)])
        raise Unsupported(f"statement {ast.unparse(s)[:60]!r}")


def translate_cubic(src_ct: str) -> str:
    tree = ast.parse(src_ct)
    fn = _func(tree, "cubic_bezier_bbox")
    body = _body(fn)
    if [a.arg for a in fn.args.args] != ["curve"] or [a.arg for a in fn.args.kwonlyargs] != ["abs_tol"] or len(body) != 4:
        raise Unsupported("cubic_bezier_bbox: signature/shape")
    if [ast.unparse(s) for s in body[:2]] != ["cp = curve.control_points", "points: list[Vec3] = [cp[0], cp[3]]"]:
        raise Unsupported("cubic_bezier_bbox: prologue")
    loop = body[2]
    if not (isinstance(loop, ast.For) and ast.unparse(loop.target).strip("()") == "p1, p2, p3, p4" and ast.unparse(loop.iter) == "zip(*cp)" and not loop.orelse):
        raise Unsupported("cubic_bezier_bbox: loop header")
    if ast.unparse(body[3]) != "return BoundingBox(points)":
        raise Unsupported("cubic_bezier_bbox: epilogue")
    ex = ScalarExec({"p1": "p1", "p2": "p2", "p3": "p3", "p4": "p4", "abs_tol": "absTol"})
    term = ex.run(list(loop.body), {}, [])
    out = ("/-- the per-axis loop body of `cubic_bezier_bbox`: the parameters `t` for which `curve.point(t)` is appended;\n"
           "    `sqrt x = none` = `math.sqrt` raised ValueError -/\n"
           "def cubicAxisParams (absTol : Rat) (sqrt : Rat → Option Rat) (p1 p2 p3 p4 : Rat) : List Rat :=\n  " + term + "\n\n")
    q = _body(_func(tree, "quadratic_bezier_bbox"))
    if len(q) != 1 or ast.unparse(q[0]) != "return cubic_bezier_bbox(quadratic_to_cubic_bezier(curve), abs_tol=abs_tol)":
        raise Unsupported("quadratic_bezier_bbox is not cubic_bezier_bbox(quadratic_to_cubic_bezier(curve))")
    e = _body(_func(tree, "quadratic_to_cubic_bezier"))
    if len(e) != 4 or ast.unparse(e[0]).replace("(", "").replace(")", "") != "start, control, end = curve.control_points" \
            or ast.unparse(e[3]) != "return Bezier4P((start, control_1, control_2, end))":
        raise Unsupported("quadratic_to_cubic_bezier: shape")
    ex = ScalarExec({"start": "start", "control": "control", "end": "end_"})
    for st, name in ((e[1], "control_1"), (e[2], "control_2")):
        if not (isinstance(st, ast.Assign) and ast.unparse(st.targets[0]) == name):
            raise Unsupported("quadratic_to_cubic_bezier: assignments")
        out += (f"/-- one coordinate of `{name}` of `quadratic_to_cubic_bezier` -/\n"
                f"def quad{name.title().replace('_', '')} (start control end_ : Rat) : Rat :=\n  {ex.ev(st.value, {})}\n\n")
    return out


def translate_vertices(src_bbox: str) -> str:
    """`rect_vertices` (shared by both classes) and `BoundingBox.cube_vertices`: the corner lists"""
    tree = ast.parse(src_bbox)
    out = ""
    for cls, meth, name, dims in (("AbstractBoundingBox", "rect_vertices", "rectVertices", (2, 3)), ("BoundingBox", "cube_vertices", "cubeVertices", (3,))):
        fn = _methods(tree, cls)[meth]
        body = _body(fn)
        if not (len(body) == 1 and isinstance(body[0], ast.If) and ast.unparse(body[0].test) == "self.has_data"
                and [ast.unparse(s) for s in body[0].orelse] == ["raise ValueError('empty bounding box')"]):
            raise Unsupported(f"{meth}: shape")
        for dim in dims:
            lo, hi = _vec("lo", dim), _vec("hi", dim)
            env = {}
            ret = None
            for s in body[0].body:
                if isinstance(s, ast.Assign) and isinstance(s.targets[0], ast.Tuple) and ast.unparse(s.value) in ("self.extmin", "self.extmax"):
                    src = lo if ast.unparse(s.value) == "self.extmin" else hi
                    elts = s.targets[0].elts
                    plain = [e for e in elts if not isinstance(e, ast.Starred)]
                    if len(plain) > len(src) or (len(plain) != len(src) and not isinstance(elts[-1], ast.Starred)):
                        raise Unsupported(f"{meth}: unpacking")
                    for e, v in zip(plain, src):
                        env[e.id] = v
                elif isinstance(s, ast.Return) and isinstance(s.value, ast.Tuple):
                    ret = s.value.elts
                else:
                    raise Unsupported(f"{meth}: statement {ast.unparse(s)[:50]!r}")
            if ret is None:
                raise Unsupported(f"{meth}: no return")
            pts = []
            for e in ret:
                if not (isinstance(e, ast.Call) and isinstance(e.func, ast.Name) and e.func.id in ("Vec2", "Vec3") and all(isinstance(a, ast.Name) and a.id in env for a in e.args)):
                    raise Unsupported(f"{meth}: element {ast.unparse(e)}")
                pts.append("(" + ", ".join(env[a.id] for a in e.args) + ")")
            n = 2 if meth == "rect_vertices" else 3
            ty = " × ".join(["Rat"] * n)
            out += (f"/-- `{cls}.{meth}` of a {dim}d box with data -/\n"
                    f"def {name}{dim} {_binders(lo + hi)} : List ({ty}) :=\n  [{', '.join(pts)}]\n\n")
    return out


def pin_invalidate(src_ez: str) -> None:
    """`Cache.invalidate`: one loop over ALL entities; per entity the key and the removal of both entries without any exit"""
    for n in ast.parse(src_ez).body:
        if isinstance(n, ast.ClassDef) and n.name == "Cache":
            fn = {f.name: f for f in n.body if isinstance(f, ast.FunctionDef)}["invalidate"]
            body = _body(fn)
            want = ["key = self._get_key(entity)", "self._boxes.pop((key, False), None)", "self._boxes.pop((key, True), None)"]
            ok = (len(body) == 1 and isinstance(body[0], ast.For) and ast.unparse(body[0].target) == "entity"
                  and ast.unparse(body[0].iter) == "entities" and not body[0].orelse and [ast.unparse(s) for s in body[0].body] == want)
            if not ok:
                raise Unsupported("Cache.invalidate is not `for entity in entities: key = ...; pop((key, False)); pop((key, True))`")
            return
    raise Unsupported("class Cache not found")


def translate_primitives(src_dis: str) -> str:
    """T-tab from the LIVE registry disassemble._PRIMITIVE_CLASSES: dxftype -> (primitive class, class that defines bbox); the
    three bbox bodies and the default class of make_primitive are pinned by text"""
    from ezdxf import disassemble

    tree = ast.parse(src_dis)
    want = {
        "Primitive": ["if self.mesh:\n    return BoundingBox(self.vertices())", "path = self.path",
                      "if path:\n    if fast:\n        return BoundingBox(path.control_vertices())\n    return precise_bbox(path)",
                      "return BoundingBox()"],
        "LinePrimitive": ["e = self.entity", "return BoundingBox((e.dxf.start, e.dxf.end))"],
        "PointPrimitive": ["return BoundingBox((self.entity.dxf.location,))"],
    }
    for cls, body in want.items():
        got = [ast.unparse(s) for s in _body(_methods(tree, cls)["bbox"])]
        if got != body:
            raise Unsupported(f"{cls}.bbox is {got}")
    mp = [ast.unparse(s) for s in ast.walk(_func(tree, "make_primitive")) if isinstance(s, ast.Assign)]
    if "cls = _PRIMITIVE_CLASSES.get(entity.dxftype(), EmptyPrimitive)" not in mp:
        raise Unsupported("make_primitive: class lookup")
    rows = []
    for dxftype, cls in sorted(disassemble._PRIMITIVE_CLASSES.items()):
        owner = next(k.__name__ for k in cls.__mro__ if "bbox" in k.__dict__)
        rule = {"Primitive": "base", "LinePrimitive": "line", "PointPrimitive": "point"}.get(owner, "override:" + owner)
        rows.append(f"({lean_str(dxftype)}, {lean_str(cls.__name__)}, {lean_str(rule)})")
    return ("/-- live `disassemble._PRIMITIVE_CLASSES`: (dxftype, primitive class, bbox rule: base = `Primitive.bbox`, line, point) -/\n"
            "def primitiveTable : List (String × String × String) := " + lean_list(rows, per_line=2) + "\n\n")


def translate_add_bezier(src_tools: str) -> str:
    """loop bodies of path.tools.add_bezier4p / add_bezier3p: the connecting line and the linear-segment rule as a Boolean
    function of the isclose() tests in the order in which they are written (near = start.isclose(path.end), l1, l2)"""
    tree = ast.parse(src_tools)
    out = ""
    for fname, unpack, name in (("add_bezier4p", "start, ctrl1, ctrl2, end = curve.control_points", "addBezier4Body"),
                                ("add_bezier3p", "start, ctrl, end = curve.control_points", "addBezier3Body")):
        fn = _func(tree, fname)
        loops = [s for s in fn.body if isinstance(s, ast.For)]
        if len(loops) != 1 or ast.unparse(loops[0].iter) != "curves" or len(loops[0].body) != 3:
            raise Unsupported(f"{fname}: loop")
        b0, b1, b2 = loops[0].body
        if ast.unparse(b0).replace("(", "").replace(")", "") != unpack:
            raise Unsupported(f"{fname}: unpacking")
        atoms = []

        def boolean(e):
            if isinstance(e, ast.UnaryOp) and isinstance(e.op, ast.Not):
                return f"(!{boolean(e.operand)})"
            if isinstance(e, ast.BoolOp):
                return "(" + (" && " if isinstance(e.op, ast.And) else " || ").join(boolean(v) for v in e.values) + ")"
            if isinstance(e, ast.Call) and isinstance(e.func, ast.Attribute) and e.func.attr == "isclose":
                key = ast.unparse(e.func.value) + "~" + ast.unparse(e.args[0])
                atoms.append(key)
                return {"start~path.end": "near"}.get(key, f"l{len([a for a in atoms if a != 'start~path.end'])}")
            raise Unsupported(f"{fname}: condition {ast.unparse(e)}")

        def calls(stmts):
            got = [ast.unparse(s) for s in stmts]
            if not all(g.startswith("path.") for g in got):
                raise Unsupported(f"{fname}: statements {got}")
            return "[" + ", ".join(lean_str(g[5:]) for g in got) + "]"

        if not (isinstance(b1, ast.If) and not b1.orelse and isinstance(b2, ast.If)):
            raise Unsupported(f"{fname}: shape")
        c1 = boolean(b1.test)
        c2 = boolean(b2.test)
        want_atoms = {"add_bezier4p": ["start~path.end", "start~ctrl1", "end~ctrl2"], "add_bezier3p": ["start~path.end", "start~ctrl", "end~ctrl"]}[fname]
        if atoms != want_atoms:
            raise Unsupported(f"{fname}: tests {atoms}")
        out += (f"/-- loop body of `{fname}`: the `path.` calls made, as a function of the three `isclose` tests -/\n"
                f"def {name} (near l1 l2 : Bool) : List String :=\n  (bif {c1} then {calls(b1.body)} else []) ++ "
                f"(bif {c2} then {calls(b2.body)} else {calls(b2.orelse)})\n\n")
    return out


def translate_select(src_select: str) -> str:
    """`select.Circle.is_overlapping_bbox`: the point that is tested (closest point of the box); the one-line methods of
    Window and Circle are pinned by text"""
    tree = ast.parse(src_select)
    win, cir = _methods(tree, "Window"), _methods(tree, "Circle")

    def one(fn, want):
        body = _body(fn)
        got = [ast.unparse(s) for s in body]
        if got != want:
            raise Unsupported(f"select: {fn.name} is {got}")

    one(win["__init__"], ["self._bbox = BoundingBox2d((p1, p2))"])
    one(win["is_inside_bbox"], ["return self._bbox.contains(entity_bbox)"])
    one(win["is_outside_bbox"], ["return not self._bbox.has_overlap(entity_bbox)"])
    one(win["is_overlapping_bbox"], ["return self._bbox.has_overlap(entity_bbox)"])
    one(cir["__init__"], ["self._center = Vec2(center)", "self._radius = float(radius)", "r_vec = Vec2(self._radius, self._radius)",
                          "self._bbox = BoundingBox2d((self._center - r_vec, self._center + r_vec))"])
    one(cir["_is_vertex_inside"], ["return self._center.distance(v) <= self._radius"])
    one(cir["is_inside_bbox"], ["return all((self._is_vertex_inside(v) for v in entity_bbox.rect_vertices()))"])
    one(cir["is_outside_bbox"], ["return not self.is_overlapping_bbox(entity_bbox)"])
    attrs = {("entity_bbox", "extmin"): ("lox", "loy"), ("entity_bbox", "extmax"): ("hix", "hiy"), ("self", "_center"): ("cx", "cy")}

    def ret(ex, v, env):
        if v == ("bool", "false"):
            return "none"
        if isinstance(v, tuple) and v and v[0] == "vi":
            return f"some ({v[1][0]}, {v[1][1]})"
        raise Unsupported(f"select: return of {v!r}")

    calls = {"self._bbox.has_overlap": lambda args: ("bool", "ho"), "self._is_vertex_inside": lambda args: ("vi", args[0])}

    class Ex(SymExec):
        def ev(self, e, env):
            if isinstance(e, ast.Name) and e.id == "entity_bbox":
                return Opaque("entity_bbox")
            return super().ev(e, env)

    ex = Ex({}, attrs, ret, lambda env: (_ for _ in ()).throw(Unsupported("raise")), lambda env: (_ for _ in ()).throw(Unsupported("end")), calls)
    body = ex.run(cir["is_overlapping_bbox"].body, {})
    return ("/-- `select.Circle.is_overlapping_bbox`: `none` = False, `some v` = `self._is_vertex_inside(v)`; `ho` =\n"
            "    `self._bbox.has_overlap(entity_bbox)` -/\n"
            f"def circleOverlap (ho : Bool) (cx cy lox loy hix hiy : Rat) : Option (Rat × Rat) :=\n  {body}\n\n")


def translate_arc(src_b4: str) -> str:
    """`cubic_bezier_arc_parameters` (Python twin): the two control point formulas and the tangent factor; the statements that
    fix the segment count (<= 90 degrees per segment) and the tangent length are pinned by text"""
    tree = ast.parse(src_b4)
    consts = {}
    for n in tree.body:
        if isinstance(n, ast.Assign) and len(n.targets) == 1 and isinstance(n.targets[0], ast.Name) and n.targets[0].id.endswith("TANGENT_FACTOR"):
            consts[n.targets[0].id] = ast.unparse(n.value)
    if consts.get("TANGENT_FACTOR") != "DEFAULT_TANGENT_FACTOR" or consts.get("DEFAULT_TANGENT_FACTOR") != "4.0 / 3.0":
        raise Unsupported(f"tangent factor {consts}")
    fn = _func(tree, "cubic_bezier_arc_parameters")
    text = [ast.unparse(s) for s in ast.walk(fn) if isinstance(s, (ast.Assign, ast.AnnAssign))]
    for want in ("delta_angle: float = end_angle - start_angle", "arc_count = max(math.ceil(delta_angle / math.pi * 2.0), segments)",
                 "segment_angle: float = delta_angle / arc_count", "tangent_length: float = TANGENT_FACTOR * math.tan(segment_angle / 4.0)",
                 "end_point: Vec3 = Vec3.from_angle(angle)", "start_point = end_point", "end_point = Vec3.from_angle(angle)"):
        if want not in text:
            raise Unsupported(f"cubic_bezier_arc_parameters: missing {want!r}")
    # round 2: the angle normalisation of cubic_bezier_from_arc (model fromArcStart / fromArcEnd, theorem from_arc_normalised)
    fa = _func(tree, "cubic_bezier_from_arc")
    fa_text = [ast.unparse(s) for s in _body(fa)]
    for want in ("angle_span: float = arc_angle_span_deg(start_angle, end_angle)", "if abs(angle_span) < 1e-09:\n    return",
                 "s: float = start_angle", "start_angle = math.radians(s) % math.tau", "end_angle = math.radians(s + angle_span)",
                 "while start_angle > end_angle:\n    end_angle += math.tau"):
        if want not in fa_text:
            raise Unsupported(f"cubic_bezier_from_arc: missing {want!r}")
    loop = [s for s in fn.body if isinstance(s, ast.For)]
    if len(loop) != 1 or ast.unparse(loop[0].body[-1]) != "yield (start_point, control_point_1, control_point_2, end_point)":
        raise Unsupported("cubic_bezier_arc_parameters: loop")
    out = "/-- `TANGENT_FACTOR` -/\ndef arcTangentFactor : Rat := (4 : Rat) / 3\n\n"
    for s in loop[0].body:
        if isinstance(s, ast.Assign) and ast.unparse(s.targets[0]) in ("control_point_1", "control_point_2"):
            name = ast.unparse(s.targets[0])
            ex = SymExec({}, {}, None, None, None)
            v = ex.ev(s.value, {"start_point": ("px", "py"), "end_point": ("px", "py"), "tangent_length": "L"})
            if not (isinstance(v, tuple) and len(v) == 2):
                raise Unsupported(f"{name} is not a 2d expression")
            out += (f"/-- `{name}` of `cubic_bezier_arc_parameters` (x, y); `p` = the start resp. end point of the segment -/\n"
                    f"def arc{name.title().replace('_', '')} (px py L : Rat) : Rat × Rat :=\n  ({v[0]}, {v[1]})\n\n")
    if out.count("def arcControlPoint") != 2:
        raise Unsupported("cubic_bezier_arc_parameters: control point assignments")
    return out


def translate(src_bbox: str, src_b4: str, src_b3: str, src_ez: str, extra: str = "") -> str:
    tree = ast.parse(src_bbox)
    abstract = _methods(tree, "AbstractBoundingBox")
    out = []
    ret_bool = lambda ex, v, env: ex.b(v)
    no_raise = lambda env: (_ for _ in ()).throw(Unsupported("raise"))
    no_end = lambda env: (_ for _ in ()).throw(Unsupported("fall off the end"))

    for cls, dim in (("BoundingBox", 3), ("BoundingBox2d", 2)):
        m = dict(abstract)
        m.update(_methods(tree, cls))
        smin, smax, omin, omax, p = (_vec(n, dim) for n in ("smin", "smax", "omin", "omax", "p"))
        attrs = {("self", "extmin"): smin, ("self", "extmax"): smax, ("other", "extmin"): omin, ("other", "extmax"): omax,
                 ("self", "has_data"): ("bool", "sd"), ("other", "has_data"): ("bool", "od")}
        props = {"size": m["size"]}
        # the sentinel: an empty box is one whose extmin.x is not finite
        init = [s for s in m["__init__"].body if not _is_doc(s)]
        inf = ", ".join(["math.inf"] * dim)
        vec = "Vec3" if dim == 3 else "Vec2"
        if ast.unparse(init[0]) != f"self.extmin = {vec}({inf})" or ast.unparse(init[1]) != "self.extmax = self.extmin":
            raise Unsupported(f"{cls}.__init__ does not start with the inf sentinel")
        hd = [s for s in m["has_data"].body if not _is_doc(s)]
        if len(hd) != 1 or ast.unparse(hd[0]) != "return math.isfinite(self.extmin.x)":
            raise Unsupported("has_data is not math.isfinite(self.extmin.x)")
        # inside
        ex = SymExec(props, attrs, ret_bool, no_raise, no_end)
        body = ex.run(m["inside"].body, {"vertex": p})
        out.append(f"/-- `{cls}.inside` -/\ndef inside{dim} (sd : Bool) {_binders(smin + smax + p)} : Bool :=\n  {body}\n")
        # has_intersection / has_overlap
        for py, ln in (("has_intersection", "hasIntersection"), ("has_overlap", "hasOverlap")):
            ex = SymExec(props, attrs, ret_bool, no_raise, no_end)
            body = ex.run(m[py].body, {})
            out.append(f"/-- `{cls}.{py}` -/\ndef {ln}{dim} (sd od : Bool) {_binders(smin + smax + omin + omax)} : Bool :=\n  {body}\n")
        # is_empty
        ex = SymExec(props, attrs, ret_bool, no_raise, no_end)
        body = ex.run(m["is_empty"].body, {})
        out.append(f"/-- `{cls}.is_empty` -/\ndef isEmpty{dim} (sd : Bool) {_binders(smin + smax)} : Bool :=\n  {body}\n")
        # size
        ex = SymExec(props, attrs, lambda ex, v, env: "(" + ", ".join(v) + ")", no_raise, no_end)
        body = ex.run(m["size"].body, {})
        out.append(f"/-- `size` for {cls} -/\ndef size{dim} {_binders(smin + smax)} : {' × '.join(['Rat'] * dim)} :=\n  {body}\n")
        # intersection: none = the fresh empty box is returned untouched, some pts = fresh box extended by pts
        def new_box(args, env=None):
            return Opaque("EMPTY")

        def ext_call(args, env):
            if env.get("new_bbox") != "EMPTY" or len(args) != 1:
                raise Unsupported("extend on something else than the fresh box")
            env["new_bbox"] = ("extended", args[0])

        def ret_box(ex, v, env):
            if v == "EMPTY":
                return "none"
            if isinstance(v, tuple) and v[0] == "extended":
                return "some [" + ", ".join("(" + ", ".join(pt) + ")" for pt in v[1]) + "]"
            raise Unsupported("intersection returns something else")

        class ExI(SymExec):
            def ev(self, e, env):
                if isinstance(e, ast.List):
                    return ("list",) + tuple(self.ev(x, env) for x in e.elts)
                return super().ev(e, env)

        calls = {"self.__class__": new_box, "self.has_intersection": lambda args: ("bool", "hi"),
                 "new_bbox.extend": lambda args, env: ext_call([args[0][1:]], env)}
        ex = ExI(props, attrs, ret_box, no_raise, no_end, calls)
        body = ex.run(m["intersection"].body, {"other": Opaque("other")})
        ty = " × ".join(["Rat"] * dim)
        out.append(f"/-- `{cls}.intersection`: `none` = the new empty box, `some pts` = the new box extended by `pts`;\n"
                   f"    `hi` = `self.has_intersection(other)` -/\n"
                   f"def intersection{dim} (hi : Bool) {_binders(smin + smax + omin + omax)} : Option (List ({ty})) :=\n  {body}\n")
        # grow: none = ValueError, some (extmin, extmax) = the receiver afterwards
        def end_grow(env):
            lo = env.get(("attr", "self", "extmin"), smin)
            hi = env.get(("attr", "self", "extmax"), smax)
            return "some ((" + ", ".join(lo) + "), (" + ", ".join(hi) + "))"

        ex = SymExec(props, attrs, lambda ex, v, env: (_ for _ in ()).throw(Unsupported("return in grow")), lambda env: "none", end_grow)
        body = ex.run(m["grow"].body, {"value": "value"})
        out.append(f"/-- `grow` for {cls}: `none` = ValueError, otherwise (extmin, extmax) afterwards -/\n"
                   f"def grow{dim} (sd : Bool) {_binders(smin + smax + ('value',))} : Option (({ty}) × ({ty})) :=\n  {body}\n")

    # contains (shared): self.inside(other.extmin) and self.inside(other.extmax)
    attrs = {("other", "extmin"): Opaque("omin"), ("other", "extmax"): Opaque("omax")}
    ex = SymExec({}, attrs, ret_bool, no_raise, no_end, {"self.inside": lambda args: ("bool", f"(inside {args[0]})")})
    body = ex.run(abstract["contains"].body, {})
    out.append("/-- `AbstractBoundingBox.contains` over the class's own `inside` -/\n"
               f"def contains {{α : Type}} (inside : α → Bool) (omin omax : α) : Bool :=\n  {body}\n")

    # Bezier evaluators (one coordinate; Vec * float and Vec + Vec are componentwise)
    for src, cls, n, name in ((src_b4, "Bezier4P", 4, "bezier4Point"), (src_b3, "Bezier3P", 3, "bezier3Point")):
        m = _methods(ast.parse(src), cls)
        qs = tuple(f"q{i}" for i in range(n))
        attrs = {("self", "_control_points"): qs, ("self", "_offset"): "off"}
        ex = SymExec({}, attrs, lambda ex, v, env: ex.s(v), no_raise, no_end)
        body = ex.run(m["_get_curve_point"].body, {"t": "t"})
        out.append(f"/-- one coordinate of `{cls}._get_curve_point`; `q_i` = control point i minus the offset (q0 is not read) -/\n"
                   f"def {name} {_binders(qs[1:] + ('off', 't'))} : Rat :=\n  {body}\n")
        init = ast.unparse(m["__init__"])
        if "offset: T = defpoints[0]" not in init or "tuple((p - offset for p in defpoints))" not in init:
            raise Unsupported(f"{cls}.__init__ does not store control points relative to defpoints[0]")

    # structural fingerprints of the loop-carrying methods (recorded, not pinned; tied by correspondence)
    fps = []
    for cls in ("AbstractBoundingBox", "BoundingBox", "BoundingBox2d"):
        for name, fn in _methods(tree, cls).items():
            if name in ("extend", "union", "all_inside", "any_inside", "copy", "__iter__", "center"):
                fps.append((f"{cls}.{name}", _fingerprint(fn)))
    for n in tree.body:
        if isinstance(n, ast.FunctionDef) and n.name in ("extents3d", "extents2d"):
            fps.append((n.name, _fingerprint(n)))
    ez = ast.parse(src_ez)
    for n in ez.body:
        if isinstance(n, ast.FunctionDef):
            fps.append((f"ezdxf.bbox.{n.name}", _fingerprint(n)))
        if isinstance(n, ast.ClassDef) and n.name == "Cache":
            for f in n.body:
                if isinstance(f, ast.FunctionDef):
                    fps.append((f"ezdxf.bbox.Cache.{f.name}", _fingerprint(f)))
    head = """
namespace EzdxfVerif.Gen.BBoxKernels

/-- Python `min(a, b)`: the later argument wins only if strictly smaller -/
def pyMin (a b : Rat) : Rat := if b < a then b else a
/-- Python `max(a, b)`: the later argument wins only if strictly greater -/
def pyMax (a b : Rat) : Rat := if b > a then b else a
/-- Python `abs(x)` -/
def pyAbs (x : Rat) : Rat := if x < 0 then -x else x
/-- `math.copysign(x, y)` (y = -0.0 is outside the model) -/
def pyCopysign (x y : Rat) : Rat := if y < 0 then -(pyAbs x) else pyAbs x

"""
    tail = ("/-- sha256 prefixes of the AST of methods that are modelled by hand and tied by correspondence only -/\n"
            "def fingerprints : List (String × String) := "
            + lean_list((f"({lean_str(a)}, {lean_str(b)})" for a, b in fps), per_line=2)
            + "\n\nend EzdxfVerif.Gen.BBoxKernels\n")
    return head + "\n".join(out) + "\n" + extra + tail


def regenerate(ctx):
    srcs = [BBOX_PY, BEZ4_PY, BEZ3_PY, EZBBOX_PY]
    texts = [ctx.src(s) for s in srcs]
    for extra in ("src/ezdxf/disassemble.py", "src/ezdxf/path/tools.py", "src/ezdxf/math/curvetools.py", "src/ezdxf/acc/bezier4p.pyx"):
        ctx.src(extra)
    pin_invalidate(texts[3])
    extra_srcs = [TOOLS_PY, CMDS_PY, CURVETOOLS_PY, SELECT_PY]
    tools, cmds, ct, sel = (ctx.src(s) for s in extra_srcs)
    extra = translate_precise_step(tools, cmds) + "\n" + translate_add_bezier(tools) + translate_cubic(ct) + translate_select(sel) + translate_arc(texts[1]) + translate_vertices(texts[0]) + translate_primitives(ctx.src("src/ezdxf/disassemble.py"))
    ctx.write_gen("BBoxKernels", translate(*texts, extra=extra), srcs + extra_srcs)


# ====================================================================== implementation side of X1/X2
def fr(x) -> str:
    return str(Fraction(x))


def show_v(v) -> str:
    return ",".join(fr(c) for c in v)


def show_box(b) -> str:
    return show_v(b.extmin) + "," + show_v(b.extmax) if b.has_data else "E"


def spec_str(spec) -> str:
    if spec is None:
        return "E"
    lo, hi = spec
    return ",".join(str(Fraction(c)) for c in tuple(lo) + tuple(hi))


def mk3(spec):
    from ezdxf.math import BoundingBox, Vec3

    if spec is None:
        return BoundingBox()
    lo, hi = spec
    if all(a <= b for a, b in zip(lo, hi)):
        return BoundingBox([lo, hi])
    b = BoundingBox()  # inverted corners: only reachable through the public attributes
    b.extmin, b.extmax = Vec3(lo), Vec3(hi)
    return b


def mk2(spec):
    from ezdxf.math import BoundingBox2d, Vec2

    if spec is None:
        return BoundingBox2d()
    lo, hi = spec
    if all(a <= b for a, b in zip(lo, hi)):
        return BoundingBox2d([lo, hi])
    b = BoundingBox2d()
    b.extmin, b.extmax = Vec2(lo), Vec2(hi)
    return b


def tf(b) -> str:
    return "T" if b else "F"


def impl_pair(a, b, kernels=True) -> str:
    out = [show_box(a.union(b)), show_box(a.intersection(b)), tf(a.has_intersection(b)), tf(a.has_overlap(b)), tf(a.contains(b))]
    if kernels:  # the driver repeats the observables through the generated kernels
        out += [out[1], out[2], out[3], out[4]] if a.has_data and b.has_data else ["-"]
    return ";".join(out)


def impl_box(a, dim) -> str:
    from ezdxf.math import BoundingBox

    size = show_v(a.size) if a.has_data else "N"
    center = show_v(a.center) if a.has_data else "N"
    wf = all(x <= y for x, y in zip(a.extmin, a.extmax)) if a.has_data else True
    out = [tf(a.has_data), tf(a.is_empty), size, center]
    if dim == 3:
        e = BoundingBox()
        e.extend(a)  # the `_extends.extend(box)` idiom of ezdxf.bbox
        out.append(show_box(e))
    out.append(tf(wf))

    def verts(f):
        try:
            return "/".join(show_v(v) for v in f())
        except ValueError:
            return "ValueError"

    out.append(verts(a.rect_vertices))
    if dim == 3:
        out.append(verts(a.cube_vertices))
    return ";".join(out)


def impl_pt(a, p) -> str:
    c = a.copy()
    c.extend([p])
    return tf(a.inside(p)) + ";" + show_box(c)


def impl_pts(a, pts, cls) -> str:
    c = a.copy()
    c.extend(iter(pts))
    return "/".join([show_box(cls(pts)), show_box(c), tf(a.all_inside(iter(pts))), tf(a.any_inside(iter(pts)))])


def impl_grow(a, v) -> str:
    c = a.copy()
    try:
        c.grow(v)
    except ValueError:
        return "ValueError"
    return show_box(c)


Q = [Fraction(k, 4) for k in range(-8, 25)]


def intervals(ctx):
    base = [(0, 2), (2, 4), (1, 3), (0, 4), (1, 1), (2, 2), (5, 6), (0.5, 1.5), (-1, 0), (0, 0)]
    if not ctx.quick:
        base += [(2, 2.25), (-2, -1), (1.75, 2), (0, 2.5)]
    return base


def boxes3(ctx):
    iv = intervals(ctx)
    out = [None]
    for x, y, z in itertools.product(iv, repeat=3):
        out.append(((x[0], y[0], z[0]), (x[1], y[1], z[1])))
    out += [((2, 2, 2), (0, 0, 0)), ((0, 2, 0), (2, 0, 2)), ((1, 0, 0), (0, 2, 2)), ((3, 3, 3), (1, 1, 1))]
    return out


def boxes2(ctx):
    iv = intervals(ctx)
    out = [None]
    for x, y in itertools.product(iv, repeat=2):
        out.append(((x[0], y[0]), (x[1], y[1])))
    out += [((2, 2), (0, 0)), ((0, 2), (2, 0)), ((3, 1), (1, 3))]
    return out


REFS3 = [((0, 0, 0), (2, 2, 2)), ((0, 0, 1), (2, 2, 1)), ((2, 2, 2), (2, 2, 2)), ((1, 0, -1), (3, 4, 1)), None,
         ((2, 2, 2), (0, 0, 0)), ((0, 1, 0), (4, 1, 0)), ((1, 1, 1), (1, 1, 1))]
REFS2 = [((0, 0), (2, 2)), ((0, 1), (2, 1)), ((2, 2), (2, 2)), ((1, -1), (3, 1)), None, ((2, 2), (0, 0))]


def rnd_box(rng, dim):
    k = rng.random()
    if k < 0.06:
        return None
    lo = [rng.choice(Q[8:24]) for _ in range(dim)]
    ext = [rng.choice([0, 0, Fraction(1, 4), Fraction(1, 2), 1, 2, 3]) for _ in range(dim)]
    hi = [a + b for a, b in zip(lo, ext)]
    if k > 0.97:
        lo, hi = hi, lo
    return (tuple(float(c) for c in lo), tuple(float(c) for c in hi))


def correspond_algebra(ctx):
    from ezdxf.math import BoundingBox, BoundingBox2d

    S = "X1 box algebra"
    cases = []
    rng = ctx.rng("algebra")
    b3, b2 = boxes3(ctx), boxes2(ctx)
    nt = lambda a, b: a is not None or b is not None
    # all pairs reference x grid, both orders; all pairs of the 2d grid
    for r in REFS3:
        for o in b3:
            for a, b in ((r, o), (o, r)):
                cases.append((f"pair3|{spec_str(a)}|{spec_str(b)}", impl_pair(mk3(a), mk3(b)), nt(a, b)))
                ctx.hist(S, "pair3")
    pairs2 = itertools.product(b2, repeat=2) if not ctx.quick else itertools.chain(
        ((r, o) for r in REFS2 for o in b2), ((o, r) for r in REFS2 for o in b2), (tuple(rng.sample(b2, 2)) for _ in range(3000)))
    for a, b in pairs2:
        cases.append((f"pair2|{spec_str(a)}|{spec_str(b)}", impl_pair(mk2(a), mk2(b)), nt(a, b)))
        ctx.hist(S, "pair2")
    # mixed calls: BoundingBox.op(BoundingBox2d) and BoundingBox2d.op(BoundingBox)
    for r in REFS3:
        for o in b2:
            cases.append((f"pair32|{spec_str(r)}|{spec_str(o)}", impl_pair(mk3(r), mk2(o), False), nt(r, o)))
            ctx.hist(S, "pair32")
    for r in REFS2:
        for o in rng.sample(b3, ctx.n(300, 1500)):
            cases.append((f"pair23|{spec_str(r)}|{spec_str(o)}", impl_pair(mk2(r), mk3(o), False), nt(r, o)))
            ctx.hist(S, "pair23")
    # random dyadic pairs
    for _ in range(ctx.n(3000, 40000)):
        a, b = rnd_box(rng, 3), rnd_box(rng, 3)
        if rng.random() < 0.3 and a is not None:  # derive b from a: shift along one axis by the size (touching) or nest
            lo, hi = a
            ax = rng.randrange(3)
            d = hi[ax] - lo[ax]
            sh = [0.0, 0.0, 0.0]
            sh[ax] = rng.choice([d, -d, d / 2, 0.0])
            b = (tuple(x + s for x, s in zip(lo, sh)), tuple(x + s for x, s in zip(hi, sh)))
        cases.append((f"pair3|{spec_str(a)}|{spec_str(b)}", impl_pair(mk3(a), mk3(b)), nt(a, b)))
        ctx.hist(S, "pair3-rnd")
        a, b = rnd_box(rng, 2), rnd_box(rng, 2)
        cases.append((f"pair2|{spec_str(a)}|{spec_str(b)}", impl_pair(mk2(a), mk2(b)), nt(a, b)))
        ctx.hist(S, "pair2-rnd")
    # unary observables
    for a in b3:
        cases.append((f"box3|{spec_str(a)}", impl_box(mk3(a), 3), a is not None))
    for a in b2:
        cases.append((f"box2|{spec_str(a)}", impl_box(mk2(a), 2), a is not None))
    ctx.hist(S, "unary", len(b3) + len(b2))
    # point membership on grid points, extend by one point
    coords = [-1, 0, 0.5, 1, 2, 2.5, 3]
    some3 = REFS3 + rng.sample(b3, ctx.n(12, 60))
    for a in some3:
        for p in itertools.product(coords, repeat=3):
            cases.append((f"pt3|{spec_str(a)}|{','.join(str(Fraction(c)) for c in p)}", impl_pt(mk3(a), p), a is not None))
    some2 = REFS2 + rng.sample(b2, ctx.n(20, 80))
    for a in some2:
        for p in itertools.product(coords, repeat=2):
            cases.append((f"pt2|{spec_str(a)}|{','.join(str(Fraction(c)) for c in p)}", impl_pt(mk2(a), p), a is not None))
    ctx.hist(S, "point", (len(some3) * 343 + len(some2) * 49))
    # point lists: constructor, extend, all_inside, any_inside
    for _ in range(ctx.n(2500, 25000)):
        for dim, mk, cls, op in ((3, mk3, BoundingBox, "pts3"), (2, mk2, BoundingBox2d, "pts2")):
            a = rnd_box(rng, dim)
            n = rng.choice([0, 0, 1, 1, 2, 3, 4, 6])
            pts = []
            for _i in range(n):
                if a is not None and rng.random() < 0.6:  # near / on / inside the box
                    lo, hi = a
                    pts.append(tuple(rng.choice([l, h, (l + h) / 2, l - 0.25, h + 0.25]) for l, h in zip(lo, hi)))
                else:
                    pts.append(tuple(float(rng.choice(Q)) for _j in range(dim)))
            req = f"{op}|{spec_str(a)}|" + ";".join(",".join(str(Fraction(c)) for c in p) for p in pts)
            cases.append((req, impl_pts(mk(a), pts, cls), a is not None or bool(pts)))
            ctx.hist(S, "points")
    # grow around the ValueError threshold
    vals = [-3, -2, -1.5, -1, -0.75, -0.5, -0.25, -0.125, 0, 0.25, 1, 2.5]
    for a in REFS3 + rng.sample(b3, ctx.n(40, 300)):
        ext = [] if a is None else [-(h - l) / 2 for l, h in zip(*a)]
        for v in vals + ext:
            cases.append((f"grow3|{spec_str(a)}|{Fraction(v)}", impl_grow(mk3(a), v), a is not None))
            ctx.hist(S, "grow")
    for a in REFS2 + rng.sample(b2, ctx.n(40, 100)):
        ext = [] if a is None else [-(h - l) / 2 for l, h in zip(*a)]
        for v in vals + ext:
            cases.append((f"grow2|{spec_str(a)}|{Fraction(v)}", impl_grow(mk2(a), v), a is not None))
            ctx.hist(S, "grow")
    ctx.correspond(S, "C15", cases, build=DRIVER_DEPS)


def correspond_bezier(ctx):
    from ezdxf.math import Bezier4P, Bezier3P, Vec3, BoundingBox
    from ezdxf.math._bezier4p import Bezier4P as PyB4
    from ezdxf.math._bezier3p import Bezier3P as PyB3

    S = "X2 bezier point"
    rng = ctx.rng("bezier")
    cases = []
    for i in range(ctx.n(1200, 10000)):
        pts = [tuple(float(rng.randint(-8, 8)) if rng.random() < 0.8 else rng.randint(-16, 16) / 2 for _ in range(3)) for _ in range(4)]
        c4 = [Bezier4P([Vec3(p) for p in pts]), PyB4([Vec3(p) for p in pts])][i % 2]
        c3 = [Bezier3P([Vec3(p) for p in pts[:3]]), PyB3([Vec3(p) for p in pts[:3]])][i % 2]
        sp = ["%s" % ",".join(str(Fraction(c)) for c in p) for p in pts]
        box4, box3_ = BoundingBox(pts), BoundingBox(pts[:3])
        for k in range(9):
            t = k / 8
            p = c4.point(t)
            cases.append((f"bez4|{sp[0]}|{sp[1]}|{sp[2]}|{sp[3]}|{Fraction(t)}", show_v(p) + ";" + show_v(p) + ";" + tf(box4.inside(p)), 0 < k < 8))
            p = c3.point(t)
            cases.append((f"bez3|{sp[0]}|{sp[1]}|{sp[2]}|{Fraction(t)}", show_v(p) + ";" + show_v(p) + ";" + tf(box3_.inside(p)), 0 < k < 8))
        ctx.hist(S, ["cython", "python"][i % 2])
    ctx.correspond(S, "C15", cases, build=DRIVER_DEPS)


# ====================================================================== document generator (recipes) + independent sampler
def _unit(v):
    import numpy as np

    v = np.asarray(v, dtype=float)
    return v / math.sqrt(float(v @ v))


def ocs_axes(extrusion):
    """arbitrary axis algorithm (DXF reference), written from the specification"""
    import numpy as np

    n = _unit(extrusion)
    if abs(n[0]) < 1 / 64 and abs(n[1]) < 1 / 64:
        ax = np.cross([0.0, 1.0, 0.0], n)
    else:
        ax = np.cross([0.0, 0.0, 1.0], n)
    ax = _unit(ax)
    ay = _unit(np.cross(n, ax))
    return ax, ay, n


def ocs_to_wcs(pts, extrusion):
    import numpy as np

    ax, ay, n = ocs_axes(extrusion)
    pts = np.asarray(pts, dtype=float).reshape(-1, 3)
    return pts[:, 0:1] * ax + pts[:, 1:2] * ay + pts[:, 2:3] * n


EXTRUSIONS = [(0, 0, 1), (0, 0, 1), (0, 0, 1), (0, 0, -1), (1, 0, 0), (0, 1, 0), (1, 1, 1), (0.01, 0.01, 1), (0.02, 0, 1), (-1, 2, 0.5), (0.3, -0.2, -1)]


def rc(rng, lo=-10, hi=10):
    return rng.randint(lo * 4, hi * 4) / 4


def gen_entity(rng, blocks, depth_ok=True, kinds=None):
    kinds = kinds or ["LINE", "LINE", "POINT", "CIRCLE", "ARC", "ARC", "ELLIPSE", "LWPOLYLINE", "LWPOLYLINE", "SPLINE", "SPLINE",
                      "SOLID", "POLYLINE3D", "POLYLINE2D", "3DFACE", "HATCH", "HATCH"] + (["INSERT"] * 5 if blocks and depth_ok else [])
    k = rng.choice(kinds)
    ext = list(rng.choice(EXTRUSIONS))
    if k == "LINE":
        return {"t": k, "start": [rc(rng), rc(rng), rc(rng)], "end": [rc(rng), rc(rng), rc(rng)]}
    if k == "POINT":
        return {"t": k, "location": [rc(rng), rc(rng), rc(rng)]}
    if k == "CIRCLE":
        return {"t": k, "center": [rc(rng), rc(rng), rc(rng, -3, 3)], "radius": rng.randint(1, 20) / 4, "extrusion": ext}
    if k == "ARC":
        a0 = rng.choice([0, 30, 45, 90, 135, 180, 200, 270, 300, rng.uniform(0, 360)])
        sweep = rng.choice([10, 45, 90, 120, 180, 270, 359, rng.uniform(1, 359)])
        return {"t": k, "center": [rc(rng), rc(rng), rc(rng, -3, 3)], "radius": rng.randint(1, 20) / 4, "start_angle": a0,
                "end_angle": (a0 + sweep) % 360, "extrusion": ext}
    if k == "ELLIPSE":
        t0 = rng.choice([0, 0, 0.5, 1.0, 3.0, rng.uniform(0, 6.28)])
        t1 = rng.choice([math.tau, t0 + 1.0, t0 + 3.0, t0 + rng.uniform(0.1, 6.2)])
        if t0 == 0 and rng.random() < 0.5:
            t1 = math.tau
        return {"t": k, "center": [rc(rng), rc(rng), rc(rng, -3, 3)], "major": [rng.randint(2, 20) / 4, rng.choice([0, 0, 1, -2, 3]) * 1.0],
                "ratio": rng.choice([0.25, 0.5, 0.75, 1.0, 0.1]), "start_param": t0, "end_param": t1, "extrusion": ext}
    if k in ("LWPOLYLINE", "POLYLINE2D"):
        n = rng.randint(2, 6)
        pts = [[rc(rng), rc(rng), rng.choice([0, 0, 0.5, -0.5, 1, -1, 0.25, 2, -1.5])] for _ in range(n)]
        for i in range(1, n):  # no zero-length segments (a bulge on them is undefined)
            if pts[i][:2] == pts[i - 1][:2]:
                pts[i][0] += 1
        if pts[0][:2] == pts[-1][:2]:
            pts[-1][1] += 1
        return {"t": k, "points": pts, "closed": rng.random() < 0.4, "elevation": rc(rng, -3, 3), "extrusion": ext}
    if k == "HATCH":
        # several boundary paths -> one multi-path (MOVE_TO between the sub-paths); later sub-paths often START with a curve
        paths = []
        for i in range(rng.randint(1, 4)):
            if rng.random() < 0.5:
                n = rng.randint(3, 5)
                pts = [[rc(rng), rc(rng), 0] for _ in range(n)]
                for j in range(n):
                    if pts[j][:2] == pts[j - 1][:2]:
                        pts[j][0] += 1.25
                if i == 0 and rng.random() < 0.6:
                    pass  # plain polygon first, like most real hatches
                else:
                    for j in range(n):
                        pts[j][2] = rng.choice([0, 0, 0.5, -0.5, 1, -1, 0.25, 1.5])
                    if rng.random() < 0.7:
                        pts[0][2] = rng.choice([0.5, -0.5, 1, -1, 0.3, 1.5, -2])  # first segment is an arc
                paths.append({"k": "poly", "points": pts})
            else:
                a0 = rng.choice([-40, 20, 60, 100, 170, 250, 300, rng.uniform(0, 360)])
                sweep = rng.choice([30, 60, 80, 80, 120, 200, rng.uniform(10, 340)])
                paths.append({"k": "arc", "center": [rc(rng), rc(rng)], "radius": rng.randint(1, 24) / 4, "a0": a0, "a1": a0 + sweep,
                              "ccw": rng.random() < 0.7, "lead": rng.random() < 0.3})
        return {"t": k, "paths": paths, "elevation": rc(rng, -3, 3), "extrusion": ext}
    if k == "SPLINE":
        deg = rng.choice([2, 3, 3, 3, 4])
        n = rng.randint(deg + 1, deg + 5)
        cps = [[rc(rng), rc(rng), rng.choice([0, 0, rc(rng, -3, 3)])] for _ in range(n)]
        dbl = rng.random()
        if dbl < 0.15:  # doubled first / last control point (zero end tangent): exact Bezier segments with a collapsed control point
            cps[1] = list(cps[0])
        elif dbl < 0.3:
            cps[-2] = list(cps[-1])
        w = [rng.choice([1, 1, 2, 0.5, 3]) for _ in range(n)] if rng.random() < 0.3 else None
        return {"t": k, "control_points": cps, "degree": deg, "weights": w}
    if k == "SOLID":
        return {"t": k, "points": [[rc(rng), rc(rng)] for _ in range(4)], "elevation": rc(rng, -3, 3), "extrusion": ext}
    if k == "3DFACE":
        return {"t": k, "points": [[rc(rng), rc(rng), rc(rng)] for _ in range(4)]}
    if k == "POLYLINE3D":
        return {"t": k, "points": [[rc(rng), rc(rng), rc(rng)] for _ in range(rng.randint(2, 6))], "closed": rng.random() < 0.3}
    if k == "INSERT":
        s = lambda: rng.choice([1, 1, 2, 0.5, -1, -2, 1.5, -0.5])
        uniform = rng.random() < 0.4
        sx = s()
        grid = rng.random() < 0.1
        return {"t": k, "name": rng.choice(blocks), "insert": [rc(rng), rc(rng), rc(rng, -3, 3)],
                "scale": [sx, sx, sx] if uniform else [sx, s(), s()],
                "rotation": rng.choice([0, 0, 90, 180, 30, 45, -60, rng.uniform(0, 360)]), "extrusion": ext,
                "grid": [rng.randint(1, 3), rng.randint(1, 2), rc(rng, 1, 6), rc(rng, 1, 6)] if grid else None}
    raise ValueError(k)


def gen_recipe(rng, n_top, n_blocks, depth):
    """{"blocks": [{name, base, entities}], "msp": [entities]}; block i only references blocks < i"""
    blocks = []
    for i in range(n_blocks):
        names = [b["name"] for b in blocks if b["level"] < depth]
        ents = [gen_entity(rng, names) for _ in range(rng.randint(1, 4))]
        level = 1 + max([next(b["level"] for b in blocks if b["name"] == e["name"]) for e in ents if e["t"] == "INSERT"], default=0)
        blocks.append({"name": f"B{i}", "base": [rng.choice([0, 0, rc(rng, -3, 3)]) for _ in range(3)], "entities": ents, "level": level})
    names = [b["name"] for b in blocks]
    return {"blocks": blocks, "msp": [gen_entity(rng, names) for _ in range(n_top)]}


def build_entity(layout, e):
    t = e["t"]
    if t == "LINE":
        return layout.add_line(e["start"], e["end"])
    if t == "POINT":
        return layout.add_point(e["location"])
    if t == "CIRCLE":
        return layout.add_circle(e["center"], e["radius"], dxfattribs={"extrusion": e["extrusion"]})
    if t == "ARC":
        return layout.add_arc(e["center"], e["radius"], e["start_angle"], e["end_angle"], dxfattribs={"extrusion": e["extrusion"]})
    if t == "ELLIPSE":
        ax, ay, n = ocs_axes(e["extrusion"])
        major = e["major"][0] * ax + e["major"][1] * ay
        center = ocs_to_wcs([e["center"]], e["extrusion"])[0]
        return layout.add_ellipse(tuple(center), tuple(major), e["ratio"], e["start_param"], e["end_param"],
                                  dxfattribs={"extrusion": tuple(n)})
    if t == "LWPOLYLINE":
        return layout.add_lwpolyline(e["points"], format="xyb", close=e["closed"],
                                     dxfattribs={"elevation": e["elevation"], "extrusion": e["extrusion"]})
    if t == "POLYLINE2D":
        return layout.add_polyline2d(e["points"], format="xyb", close=e["closed"],
                                     dxfattribs={"elevation": (0, 0, e["elevation"]), "extrusion": e["extrusion"]})
    if t == "SPLINE":
        if e["weights"]:
            return layout.add_rational_spline(e["control_points"], e["weights"], degree=e["degree"])
        return layout.add_open_spline(e["control_points"], degree=e["degree"])
    if t == "HATCH":
        h = layout.add_hatch(dxfattribs={"elevation": (0, 0, e["elevation"]), "extrusion": e["extrusion"]})
        for p in e["paths"]:
            if p["k"] == "poly":
                h.paths.add_polyline_path([tuple(v) for v in p["points"]], is_closed=True)
            else:
                cx, cy = p["center"]
                r = p["radius"]
                at = lambda a: (cx + r * math.cos(math.radians(a)), cy + r * math.sin(math.radians(a)))
                ep = h.paths.add_edge_path()
                # the arc edge is always stored counter-clockwise a0 -> a1; `ccw` only tells the direction of travel
                chord = (at(p["a1"]), at(p["a0"])) if p["ccw"] else (at(p["a0"]), at(p["a1"]))
                if p["lead"]:
                    ep.add_line(*chord)
                ep.add_arc((cx, cy), radius=r, start_angle=p["a0"], end_angle=p["a1"], ccw=p["ccw"])
                if not p["lead"]:
                    ep.add_line(*chord)
        return h
    if t == "SOLID":
        return layout.add_solid([(x, y, e["elevation"]) for x, y in e["points"]], dxfattribs={"extrusion": e["extrusion"]})
    if t == "3DFACE":
        return layout.add_3dface(e["points"])
    if t == "POLYLINE3D":
        return layout.add_polyline3d(e["points"], close=e["closed"])
    if t == "INSERT":
        ins = layout.add_blockref(e["name"], e["insert"], dxfattribs={
            "xscale": e["scale"][0], "yscale": e["scale"][1], "zscale": e["scale"][2], "rotation": e["rotation"], "extrusion": e["extrusion"]})
        if e.get("grid"):
            cols, rows, cs, rs = e["grid"]
            ins.dxf.column_count, ins.dxf.row_count, ins.dxf.column_spacing, ins.dxf.row_spacing = cols, rows, cs, rs
        return ins
    raise ValueError(t)


def build_doc(recipe):
    import ezdxf

    doc = ezdxf.new("R2010")
    for b in recipe["blocks"]:
        blk = doc.blocks.new(b["name"], base_point=b["base"])
        for e in b["entities"]:
            build_entity(blk, e)
    msp = doc.modelspace()
    ents = [build_entity(msp, e) for e in recipe["msp"]]
    return doc, ents


def _deboor(knots, cps, weights, degree, us):
    """Cox-de Boor evaluation of a (rational) B-spline, written from the textbook recursion"""
    import numpy as np

    cps = np.asarray(cps, dtype=float)
    n = len(cps)
    w = np.ones(n) if not weights else np.asarray(weights, dtype=float)
    out = []
    for u in us:
        # basis functions of degree 0
        N = np.zeros(len(knots) - 1)
        for i in range(len(knots) - 1):
            if knots[i] <= u < knots[i + 1]:
                N[i] = 1.0
        if u >= knots[-1]:  # right end of the domain belongs to the last non-empty span
            last = max(i for i in range(len(knots) - 1) if knots[i] < knots[i + 1])
            N[:] = 0.0
            N[last] = 1.0
        for p in range(1, degree + 1):
            M = np.zeros(len(knots) - 1 - p)
            for i in range(len(M)):
                a = 0.0 if knots[i + p] == knots[i] else (u - knots[i]) / (knots[i + p] - knots[i]) * N[i]
                b = 0.0 if knots[i + p + 1] == knots[i + 1] else (knots[i + p + 1] - u) / (knots[i + p + 1] - knots[i + 1]) * N[i + 1]
                M[i] = a + b
            N = M
        Nw = N[:n] * w
        out.append((Nw[:, None] * cps).sum(0) / Nw.sum())
    return np.array(out)


def sample_entity(e, blocks, density, entity=None):
    """WCS points ON the geometry of the recipe entity (numpy array n x 3), independent of ezdxf's geometry code;
    `entity` is only read for stored data of the SPLINE (knot vector)."""
    import numpy as np

    t = e["t"]
    if t == "LINE":
        return np.array([e["start"], e["end"]], dtype=float)
    if t == "POINT":
        return np.array([e["location"]], dtype=float)
    if t in ("CIRCLE", "ARC"):
        if t == "CIRCLE":
            a = np.linspace(0, math.tau, 4 * density + 1)
        else:
            a0, a1 = math.radians(e["start_angle"]), math.radians(e["end_angle"])
            if a1 <= a0:
                a1 += math.tau
            a = np.linspace(a0, a1, 4 * density + 1)
        c, r = e["center"], e["radius"]
        pts = np.stack([c[0] + r * np.cos(a), c[1] + r * np.sin(a), np.full_like(a, c[2])], axis=1)
        return ocs_to_wcs(pts, e["extrusion"])
    if t == "ELLIPSE":
        t0, t1 = e["start_param"], e["end_param"]
        if t1 <= t0:
            t1 += math.tau
        a = np.linspace(t0, t1, 4 * density + 1)
        mx, my = e["major"]
        rx, ry = -my * e["ratio"], mx * e["ratio"]  # minor axis = z x major (in OCS), scaled by ratio
        c = e["center"]
        pts = np.stack([c[0] + mx * np.cos(a) + rx * np.sin(a), c[1] + my * np.cos(a) + ry * np.sin(a), np.full_like(a, c[2])], axis=1)
        return ocs_to_wcs(pts, e["extrusion"])
    if t == "HATCH":
        parts = []
        for p in e["paths"]:
            if p["k"] == "poly":
                parts.append(sample_entity({"t": "LWPOLYLINE", "points": p["points"], "closed": True, "elevation": e["elevation"],
                                            "extrusion": e["extrusion"]}, blocks, density))
            else:
                a = np.radians(np.linspace(p["a0"], p["a1"], 4 * density + 1))
                cx, cy = p["center"]
                pts = np.stack([cx + p["radius"] * np.cos(a), cy + p["radius"] * np.sin(a), np.full_like(a, e["elevation"])], axis=1)
                parts.append(ocs_to_wcs(pts, e["extrusion"]))
        return np.concatenate(parts)
    if t in ("LWPOLYLINE", "POLYLINE2D"):
        P = e["points"]
        segs = list(zip(P, P[1:])) + ([(P[-1], P[0])] if e["closed"] else [])
        out = [[P[0][0], P[0][1]]]
        for (x1, y1, b, *_), (x2, y2, *_r) in segs:
            if b == 0:
                out.append([x2, y2])
                continue
            dx, dy = x2 - x1, y2 - y1
            d = math.hypot(dx, dy)
            theta = 4 * math.atan(b)
            h = (d / 2) * (1 - b * b) / (2 * b)
            cx, cy = (x1 + x2) / 2 - dy / d * h, (y1 + y2) / 2 + dx / d * h
            r = math.hypot(x1 - cx, y1 - cy)
            a0 = math.atan2(y1 - cy, x1 - cx)
            for u in np.linspace(0, 1, density + 1)[1:]:
                out.append([cx + r * math.cos(a0 + theta * u), cy + r * math.sin(a0 + theta * u)])
        pts = np.array([[x, y, e["elevation"]] for x, y in out])
        return ocs_to_wcs(pts, e["extrusion"])
    if t == "SPLINE":
        knots = list(entity.knots) if entity is not None else None
        if knots is None:
            raise ValueError("SPLINE sampling needs the stored knot vector")
        deg = e["degree"]
        us = np.linspace(knots[deg], knots[-deg - 1], 12 * density + 1)
        return _deboor(knots, e["control_points"], e["weights"], deg, us)
    if t == "SOLID":
        return ocs_to_wcs([[x, y, e["elevation"]] for x, y in e["points"]], e["extrusion"])
    if t in ("3DFACE", "POLYLINE3D"):
        return np.array(e["points"], dtype=float)
    if t == "INSERT":
        blk = next(b for b in blocks if b["name"] == e["name"])
        parts = []
        for ce in blk["entities"]:
            parts.append(sample_entity(ce, blocks, density, entity=None if ce["t"] != "SPLINE" else _spline_proxy(ce)))
        if not parts:
            return np.zeros((0, 3))
        pts = np.concatenate(parts) - np.array(blk["base"], dtype=float)
        pts = pts * np.array(e["scale"], dtype=float)
        a = math.radians(e["rotation"])
        ca, sa = math.cos(a), math.sin(a)
        rot = lambda q: np.stack([q[:, 0] * ca - q[:, 1] * sa, q[:, 0] * sa + q[:, 1] * ca, q[:, 2]], axis=1)
        pts = rot(pts)
        copies = []
        cols, rows, cs, rs = e.get("grid") or (1, 1, 0, 0)
        for ci in range(cols):
            for ri in range(rows):
                off = rot(np.array([[ci * cs, ri * rs, 0.0]]))
                copies.append(pts + np.array(e["insert"], dtype=float) + off)
        return ocs_to_wcs(np.concatenate(copies), e["extrusion"])
    raise ValueError(t)


class _spline_proxy:
    """knot vector of a SPLINE inside a block: open uniform (clamped) as documented for add_open_spline /
    add_rational_spline, computed here without ezdxf"""

    def __init__(self, e):
        n, order = len(e["control_points"]), e["degree"] + 1
        inner = list(range(1, n - order + 1))
        self.knots = [0.0] * order + [float(k) for k in inner] + [float(n - order + 1)] * order


# ====================================================================== X3: cache protocol (model vs real functions)
def _key(cache, entity):
    """the cache key as the model assumes it (Cache(uuid=False)): none for HATCH and for entities without a real handle"""
    if entity.dxftype() == "HATCH":
        return None
    h = entity.dxf.handle
    return None if h is None or h == "0" else int(h, 16)


def _kstr(k, fast=False):
    """model key: the `fast` flag is part of the cache key (handle * 2 + flag)"""
    return "n" if k is None else str(2 * k + int(bool(fast)))


def _split_key(k):
    return (k[0], bool(k[1])) if isinstance(k, tuple) else (k, False)


FRESH_BASE = 2 ** 41  # model keys >= FRESH_BASE stand for uuid keys (Cache(uuid=True)); they are compared as a multiset of boxes


def _is_uuid_key(k) -> bool:
    return "-" in _split_key(k)[0]


def cache_state(cache, for_model=False, counter=None) -> str:
    """handle-keyed entries as `key=box` sorted by key; uuid-keyed entries (virtual entities, Cache(uuid=True)) as `u=box`
    sorted by text - for the model request they get fresh numeric keys"""
    items = list(cache._boxes.items())
    ents = sorted((2 * int(_split_key(k)[0], 16) + int(_split_key(k)[1]), b) for k, b in items if not _is_uuid_key(k))
    virt = sorted(show_box(b) for k, b in items if _is_uuid_key(k))
    parts = [f"{k}={show_box(b)}" for k, b in ents]
    if for_model:
        parts += [f"{FRESH_BASE + next(counter)}={s}" for s in virt]
    else:
        parts += [f"u={s}" for s in virt]
    return "~".join(parts) + f"|{cache.hits}|{cache.misses}"


def ents_str(entities, fast, counter=None) -> str:
    """`counter` is given for Cache(uuid=True): every primitive of a virtual entity gets a fresh key (its uuid is new on
    every decomposition), HATCH primitives stay without key"""
    from ezdxf import bbox, disassemble

    probe = bbox.Cache()
    out = []
    for e in entities:
        prims = []
        for p in disassemble.to_primitives(disassemble.recursive_decompose([e])):
            if p.is_empty:
                continue
            k = _key(probe, p.entity)
            if k is None and counter is not None and p.entity.dxftype() != "HATCH":
                ks = str(FRESH_BASE + next(counter))
            else:
                ks = _kstr(k, fast)
            prims.append(f"{ks}={show_box(p.bbox(fast=fast))}")
        out.append(f"{_kstr(_key(probe, e), fast)}:" + "&".join(prims))
    return ";".join(out)


def x3_doc(rng):
    """a document for the cache stream: the oracle's entity kinds plus HATCH (never cached), INSERT with ATTRIBs
    (real sub-entities with handles), entities without geometry"""
    rec = gen_recipe(rng, rng.randint(2, 7), rng.randint(1, 3), 2)
    doc, ents = build_doc(rec)
    msp = doc.modelspace()
    if rng.random() < 0.5:
        h = msp.add_hatch()
        h.paths.add_polyline_path([(rc(rng), rc(rng)) for _ in range(4)], is_closed=True)
        ents.append(h)
        if rng.random() < 0.5:
            h.paths.add_polyline_path([(rc(rng), rc(rng), 0.5) for _ in range(3)], is_closed=True)
    for e in list(ents):
        if e.dxftype() == "INSERT" and rng.random() < 0.4:
            e.add_attrib("TAG", "value", (rc(rng), rc(rng)))
    if rng.random() < 0.3:
        ents.append(msp.add_circle((0, 0), 0.0))  # no geometry -> box without data (stored by multi_flat only)
    if rng.random() < 0.3:
        ents.append(msp.add_lwpolyline([(1, 1)]))
    if rng.random() < 0.3 and ents:
        ents.append(ents[0])  # the same entity twice in one call
    rng.shuffle(ents)
    return doc, ents


def correspond_cache(ctx):
    from ezdxf import bbox
    from ezdxf.math import BoundingBox
    import copy as _copy

    S = "X3 cache protocol"
    rng = ctx.rng("cache")
    cases = []
    for d in range(ctx.n(120, 800)):
        doc, ents = x3_doc(rng)
        fast0 = rng.random() < 0.3
        mix = rng.random() < 0.35  # one cache used with both values of `fast` (the flag is part of the key)
        uuid_mode = rng.random() < 0.25  # Cache(uuid=True): virtual entities are cached under their (always new) uuid
        cache = bbox.Cache(uuid=uuid_mode)
        counter = itertools.count() if uuid_mode else None
        calls = [("flat", ents, True), ("flat", ents, True), ("rec", rng.sample(ents, max(1, len(ents) // 2)), True),
                 ("flat", rng.sample(ents, max(1, len(ents) // 2)), True), ("flat", ents, False), ("rec", ents, False)]
        if rng.random() < 0.5:
            calls.insert(0, ("rec", rng.sample(ents, max(1, len(ents) // 2)), True))
        # compute / modify / invalidate / compute: after the first calls the entities are moved, some of them are invalidated (in
        # any order, uncached entities - HATCH, a new entity - in front or in between), then the calls go on
        calls.insert(rng.randint(2, len(calls)), ("inval", None, True))
        calls += [("flat", ents, True), ("rec", rng.sample(ents, max(1, len(ents) // 2)), True)]
        for fn, sub, uc in calls:
            if fn == "inval":
                uniq = list({id(e): e for e in ents}.values())
                for e in uniq:
                    if rng.random() < 0.7:
                        try:
                            e.translate(rng.randint(-8, 8) / 4, rng.randint(-8, 8) / 4, 0)
                        except Exception:  # noqa
                            pass
                todo = [e for e in uniq if rng.random() < 0.6] or uniq[:1]
                if rng.random() < 0.5:
                    todo.append(doc.modelspace().add_point((rc(rng), rc(rng))))  # never measured
                if rng.random() < 0.3:
                    todo.append(todo[0])  # twice
                rng.shuffle(todo)
                keys = []
                for e in todo:
                    k = _key(bbox.Cache(), e)
                    keys += ["n"] if k is None else [str(2 * k), str(2 * k + 1)]
                pre = cache_state(cache, for_model=True, counter=counter)
                cache.invalidate(iter(todo))
                cases.append((f"inval|{pre}|{','.join(keys)}", cache_state(cache), True))
                ctx.hist(S, "invalidate" + ("/uuid" if uuid_mode else ""))
                continue
            fast = (rng.random() < 0.5) if mix else fast0
            pre = cache_state(cache, for_model=True, counter=counter) if uc else "|0|0"
            es = ents_str(sub, fast, counter if uc else None)
            c = cache if uc else None
            if fn == "flat":
                clone = None
                if uc:
                    clone = bbox.Cache(uuid=uuid_mode)
                    clone._boxes, clone.hits, clone.misses = dict(cache._boxes), cache.hits, cache.misses
                yields = list(bbox.multi_flat(sub, fast=fast, cache=c))
                total = bbox.extents(sub, fast=fast, cache=clone)
                if uc and cache_state(clone) != cache_state(cache):
                    ctx.disagree(S, f"extents vs multi_flat cache state doc {d}", cache_state(clone), cache_state(cache))
            else:
                yields = list(bbox.multi_recursive(sub, fast=fast, cache=c))
                total = BoundingBox()
                for y in yields:
                    total.extend(y)
            post = cache_state(cache) if uc else "|0|0"
            req = f"cache|{fn}|{1 if uc else 0}|{pre}|{es}"
            cases.append((req, "~".join(show_box(y) for y in yields) + "|" + show_box(total) + "|" + post, uc))
            ctx.hist(S, f"{fn}/{'cache' if uc else 'plain'}{'/mixed-fast' if mix else ''}{'/uuid' if uuid_mode else ''}")
    ctx.correspond(S, "C15", cases, build=DRIVER_DEPS)


# ====================================================================== X4-X6 (session 3): paths, cubic boxes, entity trees
GRID = 2 ** 20


def gridv(x) -> int:
    return math.floor(float(x) * GRID + 0.5)


def grid_box(b) -> str:
    if not b.has_data:
        return "E"
    return ",".join(str(gridv(c)) for c in tuple(b.extmin) + tuple(b.extmax))


def fr3(p) -> str:
    return ",".join(str(Fraction(c)) for c in p)


def cmds_str(cmds) -> str:
    out = []
    for c in cmds[1:]:
        out.append({"M": "M", "L": "L", "C4": "C4", "C3": "C3"}[c[0]] + ":" + ":".join(fr3(q) for q in c[1:]))
    return f"{fr3(cmds[0][1])}|" + ";".join(out)


def gen_multipath(rng, pt):
    """commands of a random multi-path: sub-paths (after MOVE_TO) start with a line, a cubic or a quadratic curve"""
    cmds = [("S", pt(0.0))]
    for sub in range(rng.randint(1, 4)):
        off = rng.choice([0.0, 0.0, 30.0, -50.0])
        if sub:
            cmds.append(("M", pt(off)))
        for k in range(rng.randint(1, 3)):
            kind = rng.choice(["C4", "C4", "C3", "L"]) if k == 0 else rng.choice(["L", "L", "C4", "C3"])
            cmds.append({"L": ("L", pt(off)), "C4": ("C4", pt(off), pt(off), pt(off)), "C3": ("C3", pt(off), pt(off))}[kind])
    return cmds


def correspond_paths(ctx):
    """X4: the loop of precise_bbox (pen position, MOVE_TO, what is appended), control_vertices and path.bbox on multi-paths
    with dyadic coordinates; the two curve-box functions are replaced by an exact stub (box of the segment's control
    points, which depends on the pen position) so that the comparison is exact"""
    from ezdxf import path as ezpath
    from ezdxf.path import tools as ptools
    from ezdxf.math import BoundingBox

    S = "X4 precise_bbox loop"
    rng = ctx.rng("x4")
    cases = []
    saved = (ptools.cubic_bezier_bbox, ptools.quadratic_bezier_bbox)
    ptools.cubic_bezier_bbox = lambda curve, **kw: BoundingBox(curve.control_points)
    ptools.quadratic_bezier_bbox = lambda curve, **kw: BoundingBox(curve.control_points)
    try:
        for n in range(ctx.n(1500, 12000)):
            cmds = gen_multipath(rng, lambda o: [o + rng.randint(-40, 40) / 4 for _ in range(3)])
            if rng.random() < 0.05:
                cmds = cmds[:1]  # a path without commands
            p = _multipath(cmds)
            pb = ptools.precise_bbox(p)
            fb = BoundingBox(p.control_vertices())
            impl = ";".join([show_box(pb), show_box(pb), show_box(fb), show_box(ptools.bbox([p], fast=False)), show_box(ptools.bbox([p], fast=True))])
            nsub = len([c for c in cmds if c[0] == "M"])
            cases.append((f"pathstub|{cmds_str(cmds)}", impl, nsub > 0))
            ctx.hist(S, "sub-paths=%d" % (nsub + 1))
    finally:
        ptools.cubic_bezier_bbox, ptools.quadratic_bezier_bbox = saved
    ctx.correspond(S, "C15", cases, build=DRIVER_DEPS)


def _axis_from_derivative(rng):
    """control values p0..p3 (dyadic) of one coordinate whose derivative a t^2 + b t + c has a prescribed root structure;
    returns (values, label)"""
    mode = rng.choice(["two", "two", "two", "double", "complex", "linear", "linear", "const", "flat"])
    m = rng.choice([1, -1, 2, -2, 3])
    if mode in ("two", "double"):
        k1 = rng.randint(-4, 12)
        k2 = k1 if mode == "double" else rng.randint(-4, 12)
        a = Fraction(384 * m)
        b = -a * Fraction(k1 + k2, 8)
        c = a * Fraction(k1 * k2, 64)
    elif mode == "complex":
        a = Fraction(3 * rng.choice([1, 2, 4, -1, -4]))
        b = Fraction(6 * rng.randint(-3, 3))
        cmin = (b * b / (4 * a))
        c = Fraction(3 * (int(abs(cmin)) // 3 + rng.randint(1, 3))) * (1 if a > 0 else -1)
    elif mode == "linear":
        a = Fraction(0)
        b = Fraction(6 * rng.choice([1, -1, 2, 4, -3, 8]))
        c = Fraction(3 * rng.randint(-8, 8)) / rng.choice([1, 2, 4])
    elif mode == "const":
        a, b, c = Fraction(0), Fraction(0), Fraction(3 * rng.randint(-4, 4)) / rng.choice([1, 4, 8])
    else:
        a, b, c = Fraction(0), Fraction(0), Fraction(0)
    p0 = Fraction(rng.randint(-40, 40), 4)
    p1 = p0 + c / 3
    p2 = b / 6 - p0 + 2 * p1
    p3 = a / 3 + p0 - 3 * p1 + 3 * p2
    return [p0, p1, p2, p3], mode


def correspond_cubic(ctx):
    """X5: cubic_bezier_bbox / quadratic_bezier_bbox / precise_bbox with the REAL curve boxes on curves whose derivative
    has rational roots (exact square roots): model (hand model and the kernel generated from the source) vs code, compared
    on the grid 2^-20"""
    from ezdxf.math import Bezier4P, Bezier3P, Vec3, cubic_bezier_bbox, quadratic_bezier_bbox
    from ezdxf import path as ezpath

    S = "X5 cubic_bezier_bbox"
    rng = ctx.rng("x5")
    cases = []
    for n in range(ctx.n(2500, 20000)):
        axes = [_axis_from_derivative(rng) for _ in range(3)]
        P = [[float(axes[i][0][j]) for i in range(3)] for j in range(4)]
        if any(Fraction(P[j][i]) != axes[i][0][j] for i in range(3) for j in range(4)):
            continue
        box = cubic_bezier_bbox(Bezier4P([Vec3(q) for q in P]))
        g = grid_box(box)
        cases.append((f"cubic|{fr3(P[0])}|{fr3(P[1])}|{fr3(P[2])}|{fr3(P[3])}", f"{g};{g};T", True))
        ctx.hist(S, "/".join(sorted(a[1] for a in axes)))
        if n % 3 == 0:
            # a quadratic curve with a rational extremum: B'(t) = 2 ((p1 - p0) + t (p0 - 2 p1 + p2))
            Q = [[rng.randint(-40, 40) / 4 for _ in range(3)] for _ in range(3)]
            qb = quadratic_bezier_bbox(Bezier3P([Vec3(q) for q in Q]))
            g = grid_box(qb)
            cases.append((f"quad|{fr3(Q[0])}|{fr3(Q[1])}|{fr3(Q[2])}", f"{g};{g}", True))
            ctx.hist(S, "quadratic")
        if n % 4 == 0:
            # a multi-path: line, MOVE_TO, then the curve (pen position = MOVE_TO target), real curve boxes
            s0 = [rng.randint(-40, 40) / 4 for _ in range(3)]
            cmds = [("S", s0), ("L", [rng.randint(-40, 40) / 4 for _ in range(3)]), ("M", P[0]), ("C4", P[1], P[2], P[3])]
            pb = ezpath.precise_bbox(_multipath(cmds))
            cases.append((f"pathreal|{cmds_str(cmds)}", grid_box(pb) + ";T", True))
            ctx.hist(S, "multi-path")
    ctx.correspond(S, "C15", cases, build=DRIVER_DEPS)


ROTS = [(1, 0), (1, 0), (0, 1), (-1, 0), (0, -1), (Fraction(4, 5), Fraction(3, 5)), (Fraction(3, 5), Fraction(-4, 5)), (Fraction(-3, 5), Fraction(4, 5))]


def gen_tree_entity(rng, blocks):
    kinds = ["LINE", "LINE", "POINT", "LWPOLYLINE", "POLYLINE3D", "3DFACE", "SOLID"] + (["INSERT"] * 4 if blocks else [])
    k = rng.choice(kinds)
    c = lambda lo=-10, hi=10: rng.randint(lo * 4, hi * 4) / 4
    if k == "LINE":
        return {"t": k, "start": [c(), c(), c()], "end": [c(), c(), c()]}
    if k == "POINT":
        return {"t": k, "location": [c(), c(), c()]}
    if k == "LWPOLYLINE":
        n = rng.randint(2, 5)
        return {"t": k, "points": [[c(), c(), 0] for _ in range(n)], "closed": rng.random() < 0.4, "elevation": c(-3, 3), "extrusion": [0, 0, 1]}
    if k == "POLYLINE3D":
        return {"t": k, "points": [[c(), c(), c()] for _ in range(rng.randint(2, 5))], "closed": rng.random() < 0.3}
    if k == "3DFACE":
        return {"t": k, "points": [[c(), c(), c()] for _ in range(4)]}
    if k == "SOLID":
        return {"t": k, "points": [[c(), c()] for _ in range(4)], "elevation": c(-3, 3), "extrusion": [0, 0, 1]}
    s = lambda: rng.choice([1, 1, 2, 0.5, -1, -2, 1.5, -0.5])
    sx = s()
    cs = rng.choice(ROTS)
    ins = {"t": "INSERT", "name": rng.choice(blocks), "insert": [c(), c(), c(-3, 3)],
            "scale": [sx, sx, sx] if rng.random() < 0.4 else [sx, s(), s()], "cs": [str(Fraction(cs[0])), str(Fraction(cs[1]))],
            "rotation": math.degrees(math.atan2(float(cs[1]), float(cs[0]))), "extrusion": [0, 0, 1],
            "grid": [rng.randint(1, 3), rng.randint(1, 2), c(1, 6), c(1, 6)] if rng.random() < 0.2 else None}
    if ins["grid"] is None and rng.random() < 0.3:  # an OCS whose axes are exact: extrusion parallel to a coordinate axis
        ins["extrusion"] = list(rng.choice([(0, 0, -1), (1, 0, 0), (0, 1, 0), (-1, 0, 0), (0, -1, 0)]))
    return ins


def tree_points(e):
    """the vertices of a straight entity in WCS/block coordinates (extrusion (0,0,1) only)"""
    t = e["t"]
    if t == "LINE":
        return [e["start"], e["end"]]
    if t == "POINT":
        return [e["location"], e["location"]]
    if t == "LWPOLYLINE":
        pts = [[x, y, e["elevation"]] for x, y, _b in e["points"]]
        return pts + ([pts[0]] if e["closed"] else [])
    if t == "POLYLINE3D":
        return e["points"] + ([e["points"][0]] if e["closed"] else [])
    if t == "3DFACE":
        return e["points"]
    if t == "SOLID":
        return [[x, y, e["elevation"]] for x, y in e["points"]]
    raise ValueError(t)


def tree_tokens(e, blocks, key) -> list:
    """forest grammar of the driver: F := N | L key pts F | J key base scale cos,sin insert F(block) F(rest)
    | G key base scale cos,sin insert cols,rows,colspacing,rowspacing F(block) F(rest)   (MINSERT, mcount > 1)"""
    if e["t"] != "INSERT":
        return ["L", key, ";".join(fr3(p) for p in tree_points(e))]
    blk = next(b for b in blocks if b["name"] == e["name"])
    head = [key, fr3(blk["base"]), fr3(e["scale"]), ",".join(e["cs"]), fr3(e["insert"])]
    grid = e.get("grid")
    if grid and grid[0] * grid[1] > 1:
        out = ["G"] + head + [",".join(str(Fraction(v)) for v in grid)]
    elif list(e["extrusion"]) != [0, 0, 1]:
        ax, ay, az = ocs_axes(e["extrusion"])  # arbitrary axis algorithm; exact (0, +-1) for axis-parallel extrusions
        out = ["K", key] + [fr3([float(round(v)) for v in a]) for a in (ax, ay, az)] + head[1:]
    else:
        out = ["J"] + head
    for ce in blk["entities"]:  # the forest of the block, closed by N; the rest of the enclosing forest follows
        out += tree_tokens(ce, blocks, "n")
    return out + ["N"]


def tree_depth(e, blocks) -> int:
    """nesting depth as the model counts it: a MINSERT is a wrapper around its grid copies"""
    if e["t"] != "INSERT":
        return 0
    blk = next(b for b in blocks if b["name"] == e["name"])
    grid = e.get("grid")
    return (1 if grid and grid[0] * grid[1] > 1 else 0) + 1 + max([tree_depth(c, blocks) for c in blk["entities"]], default=0)


def correspond_tree(ctx):
    """X6: recursive_decompose + to_primitives + Primitive.bbox + extents on documents with nested INSERTs (depth <= 3;
    translation, base point, non-uniform and negative scale, rotations by multiples of 90 degrees and by the rational
    angles of the 3-4-5 triangle, so that shears -> the explode fall-back occur; MINSERT grids at top level and inside blocks)
    vs the tree model; the model computes the INSERT matrices (insertAff, gridAff) from base point, scale, cos/sin and
    insert point; boxes compared on the grid 2^-20"""
    from ezdxf import bbox, disassemble

    S = "X6 entity trees"
    rng = ctx.rng("x6")
    cases = []
    for d in range(ctx.n(250, 2500)):
        depth = rng.choice([1, 2, 2, 3, 3])
        blocks = []
        for i in range(rng.randint(1, 4)):
            names = [b["name"] for b in blocks if b["level"] < depth]
            ents = [gen_tree_entity(rng, names) for _ in range(rng.randint(1, 3))]
            level = 1 + max([next(b["level"] for b in blocks if b["name"] == e["name"]) for e in ents if e["t"] == "INSERT"], default=0)
            blocks.append({"name": f"B{i}", "base": [rng.choice([0, 0, rng.randint(-12, 12) / 4]) for _ in range(3)], "entities": ents, "level": level})
        names = [b["name"] for b in blocks]
        recipe = {"blocks": blocks, "msp": [gen_tree_entity(rng, names) for _ in range(rng.randint(1, 4))]}
        if rng.random() < 0.8 and not any(e["t"] == "INSERT" for e in recipe["msp"]):
            e = gen_tree_entity(rng, names)
            while e["t"] != "INSERT":
                e = gen_tree_entity(rng, names)
            recipe["msp"].insert(rng.randint(0, len(recipe["msp"])), e)
        doc, ents = build_doc(recipe)
        fast = rng.random() < 0.5
        impl = []
        for e, ent in zip(recipe["msp"], ents):
            key = str(int(ent.dxf.handle, 16))
            prims = []
            for pr in disassemble.to_primitives(disassemble.recursive_decompose([ent])):
                if pr.is_empty:
                    continue
                h = pr.entity.dxf.handle
                prims.append(("n" if h is None or h == "0" else str(int(h, 16))) + "=" + grid_box(pr.bbox(fast=fast)))
            impl.append(f"{key}:" + "&".join(prims))
        # forest grammar: F := N | L key pts F | I key matrix F(block) F(rest)
        toks = []
        for e, ent in zip(recipe["msp"], ents):
            toks += tree_tokens(e, blocks, str(int(ent.dxf.handle, 16)))
        toks.append("N")
        total = bbox.extents(ents, fast=fast)
        cached = bbox.extents(ents, fast=fast, cache=bbox.Cache())
        dep = max([tree_depth(e, blocks) for e in recipe["msp"]], default=0)
        if any(e["t"] == "INSERT" and e.get("grid") and e["grid"][0] * e["grid"][1] > 1 for b in blocks + [{"entities": recipe["msp"]}] for e in b["entities"]):
            ctx.hist(S, "with MINSERT")
        if any(e["t"] == "INSERT" and list(e["extrusion"]) != [0, 0, 1] for b in blocks + [{"entities": recipe["msp"]}] for e in b["entities"]):
            ctx.hist(S, "with OCS INSERT")
        req = f"tree|{1 if fast else 0}|{d % 2}|" + " ".join(toks)
        cases.append((req, ";".join(impl) + "|" + grid_box(total) + "|" + grid_box(cached) + "|" + str(dep), dep > 0))
        ctx.hist(S, "depth=%d" % dep)
    ctx.correspond(S, "C15", cases, build=DRIVER_DEPS)


def correspond_select(ctx):
    """X7: select.Window / select.Circle is_inside_bbox, is_outside_bbox, is_overlapping_bbox on boxes and shapes with
    coordinates in quarters (squared distances exact; circles inside large boxes, crossing an edge, touching, enclosing)"""
    from ezdxf import select
    from ezdxf.math import BoundingBox2d

    S = "X7 selection shapes"
    rng = ctx.rng("x7")
    cases = []
    q = lambda lo, hi: rng.randint(lo * 4, hi * 4) / 4
    for n in range(ctx.n(4000, 30000)):
        lo = (q(-10, 10), q(-10, 10))
        ext = (rng.choice([0, 0.25, 1, 3, 8, 20, 40]), rng.choice([0, 0.25, 1, 3, 8, 20, 40]))
        hi = (lo[0] + ext[0], lo[1] + ext[1])
        b = BoundingBox2d([lo, hi])
        bs = spec_str((lo, hi))
        if n % 2:
            c = (q(-12, 32), q(-12, 32)) if rng.random() < 0.6 else (rng.choice([lo[0], hi[0], (lo[0] + hi[0]) / 2]) + rng.choice([-3, -1, 0, 1, 4]),
                                                                  rng.choice([lo[1], hi[1], (lo[1] + hi[1]) / 2]) + rng.choice([-4, 0, 3]))
            r = rng.choice([0, 0.25, 0.5, 1, 2, 5, 13, 25, 60])
            s = select.Circle(c, r)
            impl = ";".join([tf(s.is_inside_bbox(b)), tf(s.is_outside_bbox(b)), tf(s.is_overlapping_bbox(b)), tf(s.is_overlapping_bbox(b))])
            cases.append((f"selc|{fr(c[0])},{fr(c[1])}|{fr(r)}|{bs}", impl, True))
            ctx.hist(S, "circle")
        else:
            p1, p2 = (q(-12, 32), q(-12, 32)), (q(-12, 32), q(-12, 32))
            s = select.Window(p1, p2)
            impl = ";".join([tf(s.is_inside_bbox(b)), tf(s.is_outside_bbox(b)), tf(s.is_overlapping_bbox(b))])
            cases.append((f"selw|{fr(p1[0])},{fr(p1[1])}|{fr(p2[0])},{fr(p2[1])}|{bs}", impl, True))
            ctx.hist(S, "window")
    ctx.correspond(S, "C15", cases, build=DRIVER_DEPS)


def special_doc(rng):
    """entities with their own primitive classes: MESH, POLYFACE, POLYMESH, TRACE, SOLID, 3DFACE, IMAGE, WIPEOUT, VIEWPORT, TEXT, MTEXT,
    INSERT with ATTRIB; returns (doc, entities, {handle: WCS points whose box is the box of the entity})"""
    import ezdxf

    doc = ezdxf.new("R2010")
    msp = doc.modelspace()
    c = lambda lo=-10, hi=10: rng.randint(lo * 4, hi * 4) / 4
    ents, expect = [], {}
    for _ in range(rng.randint(3, 7)):
        k = rng.choice(["MESH", "POLYFACE", "POLYMESH", "TRACE", "SOLID", "3DFACE", "IMAGE", "WIPEOUT", "VIEWPORT", "TEXT", "MTEXT", "ATTRIB"])
        if k == "MESH":
            vs = [(c(), c(), c()) for _i in range(rng.randint(3, 6))]
            e = msp.add_mesh()
            with e.edit_data() as md:
                md.vertices = list(vs)
                md.faces = [list(range(len(vs)))]
            expect[e.dxf.handle] = vs
        elif k == "POLYFACE":
            e = msp.add_polyface()
            faces = [[(c(), c(), c()) for _i in range(rng.choice([3, 4]))] for _j in range(rng.randint(1, 3))]
            e.append_faces(faces)
            expect[e.dxf.handle] = [v for f in faces for v in f]
        elif k == "POLYMESH":
            m_, n_ = rng.randint(2, 3), rng.randint(2, 3)
            e = msp.add_polymesh((m_, n_))
            vs = []
            for i in range(m_):
                for j in range(n_):
                    v = (c(), c(), c())
                    e.set_mesh_vertex((i, j), v)
                    vs.append(v)
            expect[e.dxf.handle] = vs
        elif k in ("TRACE", "SOLID"):
            z = c(-3, 3)
            vs = [(c(), c(), z) for _i in range(4)]
            e = (msp.add_trace if k == "TRACE" else msp.add_solid)(vs)
            expect[e.dxf.handle] = vs
        elif k == "3DFACE":
            vs = [(c(), c(), c()) for _i in range(4)]
            e = msp.add_3dface(vs)
            expect[e.dxf.handle] = vs
        elif k == "IMAGE":
            w, h = rng.choice([(640, 480), (100, 100), (16, 9)])
            idef = doc.add_image_def(filename="x.png", size_in_pixel=(w, h))
            ins, size, rot = (c(), c(), c(-3, 3)), (rng.randint(1, 20) / 2, rng.randint(1, 20) / 2), rng.choice([0, 0, 90, 30, -45])
            e = msp.add_image(idef, insert=ins, size_in_units=size, rotation=rot)
            ca, sa = math.cos(math.radians(rot)), math.sin(math.radians(rot))
            expect[e.dxf.handle] = [(ins[0] + x * ca - y * sa, ins[1] + x * sa + y * ca, ins[2]) for x, y in ((0, 0), (size[0], 0), (size[0], size[1]), (0, size[1]))]
        elif k == "WIPEOUT":
            vs = [(c(), c()) for _i in range(rng.randint(3, 5))]
            e = msp.add_wipeout(vs)
            if len(vs) > 2:
                expect[e.dxf.handle] = [(x, y, 0.0) for x, y in vs]
        elif k == "VIEWPORT":
            psp = doc.paperspace()
            cx, cy, w, h = c(), c(), rng.randint(1, 20) / 2, rng.randint(1, 20) / 2
            e = psp.add_viewport(center=(cx, cy), size=(w, h), view_center_point=(0, 0), view_height=10)
            if rng.random() < 0.3:
                e.dxf.status = 0  # off: empty primitive
            else:
                expect[e.dxf.handle] = [(cx - w / 2, cy - h / 2, 0.0), (cx + w / 2, cy + h / 2, 0.0)]
        elif k == "TEXT":
            e = msp.add_text("abc", dxfattribs={"height": rng.choice([0.5, 1, 2.5]), "rotation": rng.choice([0, 30, 90]), "insert": (c(), c())})
        elif k == "MTEXT":
            e = msp.add_mtext("line 1\\Pline 2", dxfattribs={"char_height": rng.choice([0.5, 1]), "insert": (c(), c()), "rotation": rng.choice([0, 45])})
        else:
            blk = doc.blocks.get("SB") or doc.blocks.new("SB")
            if len(blk) == 0:
                blk.add_line((0, 0), (1, 1))
            e = msp.add_blockref("SB", (c(), c()))
            e.add_attrib("TAG", "value", (c(), c()))
        ents.append(e)
    return doc, ents, expect


def correspond_primitives(ctx):
    """X8: Primitive.bbox(fast=True) of EVERY primitive of generated documents (all entity kinds of the oracle generator, tilted
    extrusions, nested INSERTs whose virtual entities get tilted OCS) is the box of the control vertices of its path resp. of
    its mesh vertices: the model's `Path.box ... true`; the vertices are passed as exact fractions of the floats; exact"""
    from ezdxf import disassemble

    S = "X8 primitive fast box"
    rng = ctx.rng("x8")
    cases = []
    for d in range(ctx.n(90, 900)):
        recipe = gen_recipe(rng, rng.randint(2, 5), rng.randint(0, 3), 2)
        try:
            if d % 3 == 2:
                doc, ents, expect = special_doc(rng)
                recipe = {"special": True}
            else:
                doc, ents = build_doc(recipe)
                expect = {}
        except Exception as ex:  # noqa
            if d % 3 == 2:
                ctx.fail(f"prim/special-doc/{type(ex).__name__}/{d}", f"building the special document raised {ex!r}", {"op": "none"})
            continue
        for e in ents:  # the special entities with a known vertex set: the box of the entity is the box of these WCS points
            if e.dxf.handle in expect:
                from ezdxf import bbox as _bbox
                import numpy as _np
                pts_ = _np.array(expect[e.dxf.handle], dtype=float)
                for fast_ in (False, True):
                    b = _bbox.extents([e], fast=fast_)
                    ok = b.has_data and float(_np.abs(_np.array(b.extmin) - pts_.min(0)).max()) < 1e-9 and \
                        float(_np.abs(_np.array(b.extmax) - pts_.max(0)).max()) < 1e-9
                    ctx.count("O8 special entities", (d, e.dxf.handle, fast_), True)
                    ctx.hist("O8 special entities", e.dxftype())
                    if not ok:
                        ctx.fail(f"prim/vertex-set/{e.dxftype()}/{d}", f"{e.dxftype()} #{e.dxf.handle} fast={fast_}: extents {b} is not the box of "
                                 f"its vertices {pts_.min(0).tolist()} {pts_.max(0).tolist()}", {"op": "none"})
        for pr in disassemble.to_primitives(disassemble.recursive_decompose(ents)):
            if pr.is_empty:
                continue
            cname = type(pr).__name__
            if cname == "LinePrimitive":
                kind, pts = "line", [pr.entity.dxf.start, pr.entity.dxf.end]
            elif cname == "PointPrimitive":
                kind, pts = "point", [pr.entity.dxf.location]
            elif pr.path is not None:
                kind, pts = "path", list(pr.path.control_vertices())
            elif pr.mesh is not None:
                kind, pts = "mesh", list(pr.vertices())
            else:
                kind, pts = "mesh", list(pr.vertices())
            if not pts or len(pts) > 400:
                continue
            ctx.hist(S, "kind=" + kind)
            req = f"primfast|{kind}|" + ";".join(",".join(str(Fraction(c)) for c in (v.x, v.y, v.z)) for v in pts)
            cases.append((req, show_box(pr.bbox(fast=True)) + ";" + show_box(pr.bbox(fast=True)), True))
            # precise mode of the same primitive: exactly precise_bbox(path) resp. the box of the mesh vertices (no shortcut)
            from ezdxf.path import precise_bbox
            from ezdxf.math import BoundingBox
            want = precise_bbox(pr.path) if (pr.path is not None and kind == "path") else BoundingBox(pts)
            if not same_box(pr.bbox(fast=False), want):
                ctx.fail(f"prim/precise-box/{pr.entity.dxftype()}/{d}", f"doc {d}: Primitive.bbox(fast=False) of {pr.entity.dxftype()} = {pr.bbox(fast=False)} "
                         f"but precise_bbox(path) = {want}", {"op": "doc", "recipe": recipe, "index": None})
            ctx.hist(S, pr.entity.dxftype() + ("/virtual" if pr.entity.dxf.handle is None else ""))
    ctx.correspond(S, "C15", cases, build=DRIVER_DEPS)


def correspond_add_bezier(ctx):
    """X9: path.tools.add_bezier4p / add_bezier3p on chains of curves with dyadic control points, inner control points collapsed
    into the start point, the end point, both or none, gaps between consecutive curves: the commands of the resulting path vs
    the model (addBezier4 / addBezier3Step), exact; oracle: path.bbox (fast and precise) contains dense samples of every curve"""
    import numpy as np
    from ezdxf import path as ezpath
    from ezdxf.path import tools as ptools
    from ezdxf.math import Bezier4P, Bezier3P, Vec3

    S = "X9 add_bezier"
    rng = ctx.rng("x9")
    cases = []
    ts = np.linspace(0, 1, 201)[:, None]
    q = lambda: [rng.randint(-40, 40) / 4 for _ in range(3)]
    for n in range(ctx.n(1500, 12000)):
        cubic = n % 3 != 0
        pen = q()
        chain, cur = [], (pen if rng.random() < 0.7 else q())
        for _ in range(rng.randint(1, 3)):
            s = cur
            e = q()
            while e == s:
                e = q()
            mode = rng.choice(["none", "none", "start", "end", "both"])
            if cubic:
                c1 = list(s) if mode in ("start", "both") else q()
                c2 = list(e) if mode in ("end", "both") else q()
                chain.append((s, c1, c2, e))
            else:
                c = list(s) if mode == "start" else list(e) if mode == "end" else q()
                chain.append((s, c, e))
            cur = e if rng.random() < 0.8 else q()
        if chain[-1][-1] == pen:  # would trigger the reversal of the chain (not modelled)
            continue
        p = ezpath.Path(Vec3(pen))
        if cubic:
            ptools.add_bezier4p(p, [Bezier4P([Vec3(v) for v in cv]) for cv in chain])
        else:
            ptools.add_bezier3p(p, [Bezier3P([Vec3(v) for v in cv]) for cv in chain])
        impl = []
        for cmd in p.commands():
            name = cmd.type.name
            if name == "LINE_TO":
                impl.append("L:" + fr3(cmd.end))
            elif name == "CURVE4_TO":
                impl.append("C4:" + fr3(cmd.ctrl1) + ":" + fr3(cmd.ctrl2) + ":" + fr3(cmd.end))
            elif name == "CURVE3_TO":
                impl.append("C3:" + fr3(cmd.ctrl) + ":" + fr3(cmd.end))
            else:
                impl.append("M:" + fr3(cmd.end))
        req = ("addbez4|" if cubic else "addbez3|") + fr3(pen) + "|" + ";".join(":".join(fr3(v) for v in cv) for cv in chain)
        cases.append((req, ";".join(impl), True))
        ctx.hist(S, "cubic" if cubic else "quadratic")
        for fast in (False, True):
            b = ezpath.bbox([p], fast=fast)
            for cv in chain:
                A = [np.array(v, dtype=float) for v in cv]
                if cubic:
                    pts = (1 - ts) ** 3 * A[0] + 3 * (1 - ts) ** 2 * ts * A[1] + 3 * (1 - ts) * ts ** 2 * A[2] + ts ** 3 * A[3]
                else:
                    pts = (1 - ts) ** 2 * A[0] + 2 * (1 - ts) * ts * A[1] + ts ** 2 * A[2]
                out = max(float((np.array(b.extmin) - pts.min(0)).max()), float((pts.max(0) - np.array(b.extmax)).max())) if b.has_data else 1e9
                if out > 1e-6:
                    ctx.fail(f"addbezier/{'cubic' if cubic else 'quadratic'}/{n}", f"add_bezier{'4p' if cubic else '3p'} of {chain} onto a path at {pen}: "
                             f"path.bbox(fast={fast}) {b} misses the curve {cv} by {out:.3g}", {"op": "none"})
                    break
    ctx.correspond(S, "C15", cases, build=DRIVER_DEPS)


def correspond(ctx):
    correspond_algebra(ctx)
    correspond_bezier(ctx)
    correspond_cache(ctx)
    correspond_paths(ctx)
    correspond_cubic(ctx)
    correspond_tree(ctx)
    correspond_select(ctx)
    correspond_primitives(ctx)
    correspond_add_bezier(ctx)


# ====================================================================== oracle on the real code
TOL_CONTAIN = 1e-7  # true curve points vs box (the Bezier approximation of arcs never lies inside the arc)
TOL_TIGHT_REL = 2e-3  # box vs hull of the sampled geometry, relative to the size of that hull
TOL_DOC = 0.01  # documented flattening distance (Primitive.max_flattening_distance, docs of ezdxf.bbox)


def _nonuniform(s):
    a = [abs(x) for x in s]
    return max(a) - min(a) > 1e-12


def classify(e, blocks, anc_nonuniform=False, anc_scaled=False) -> set:
    """known-defect classes present in the tree of a recipe entity"""
    out = set()
    if e["t"] == "SPLINE" and (e["degree"] != 3 or e["weights"]):
        out.add("spline-approx")
    if e["t"] == "INSERT":
        tilted = abs(e["extrusion"][0]) > 1e-12 or abs(e["extrusion"][1]) > 1e-12
        if anc_nonuniform and (e["rotation"] % 180 != 0 or tilted):
            out.add("nested-insert-shear")
        if anc_scaled and e.get("grid") and e["grid"][0] * e["grid"][1] > 1:
            out.add("nested-minsert-scaled")
        blk = next(b for b in blocks if b["name"] == e["name"])
        nu = anc_nonuniform or _nonuniform(e["scale"])
        sc = anc_scaled or any(x != 1 for x in e["scale"])
        for ce in blk["entities"]:
            out |= classify(ce, blocks, nu, sc)
    return out


def _straight(e, blocks) -> bool:
    if e["t"] in ("LINE", "POINT", "SOLID", "3DFACE", "POLYLINE3D"):
        return True
    if e["t"] in ("LWPOLYLINE", "POLYLINE2D"):
        pts = e["points"]
        used = pts if e["closed"] else pts[:-1]
        return all(p[2] == 0 for p in used)
    if e["t"] == "INSERT":
        blk = next(b for b in blocks if b["name"] == e["name"])
        return all(_straight(c, blocks) for c in blk["entities"])
    return False


def check_entity(e, blocks, ent, density):
    """returns list of (what, detail) violations of containment/tightness/fast>=precise for one top-level entity"""
    import numpy as np
    from ezdxf import bbox

    bad = []
    precise = bbox.extents([ent], fast=False)
    fast = bbox.extents([ent], fast=True)
    pts = sample_entity(e, blocks, density, entity=ent)
    if len(pts) == 0:
        return bad, 0.0, 0.0
    lo, hi = pts.min(0), pts.max(0)
    diag = float(np.linalg.norm(hi - lo))
    if not precise.has_data or not fast.has_data:
        return [("nodata", f"no bounding box for {e['t']} with {len(pts)} sampled points")], 0.0, 0.0
    pmin, pmax = np.array(precise.extmin), np.array(precise.extmax)
    fmin, fmax = np.array(fast.extmin), np.array(fast.extmax)
    scale = max(1.0, float(np.abs(pts).max()))
    out = max(float((pmin - lo).max()), float((hi - pmax).max()))  # > 0: geometry outside the precise box
    slack = max(float((lo - pmin).max()), float((pmax - hi).max()))  # > 0: precise box larger than the geometry
    tol_c = TOL_CONTAIN * scale
    tol_t = (1e-9 * scale) if _straight(e, blocks) else (TOL_TIGHT_REL * diag + 1e-9 * scale)
    if "spline-approx" in classify(e, blocks):
        # degree != 3 or rational: cubic_bezier_approximation(level=4) has no stated error bound; the only documented
        # number is the flattening distance
        tol_c, tol_t = max(tol_c, TOL_DOC), max(tol_t, TOL_DOC)
    if out > tol_c:
        bad.append(("contain", f"geometry leaves the precise box by {out:.3g} (size {diag:.3g})"))
    if slack > tol_t:
        bad.append(("tight", f"precise box exceeds the geometry by {slack:.3g} (size {diag:.3g}, tolerance {tol_t:.3g})"))
    fout = max(float((fmin - lo).max()), float((hi - fmax).max()))
    if fout > tol_c:
        bad.append(("contain-fast", f"geometry leaves the fast box by {fout:.3g}"))
    shrink = max(float((fmin - pmin).max()), float((pmax - fmax).max()))
    if shrink > 1e-9 * scale:
        bad.append(("fast-smaller", f"fast box is smaller than the precise box by {shrink:.3g}"))
    return bad, out / max(diag, 1e-3 * scale), slack / max(diag, 1e-3 * scale)


def same_box(a, b) -> bool:
    if a.has_data != b.has_data:
        return False
    return (not a.has_data) or (tuple(a.extmin) == tuple(b.extmin) and tuple(a.extmax) == tuple(b.extmax))


def check_consistency(ents, fast, rng):
    """exact self-consistency of the three entry points and of every cache mode; returns list of (what, detail)"""
    from ezdxf import bbox
    from ezdxf.math import BoundingBox

    bad = []
    ref = bbox.extents(ents, fast=fast)
    flat = list(bbox.multi_flat(ents, fast=fast))
    rec = list(bbox.multi_recursive(ents, fast=fast))
    u = BoundingBox()
    for b in flat:
        u.extend(b)
    if not same_box(u, ref):
        bad.append(("flat-vs-extents", f"{u} != {ref}"))
    u = BoundingBox()
    for b in rec:
        u.extend(b)
    if not same_box(u, ref):
        bad.append(("recursive-vs-extents", f"{u} != {ref}"))
    singles = [bbox.extents([e], fast=fast) for e in ents]
    singles = [b for b in singles if b.has_data]
    if len(singles) != len(flat) or not all(same_box(a, b) for a, b in zip(singles, flat)):
        bad.append(("flat-vs-single", "multi_flat differs from per-entity extents"))
    for b in flat + rec:
        if not ref.contains(b):
            bad.append(("part-outside", f"{b} not inside {ref}"))
            break
    for uuid in (False, True):
        cache = bbox.Cache(uuid=uuid)
        sub = rng.sample(ents, max(1, len(ents) // 2))
        steps = [("sub-cold", sub), ("all", ents), ("all-warm", ents), ("sub-warm", sub)]
        if rng.random() < 0.5:
            steps = steps[1:]
        for name, es in steps:
            want = bbox.extents(es, fast=fast)
            got = bbox.extents(es, fast=fast, cache=cache)
            if not same_box(want, got):
                bad.append((f"cache-extents/{'uuid' if uuid else 'handle'}/{name}", f"{got} != {want}"))
            wf = list(bbox.multi_flat(es, fast=fast))
            gf = list(bbox.multi_flat(es, fast=fast, cache=cache))
            if len(wf) != len(gf) or not all(same_box(a, b) for a, b in zip(wf, gf)):
                bad.append((f"cache-flat/{'uuid' if uuid else 'handle'}/{name}", "multi_flat with cache differs"))
            wr = list(bbox.multi_recursive(es, fast=fast))
            gr = list(bbox.multi_recursive(es, fast=fast, cache=cache))
            if len(wr) != len(gr) or not all(same_box(a, b) for a, b in zip(wr, gr)):
                bad.append((f"cache-recursive/{'uuid' if uuid else 'handle'}/{name}", "multi_recursive with cache differs"))
    return bad


def check_invalidate_history(doc, ents, fast, rng):
    """compute / modify / invalidate / compute on the real code: after invalidating at least every modified entity (together with
    uncached ones - HATCH, a new entity -, in random order) the cached results equal the results without cache"""
    from ezdxf import bbox

    uniq = list({id(e): e for e in ents}.values())
    cache = bbox.Cache()
    bbox.extents(uniq, fast=fast, cache=cache)
    list(bbox.multi_recursive(uniq, fast=fast, cache=cache))
    moved = [e for e in uniq if rng.random() < 0.6] or uniq[:1]
    for e in moved:
        try:
            e.translate(rng.randint(-40, 40) / 4, rng.randint(-40, 40) / 4, 0)
        except Exception:  # noqa
            return []
    new = doc.modelspace().add_point((rc(rng), rc(rng)))
    todo = moved + [e for e in uniq if e not in moved and rng.random() < 0.3] + [new]
    rng.shuffle(todo)
    if rng.random() < 0.5:  # uncached entities first
        todo.sort(key=lambda e: 0 if (e is new or e.dxftype() == "HATCH") else 1)
    cache.invalidate(iter(todo))
    allents = uniq + [new]
    bad = []
    want = bbox.extents(allents, fast=fast)
    got = bbox.extents(allents, fast=fast, cache=cache)
    if not same_box(want, got):
        order = [e.dxftype() for e in todo]
        bad.append(("extents", f"after modify + invalidate({order}): extents with cache {got} != {want}"))
    wf = list(bbox.multi_flat(allents, fast=fast))
    gf = list(bbox.multi_flat(allents, fast=fast, cache=cache))
    if len(wf) != len(gf) or not all(same_box(a, b) for a, b in zip(wf, gf)):
        bad.append(("flat", "after modify + invalidate: multi_flat with cache differs"))
    return bad


def check_fast_mix(ents):
    """one cache used with both values of `fast`, in both orders (the flag is part of the key since fix C15-4)"""
    from ezdxf import bbox

    for first in (True, False):
        cache = bbox.Cache()
        bbox.extents(ents, fast=first, cache=cache)
        got = bbox.extents(ents, fast=not first, cache=cache)
        want = bbox.extents(ents, fast=not first)
        if not same_box(got, want):
            return False, f"extents(fast={not first}) after a run with fast={first} and the same cache: {got} != {want}"
        again = bbox.extents(ents, fast=first, cache=cache)
        if not same_box(again, bbox.extents(ents, fast=first)):
            return False, f"extents(fast={first}) from a cache that has seen both flags differs: {again}"
    return True, ""


def oracle_docs(ctx):
    rng = ctx.rng("docs")
    S = "O1 extents vs sampled geometry"
    density = ctx.n(48, 96)
    worst = {}
    for d in range(ctx.n(400, 6000)):
        depth = rng.choice([1, 2, 2, 3])
        recipe = gen_recipe(rng, rng.randint(2, 6), rng.randint(0, 4), depth)
        if rng.random() < 0.3:  # a HATCH with several boundary paths: several primitives share one handle (never cached)
            recipe["hatch"] = [[[rc(rng), rc(rng), rng.choice([0, 0.5])] for _ in range(rng.randint(3, 5))] for _ in range(rng.randint(1, 3))]
        try:
            doc, ents = build_doc(recipe)
        except Exception as ex:  # noqa
            ctx.fail(f"build/{type(ex).__name__}/{d}", f"building the document raised {ex!r}", {"op": "doc", "recipe": recipe, "index": None})
            continue
        for i, (e, ent) in enumerate(zip(recipe["msp"], ents)):
            cls = classify(e, recipe["blocks"])
            ctx.count(S, ("e", d, i), True)
            ctx.hist(S, e["t"] + ("" if not cls else "[" + ",".join(sorted(cls)) + "]"))
            try:
                bad, rout, rslack = check_entity(e, recipe["blocks"], ent, density)
            except Exception as ex:  # noqa
                ctx.fail(f"geom/raise/{type(ex).__name__}/{e['t']}/{d}.{i}", f"extents of {e['t']} raised {ex!r}",
                         {"op": "entity", "recipe": recipe, "index": i})
                continue
            if not bad and not cls:
                w = worst.setdefault(e["t"], [0.0, 0.0])
                w[0], w[1] = max(w[0], rout), max(w[1], rslack)
            for what, detail in bad:
                k = "other"
                if what in ("contain", "tight", "contain-fast", "nodata"):
                    if "spline-approx" in cls:  # the only remaining known class; the INSERT classes are labels since the fixes
                        k = "spline-approx"
                    if k == "spline-approx" and max(rout, rslack) > 0.1:  # beyond 10 % of the size it is something else
                        k = "other"
                ctx.fail(f"geom/{k}/{what}/{e['t']}/{d}.{i}", f"{e['t']} (doc {d}, entity {i}, classes {sorted(cls)}): {detail}",
                         {"op": "entity", "recipe": recipe, "index": i})
        fast = rng.random() < 0.5
        ctx.count("O2 consistency and cache", ("d", d), True)
        try:
            if recipe.get("hatch"):
                h = doc.modelspace().add_hatch()
                for path_pts in recipe["hatch"]:
                    h.paths.add_polyline_path(path_pts, is_closed=True)
                ents = ents + [h]
            for what, detail in check_consistency(ents, fast, rng):
                ctx.fail(f"consistency/{what}/{d}", f"doc {d} fast={fast}: {detail}", {"op": "consistency", "recipe": recipe, "fast": fast})
            ok, detail = check_fast_mix(ents) if d % 4 == 0 else (True, "")
            if not ok:
                ctx.fail(f"cache/fast-mix/{d}", f"doc {d}: {detail}", {"op": "fastmix", "recipe": recipe})
            if d % 3 == 0:  # last: it moves the entities
                hseed = rng.randrange(1 << 30)
                import random as _random
                for what, detail in check_invalidate_history(doc, ents, fast, _random.Random(hseed)):
                    ctx.fail(f"cache/invalidate/{what}/{d}", f"doc {d} fast={fast}: {detail}",
                             {"op": "invalidate", "recipe": recipe, "fast": fast, "hseed": hseed})
        except Exception as ex:  # noqa
            ctx.fail(f"consistency/raise/{type(ex).__name__}/{d}", f"doc {d}: {ex!r}", {"op": "consistency", "recipe": recipe, "fast": fast})
    ctx.note("largest relative deviation per entity kind outside the known classes (geometry outside box / box slack, "
             "relative to the entity size): " + "; ".join(f"{k} {v[0]:.1e}/{v[1]:.1e}" for k, v in sorted(worst.items())))


def _cancel_class(A) -> str:
    """'cancellation' if on some axis the leading coefficient a of B'(t) = a t^2 + b t + c passes the absolute test
    abs(a) >= 1e-12 of cubic_bezier_bbox but is negligible against b (the textbook quadratic formula then loses a root)"""
    a = 3.0 * (-A[0] + 3.0 * A[1] - 3.0 * A[2] + A[3])
    b = 6.0 * (A[0] - 2.0 * A[1] + A[2])
    for x, y in zip(a, b):
        if abs(x) < 1e-6 * abs(y) and abs(x) > 1e-14:
            return "cancellation"
    return "other"


def oracle_bezier(ctx):
    """cubic_bezier_bbox / quadratic_bezier_bbox / path.bbox / precise_bbox vs dense Bernstein sampling"""
    import numpy as np
    from ezdxf.math import Bezier4P, Bezier3P, Vec3, cubic_bezier_bbox, quadratic_bezier_bbox, BoundingBox
    from ezdxf import path as ezpath

    rng = ctx.rng("bez-oracle")
    S = "O3 bezier bbox"
    ts = np.linspace(0, 1, 2001)[:, None]
    for n in range(ctx.n(3000, 60000)):
        mode = rng.choice(["int", "int", "float", "flat", "tiny-a", "collinear", "big", "elevated"])
        if mode == "int":
            P = [[rng.randint(-8, 8) for _ in range(3)] for _ in range(4)]
        elif mode == "float":
            P = [[rng.uniform(-10, 10) for _ in range(3)] for _ in range(4)]
        elif mode == "big":
            off = rng.choice([1e3, 1e6])
            P = [[off + rng.uniform(-10, 10) for _ in range(3)] for _ in range(4)]
        elif mode == "flat":
            P = [[rng.randint(-8, 8), rng.randint(-8, 8), 0] for _ in range(4)]
        elif mode == "elevated":  # a quadratic curve written as a cubic one, ordinary drawing coordinates
            m = rng.choice([10, 100, 1000])
            q0, q1, q2 = ([float(rng.randint(-m, m)) for _ in range(3)] for _ in range(3))
            P = [q0, [a + 2 / 3 * (b - a) for a, b in zip(q0, q1)], [c + 2 / 3 * (b - c) for c, b in zip(q2, q1)], q2]
        elif mode == "tiny-a":  # leading coefficient of the derivative (almost) vanishes: -p0 + 3p1 - 3p2 + p3 ~ 0
            p0, p1, p2 = ([rng.uniform(-5, 5) for _ in range(3)] for _ in range(3))
            eps = rng.choice([0, 1e-13, 1e-12, 1e-11, 1e-9])
            P = [p0, p1, p2, [a - 3 * b + 3 * c + eps for a, b, c in zip(p0, p1, p2)]]
        else:
            a, b = [rng.randint(-8, 8) for _ in range(3)], [rng.randint(-8, 8) for _ in range(3)]
            P = [[x + (y - x) * s for x, y in zip(a, b)] for s in (0, rng.uniform(-1, 2), rng.uniform(-1, 2), 1)]
        A = np.array(P, dtype=float)
        curve = (1 - ts) ** 3 * A[0] + 3 * (1 - ts) ** 2 * ts * A[1] + 3 * (1 - ts) * ts ** 2 * A[2] + ts ** 3 * A[3]
        lo, hi = curve.min(0), curve.max(0)
        span = max(1e-9, float((A.max(0) - A.min(0)).max()))
        mag = max(1.0, float(np.abs(A).max()))
        tol = 1e-5 * span + 1e-9 * mag
        ctx.count(S, ("b", n), True)
        ctx.hist(S, mode)
        box = cubic_bezier_bbox(Bezier4P([Vec3(p) for p in P]))
        p = ezpath.Path(Vec3(P[0]))
        p.curve4_to(Vec3(P[3]), Vec3(P[1]), Vec3(P[2]))
        pb = ezpath.precise_bbox(p)
        fb = ezpath.bbox([p], fast=True)
        cb = BoundingBox([Vec3(q) for q in P])
        for name, b in (("cubic_bezier_bbox", box), ("precise_bbox", pb), ("path.bbox(fast=False)", ezpath.bbox([p], fast=False))):
            bmin, bmax = np.array(b.extmin), np.array(b.extmax)
            out = max(float((bmin - lo).max()), float((hi - bmax).max()))
            slack = max(float((lo - bmin).max()), float((bmax - hi).max()))
            if out > tol or slack > tol:
                ctx.fail(f"bezier/{_cancel_class(A)}/{name}/{mode}/{n}", f"{name} of {P}: curve outside by {out:.3g}, slack {slack:.3g} (tol {tol:.3g})",
                         {"op": "bezier", "points": P})
        # fast == control box (exact); precise inside fast up to the rounding of the evaluated extremum points
        grow = 1e-9 * mag
        inside_fast = all(f - grow <= q for f, q in zip(fb.extmin, pb.extmin)) and all(q <= f + grow for f, q in zip(fb.extmax, pb.extmax))
        if not same_box(fb, cb) or not inside_fast:
            ctx.fail(f"bezier/other/fast/{mode}/{n}", f"fast box {fb} vs control box {cb} vs precise {pb}", {"op": "bezier", "points": P})
        # quadratic
        Q3 = A[:3]
        qc = (1 - ts) ** 2 * Q3[0] + 2 * (1 - ts) * ts * Q3[1] + ts ** 2 * Q3[2]
        qb = quadratic_bezier_bbox(Bezier3P([Vec3(p) for p in P[:3]]))
        bmin, bmax = np.array(qb.extmin), np.array(qb.extmax)
        out = max(float((bmin - qc.min(0)).max()), float((qc.max(0) - bmax).max()))
        slack = max(float((qc.min(0) - bmin).max()), float((bmax - qc.max(0)).max()))
        if out > tol or slack > tol:
            E = np.array([Q3[0], Q3[0] + 2 / 3 * (Q3[1] - Q3[0]), Q3[2] + 2 / 3 * (Q3[1] - Q3[2]), Q3[2]])  # degree elevation
            ctx.fail(f"bezier/{_cancel_class(E)}/quadratic_bezier_bbox/{mode}/{n}", f"quadratic {P[:3]}: outside {out:.3g}, slack {slack:.3g}",
                     {"op": "bezier3", "points": P[:3]})


def oracle_algebra(ctx):
    """the set-theoretic reading of the box operations, evaluated on the real classes with per-axis interval logic
    written independently of the model (well-formed boxes only: that is what the classes produce)"""
    S = "O4 box identities"
    rng = ctx.rng("o4")

    def wf(s):
        return s is None or all(a <= b for a, b in zip(*s))

    for dim, mk, grid, refs in ((3, mk3, boxes3(ctx), REFS3), (2, mk2, boxes2(ctx), REFS2)):
        grid = [g for g in grid if wf(g)]
        refs = [r for r in refs if wf(r)]
        pairs = [(r, o) for r in refs for o in grid] + [(o, r) for r in refs for o in grid]
        pairs += [tuple(rng.sample(grid, 2)) for _ in range(ctx.n(2000, 20000))]
        for sa, sb in pairs:
            a, b = mk(sa), mk(sb)
            ctx.count(S, (dim, sa, sb), sa is not None or sb is not None)
            bad = []
            u = a.union(b)
            corners = [c for s in (sa, sb) if s is not None for c in s]
            if corners:
                lo = tuple(min(c[i] for c in corners) for i in range(dim))
                hi = tuple(max(c[i] for c in corners) for i in range(dim))
                if not u.has_data or tuple(u.extmin) != lo or tuple(u.extmax) != hi:
                    bad.append(f"union {u} is not the hull {lo} {hi}")
                if not all(u.inside(c) for c in corners):
                    bad.append("a corner of an operand is outside the union")
            elif u.has_data:
                bad.append("union of two empty boxes has data")
            if not same_box(u, b.union(a)):
                bad.append("union is not commutative")
            if sa is not None and sb is not None:
                ilo = tuple(max(x, y) for x, y in zip(sa[0], sb[0]))
                ihi = tuple(min(x, y) for x, y in zip(sa[1], sb[1]))
                common = all(l <= h for l, h in zip(ilo, ihi))
                pos = all(l < h for l, h in zip(*sa)) and all(l < h for l, h in zip(*sb))
                point = all(l == h for l, h in zip(*sa)) or all(l == h for l, h in zip(*sb))
                if a.has_overlap(b) != common:
                    bad.append(f"has_overlap={a.has_overlap(b)} but common point exists={common}")
                if pos and a.has_intersection(b) != all(l < h for l, h in zip(ilo, ihi)):
                    bad.append(f"has_intersection={a.has_intersection(b)} disagrees with 'open interiors meet'")
                if a.has_intersection(b) and not a.has_overlap(b):
                    bad.append("has_intersection without has_overlap")
                i = a.intersection(b)
                if a.has_intersection(b):
                    if not i.has_data or tuple(i.extmin) != ilo or tuple(i.extmax) != ihi:
                        bad.append(f"intersection {i} is not [{ilo}, {ihi}]")
                elif i.has_data:
                    bad.append("intersection has data without has_intersection")
                if i.has_data and not (a.contains(i) and b.contains(i)):
                    bad.append("intersection not contained in both operands")
                sub = all(x <= y for x, y in zip(sa[0], sb[0])) and all(y <= x for x, y in zip(sa[1], sb[1]))
                if a.contains(b) != sub:
                    bad.append(f"contains={a.contains(b)} but subset={sub}")
                if not (a.inside(sa[0]) and a.inside(sa[1])):
                    bad.append("a corner of a box is not inside it (border points are inside)")
                if a.has_intersection(b) != b.has_intersection(a) or a.has_overlap(b) != b.has_overlap(a):
                    bad.append("overlap tests are not symmetric")
            else:
                if a.has_overlap(b) or a.has_intersection(b) or a.intersection(b).has_data or a.contains(b) and sb is None:
                    bad.append("an empty operand overlaps/intersects/is contained")
            for msg in bad:
                ctx.fail(f"algebra/{dim}d/{msg.split()[0]}/{spec_str(sa)}/{spec_str(sb)}", f"{dim}d a={sa} b={sb}: {msg}",
                         {"op": "algebra", "dim": dim, "a": sa, "b": sb})
        # mixed operands: a 2D argument of a 3D method is the box at z = 0, a 3D argument of a 2D method its xy projection
        if dim == 3:
            grid2 = [g for g in boxes2(ctx) if wf(g) and g is not None]
            for sa in [r for r in refs if r is not None] + rng.sample([g for g in grid if g is not None], ctx.n(30, 200)):
                for sb in rng.sample(grid2, ctx.n(25, 60)):
                    a, b = mk3(sa), mk2(sb)
                    ctx.count(S, ("mixed", sa, sb), True)
                    bad = []
                    lo3, hi3 = tuple(sb[0]) + (0.0,), tuple(sb[1]) + (0.0,)
                    common = all(max(x, y) <= min(u, v) for x, y, u, v in zip(sa[0], lo3, sa[1], hi3))
                    # the strict separating-axis rule (a zero-size operand intersects iff it is strictly inside: has_intersection_point)
                    strict = all(x < v and y < u for x, y, u, v in zip(sa[0], lo3, sa[1], hi3))
                    if a.has_overlap(b) != common:
                        bad.append(f"has_overlap={a.has_overlap(b)} but the 2D box at z=0 shares a point with the 3D box: {common}")
                    if a.has_intersection(b) != strict:
                        bad.append(f"has_intersection={a.has_intersection(b)} expected {strict}")
                    i = a.intersection(b)
                    if i.has_data and not (a.inside(i.extmin) and a.inside(i.extmax) and i.extmin.z == 0 == i.extmax.z
                                           and b.inside(i.extmin) and b.inside(i.extmax)):
                        bad.append(f"intersection {i} is not inside both operands (2D operand at z=0)")
                    proj = all(max(x, y) <= min(u, v) for x, y, u, v in zip(sa[0][:2], sb[0], sa[1][:2], sb[1]))
                    if b.has_overlap(a) != proj:
                        bad.append(f"2D receiver: has_overlap={b.has_overlap(a)} but the projections overlap: {proj}")
                    u = a.union(b)
                    if not (u.inside(lo3) and u.inside(hi3) and u.contains(a)):
                        bad.append(f"union {u} does not contain both operands")
                    for msg in bad:
                        ctx.fail(f"algebra/mixed/{msg.split()[0]}/{spec_str(sa)}/{spec_str(sb)}", f"3D {sa} with 2D {sb}: {msg}",
                                 {"op": "none"})
        # points, point lists, grow
        coords = [-1, 0, 0.5, 1, 2, 2.5, 3]
        for sa in refs + rng.sample(grid, ctx.n(15, 80)):
            a = mk(sa)
            for p in itertools.product(coords, repeat=dim):
                want = sa is not None and all(l <= c <= h for l, c, h in zip(sa[0], p, sa[1]))
                ctx.count(S, (dim, sa, p), sa is not None)
                if a.inside(p) != want:
                    ctx.fail(f"algebra/{dim}d/inside/{spec_str(sa)}/{p}", f"{dim}d box {sa}: inside({p})={a.inside(p)}", {"op": "inside", "dim": dim, "a": sa, "p": list(p)})
                c = a.copy()
                c.extend([p])
                if not c.inside(p) or (sa is not None and not c.contains(a)):
                    ctx.fail(f"algebra/{dim}d/extend/{spec_str(sa)}/{p}", f"{dim}d box {sa}: extend([{p}]) -> {c}", {"op": "inside", "dim": dim, "a": sa, "p": list(p)})
            if sa is None:
                continue
            size = [h - l for l, h in zip(*sa)]
            for v in [-3, -1, -0.5, -0.25, 0, 0.25, 1] + [-s / 2 for s in size]:
                c = a.copy()
                raises = v < 0 and any(s + 2 * v <= 0 for s in size)
                try:
                    c.grow(v)
                    got = False
                except ValueError:
                    got = True
                ctx.count(S, (dim, sa, "grow", v), True)
                ok = got == raises and (got or (tuple(c.extmin) == tuple(l - v for l in sa[0]) and tuple(c.extmax) == tuple(h + v for h in sa[1])))
                if not ok:
                    ctx.fail(f"algebra/{dim}d/grow/{spec_str(sa)}/{v}", f"{dim}d box {sa}: grow({v}) raised={got} expected raise={raises} result {c}",
                             {"op": "grow", "dim": dim, "a": sa, "v": v})
        for _ in range(ctx.n(1500, 15000)):
            sa = rnd_box(rng, dim)
            if not wf(sa):
                continue
            a = mk(sa)
            pts = [tuple(float(rng.choice(Q)) for _j in range(dim)) for _i in range(rng.choice([0, 1, 2, 3, 5]))]
            ctx.count(S, (dim, sa, tuple(pts)), True)
            allin = a.has_data and bool(pts) and all(a.inside(p) for p in pts)
            anyin = a.has_data and any(a.inside(p) for p in pts)
            cls = type(a)
            if a.all_inside(pts) != allin or a.any_inside(pts) != anyin or a.all_inside(pts) != a.contains(cls(pts)):
                ctx.fail(f"algebra/{dim}d/all_inside/{spec_str(sa)}/{pts}", f"{dim}d box {sa} points {pts}: all_inside={a.all_inside(pts)} any_inside={a.any_inside(pts)}",
                         {"op": "pts", "dim": dim, "a": sa, "pts": [list(p) for p in pts]})
            bp = cls(pts)
            if pts:
                lo = tuple(min(p[i] for p in pts) for i in range(dim))
                hi = tuple(max(p[i] for p in pts) for i in range(dim))
                if tuple(bp.extmin) != lo or tuple(bp.extmax) != hi:
                    ctx.fail(f"algebra/{dim}d/extents/{pts}", f"{cls.__name__}({pts}) = {bp}", {"op": "pts", "dim": dim, "a": sa, "pts": [list(p) for p in pts]})
            elif bp.has_data:
                ctx.fail(f"algebra/{dim}d/extents/empty", f"{cls.__name__}([]) has data", {"op": "pts", "dim": dim, "a": sa, "pts": []})


def _multipath(cmds):
    from ezdxf import path as ezpath
    from ezdxf.math import Vec3

    p = ezpath.Path(Vec3(cmds[0][1]))
    for c in cmds[1:]:
        if c[0] == "M":
            p.move_to(Vec3(c[1]))
        elif c[0] == "L":
            p.line_to(Vec3(c[1]))
        elif c[0] == "C4":
            p.curve4_to(Vec3(c[3]), Vec3(c[1]), Vec3(c[2]))
        else:
            p.curve3_to(Vec3(c[2]), Vec3(c[1]))
    return p


def _multipath_hull(cmds):
    """dense Bernstein sampling of every segment, pen position tracked here (independent of precise_bbox)"""
    import numpy as np

    ts = np.linspace(0, 1, 1001)[:, None]
    pen = np.array(cmds[0][1], dtype=float)
    pts = [pen[None, :]]
    for c in cmds[1:]:
        A = [np.array(q, dtype=float) for q in c[1:]]
        if c[0] == "C4":
            pts.append((1 - ts) ** 3 * pen + 3 * (1 - ts) ** 2 * ts * A[0] + 3 * (1 - ts) * ts ** 2 * A[1] + ts ** 3 * A[2])
        elif c[0] == "C3":
            pts.append((1 - ts) ** 2 * pen + 2 * (1 - ts) * ts * A[0] + ts ** 2 * A[1])
        else:  # M and L: the end point (a MOVE_TO target is the start of the next sub-path)
            pts.append(A[-1][None, :])
        pen = A[-1]
    allp = np.concatenate(pts)
    return allp.min(0), allp.max(0)


def check_multipath(cmds):
    import numpy as np
    from ezdxf import path as ezpath

    lo, hi = _multipath_hull(cmds)
    span = max(1e-9, float((hi - lo).max()))
    tol = 1e-5 * span + 1e-9 * max(1.0, float(np.abs(np.concatenate([lo, hi])).max()))
    p = _multipath(cmds)
    bad = []
    for name, b in (("precise_bbox", ezpath.precise_bbox(p)), ("path.bbox(fast=False)", ezpath.bbox([p], fast=False))):
        out = max(float((np.array(b.extmin) - lo).max()), float((hi - np.array(b.extmax)).max()))
        slack = max(float((lo - np.array(b.extmin)).max()), float((np.array(b.extmax) - hi).max()))
        if out > tol or slack > tol:
            bad.append(f"{name}: path outside by {out:.3g}, slack {slack:.3g} (tol {tol:.3g})")
    fb = ezpath.bbox([p], fast=True)
    if max(float((np.array(fb.extmin) - lo).max()), float((hi - np.array(fb.extmax)).max())) > tol:
        bad.append("fast: control box does not contain the path")
    if p.has_sub_paths:
        ub = ezpath.bbox(list(p.sub_paths()), fast=False)
        pb = ezpath.precise_bbox(p)
        if max(abs(a - b) for a, b in zip(tuple(ub.extmin) + tuple(ub.extmax), tuple(pb.extmin) + tuple(pb.extmax))) > tol:
            bad.append(f"subpaths: box of the multi-path {pb} differs from the box of its sub-paths {ub}")
    return bad


def oracle_multipath(ctx):
    """precise_bbox / path.bbox of multi-paths (MOVE_TO): sub-paths starting with a line, a cubic or a quadratic curve"""
    rng = ctx.rng("multipath")
    S = "O5 multi-path bbox"

    def pt(o):
        if rng.random() < 0.7:
            return [o + rng.randint(-40, 40) / 4 for _ in range(3)]
        return [o + rng.uniform(-10, 10), o + rng.uniform(-10, 10), 0.0]

    for n in range(ctx.n(1500, 15000)):
        cmds = [("S", pt(0.0))]
        for sub in range(rng.randint(1, 4)):
            off = rng.choice([0.0, 0.0, 30.0, -50.0])
            if sub:
                cmds.append(("M", pt(off)))
            for k in range(rng.randint(1, 3)):
                kind = rng.choice(["C4", "C4", "C3", "L"]) if k == 0 else rng.choice(["L", "L", "C4", "C3"])
                cmds.append({"L": ("L", pt(off)), "C4": ("C4", pt(off), pt(off), pt(off)), "C3": ("C3", pt(off), pt(off))}[kind])
        nsub = 1 + len([c for c in cmds if c[0] == "M"])
        ctx.count(S, ("m", n), nsub > 1)
        ctx.hist(S, "sub-paths=%d" % nsub)
        for msg in check_multipath(cmds):
            ctx.fail(f"multipath/{msg.split(':')[0]}/{n}", f"path {cmds}: {msg}", {"op": "multipath", "cmds": [list(c) for c in cmds]})


def check_select(ents, shape_spec, use_cache):
    """ezdxf.select against the set-theoretic reading of 'bounding box inside / outside / overlapping the shape', with the
    reference written here per axis resp. with the closest-point formula for the circle; returns list of (what, detail)"""
    from ezdxf import bbox, select
    from ezdxf.math import BoundingBox2d

    cache = bbox.Cache() if use_cache else None
    boxes = {}
    for e in ents:
        b = bbox.extents((e,), fast=True)
        if b.has_data:
            boxes[e.dxf.handle] = BoundingBox2d(b)
    if shape_spec[0] == "window":
        (x0, y0), (x1, y1) = shape_spec[1], shape_spec[2]
        wlo, whi = (min(x0, x1), min(y0, y1)), (max(x0, x1), max(y0, y1))
        shape = select.Window(shape_spec[1], shape_spec[2])

        def ref(b):
            inside = wlo[0] <= b.extmin.x and b.extmax.x <= whi[0] and wlo[1] <= b.extmin.y and b.extmax.y <= whi[1]
            overlap = b.extmin.x <= whi[0] and wlo[0] <= b.extmax.x and b.extmin.y <= whi[1] and wlo[1] <= b.extmax.y
            return inside, overlap, False
    else:
        (cx, cy), r = shape_spec[1], shape_spec[2]
        shape = select.Circle(shape_spec[1], r)

        def ref(b):
            corners = [(b.extmin.x, b.extmin.y), (b.extmax.x, b.extmin.y), (b.extmax.x, b.extmax.y), (b.extmin.x, b.extmax.y)]
            far = max(math.hypot(x - cx, y - cy) for x, y in corners)
            px, py = min(max(cx, b.extmin.x), b.extmax.x), min(max(cy, b.extmin.y), b.extmax.y)
            near = math.hypot(px - cx, py - cy)
            return far <= r, near <= r, min(abs(far - r), abs(near - r)) < 1e-9  # boundary cases are not judged
    got = {name: {e.dxf.handle for e in fn(shape, ents, cache=cache)}
           for name, fn in (("inside", select.bbox_inside), ("outside", select.bbox_outside), ("overlap", select.bbox_overlap))}
    bad = []
    for h, b in boxes.items():
        inside, overlap, skip = ref(b)
        if skip:
            continue
        for name, want in (("inside", inside), ("overlap", overlap), ("outside", not overlap)):
            if (h in got[name]) != want:
                bad.append((f"{shape_spec[0]}-{name}", f"entity #{h} box {b}: bbox_{name}={h in got[name]} but the box is "
                                                     f"{'' if want else 'not '}{name} the {shape_spec[0]} {shape_spec[1:]}"))
    extra = set().union(*got.values()) - set(boxes)
    if extra:
        bad.append(("nodata-selected", f"entities without bounding box selected: {sorted(extra)}"))
    return bad


def oracle_select(ctx):
    """O6: select.bbox_inside / bbox_outside / bbox_overlap for Window and Circle shapes (small shapes inside large boxes,
    shapes crossing one edge, enclosing shapes) with and without cache"""
    rng = ctx.rng("select")
    S = "O6 select by bounding box"
    for d in range(ctx.n(120, 1200)):
        recipe = gen_recipe(rng, rng.randint(2, 6), rng.randint(0, 3), 2)
        try:
            doc, ents = build_doc(recipe)
        except Exception:  # noqa  (reported by O1)
            continue
        for k in range(4):
            c = (rc(rng, -12, 12), rc(rng, -12, 12))
            if rng.random() < 0.5:
                size = rng.choice([0.25, 0.5, 1, 2, 5, 12, 30])
                spec = ("window", c, (c[0] + size, c[1] + rng.choice([0.25, 1, 4, 30])))
            else:
                spec = ("circle", c, rng.choice([0.25, 0.5, 1, 2, 5, 12, 30]))
            ctx.count(S, (d, k), True)
            ctx.hist(S, spec[0])
            try:
                bad = check_select(ents, spec, rng.random() < 0.5)
            except Exception as ex:  # noqa
                ctx.fail(f"select/raise/{type(ex).__name__}/{d}.{k}", f"doc {d} shape {spec}: {ex!r}", {"op": "select", "recipe": recipe, "shape": list(spec)})
                continue
            for what, detail in bad[:3]:
                ctx.fail(f"select/{what}/{d}.{k}", f"doc {d}: {detail}", {"op": "select", "recipe": recipe, "shape": list(spec)})


def oracle_arc(ctx):
    """O7: cubic_bezier_arc_parameters on the real code (the accelerated twin) against the closed form proved in
    arc_bezier_radial_error: |B(t)|^2 - 1 = u^6 w^2 (1-w^2)^2 / (1+u^2)^2 with u = tan(segment_angle/4), w = 2t-1 (1e-12);
    segments of at most 90 degrees, start/end points on the unit circle, consecutive segments joined"""
    import numpy as np
    from ezdxf.math import cubic_bezier_arc_parameters

    rng = ctx.rng("arc")
    S = "O7 arc approximation"
    ts = np.linspace(0, 1, 41)
    w = 2 * ts - 1
    for n in range(ctx.n(600, 6000)):
        a0 = rng.choice([0.0, 0.5, math.pi / 2, 3.0, rng.uniform(-7, 7)])
        sweep = rng.choice([0.01, 0.5, math.pi / 2, math.pi / 2 + 1e-9, math.pi, 4.0, math.tau, rng.uniform(1e-3, math.tau)])
        segs = list(cubic_bezier_arc_parameters(a0, a0 + sweep, rng.choice([1, 1, 2, 5])))
        ctx.count(S, ("a", n), True)
        ang = sweep / len(segs)
        u = math.tan(ang / 4)
        bad = []
        if ang > math.pi / 2 + 1e-12:
            bad.append(f"segment angle {ang} > 90 degrees")
        prev = None
        for p0, p1, p2, p3 in segs:
            P = [np.array([q.x, q.y]) for q in (p0, p1, p2, p3)]
            if prev is not None and float(np.abs(P[0] - prev).max()) > 1e-12:
                bad.append("segments are not joined")
            prev = P[3]
            B = ((1 - ts) ** 3)[:, None] * P[0] + (3 * (1 - ts) ** 2 * ts)[:, None] * P[1] + (3 * (1 - ts) * ts ** 2)[:, None] * P[2] + (ts ** 3)[:, None] * P[3]
            n2 = (B ** 2).sum(1)
            want = 1 + u ** 6 * w ** 2 * (1 - w ** 2) ** 2 / (1 + u * u) ** 2
            dev = float(np.abs(n2 - want).max())
            if dev > 1e-12:
                bad.append(f"|B(t)|^2 deviates from the closed form by {dev:.3g}")
            if float(n2.min()) < 1 - 1e-12 or float(n2.max()) > 1.0004 ** 2:
                bad.append(f"radial bounds violated: {n2.min()} .. {n2.max()}")
        for msg in bad[:2]:
            ctx.fail(f"arc/{msg.split()[0]}/{n}", f"cubic_bezier_arc_parameters({a0}, {a0 + sweep}): {msg}", {"op": "arc", "a0": a0, "a1": a0 + sweep})


def oracle_from_arc(ctx):
    """O7b: cubic_bezier_from_arc for the start angles the converters deliver (-360 <= s < 360; span < 360 for s < 0): number of
    segments = max(ceil(span / 90), segments), first point in direction s, last point in direction s + span, all control points
    within 1.0004 * sqrt(2) r (from_arc_normalised + arc_whole_covers / arc_whole_in_sector)"""
    from ezdxf.math import cubic_bezier_from_arc

    rng = ctx.rng("fromarc")
    S = "O7 arc approximation"
    for n in range(ctx.n(600, 6000)):
        s = rng.choice([0.0, 90.0, -90.0, 180.0, -180.0, 359.5, -359.5, rng.uniform(-360, 359.99)])
        span = rng.choice([0.5, 45.0, 90.0, 90.000001, 180.0, 270.0, 359.0, rng.uniform(0.01, 359.9)] + ([360.0] if s >= 0 else []))
        segs = rng.choice([1, 1, 2, 5])
        r, c = rng.choice([1.0, 2.5, 10.0]), (rng.randint(-8, 8) / 4, rng.randint(-8, 8) / 4)
        ctx.count(S, ("fa", n), True)
        ctx.hist(S, "from_arc")
        bad = []
        try:
            curves = list(cubic_bezier_from_arc(c, r, s, s + span, segs))
        except Exception as ex:  # noqa
            ctx.fail(f"arc/from_arc-raise/{n}", f"cubic_bezier_from_arc({c}, {r}, {s}, {s + span}, {segs}) raised {ex!r}",
                     {"op": "fromarc", "args": [list(c), r, s, s + span, segs]})
            continue
        # at an exact multiple of 90 degrees the float quotient may exceed the integer by one ulp: one segment more is legitimate
        q = span / 90.0
        want_n = {max(math.ceil(round(q, 9)), segs), max(math.ceil(q + 1e-9), segs)}
        if len(curves) not in want_n or (curves and span / len(curves) > 90.0 + 1e-9):
            bad.append(f"{len(curves)} segments, expected {sorted(want_n)}")
        if curves:
            p0, p3 = curves[0].control_points[0], curves[-1].control_points[3]
            e0 = (c[0] + r * math.cos(math.radians(s)), c[1] + r * math.sin(math.radians(s)))
            e1 = (c[0] + r * math.cos(math.radians(s + span)), c[1] + r * math.sin(math.radians(s + span)))
            if math.hypot(p0.x - e0[0], p0.y - e0[1]) > 1e-9 * r or math.hypot(p3.x - e1[0], p3.y - e1[1]) > 1e-9 * r:
                bad.append(f"end points {p0} {p3} are not at the angles {s}, {s + span}")
            far = max(math.hypot(q.x - c[0], q.y - c[1]) for cv in curves for q in cv.control_points)
            if far > 1.0004 * math.sqrt(2) * r:
                bad.append(f"a control point is {far} from the centre")
        for msg in bad[:2]:
            ctx.fail(f"arc/from_arc/{n}", f"cubic_bezier_from_arc({c}, {r}, {s}, {s + span}, {segs}): {msg}",
                     {"op": "fromarc", "args": [list(c), r, s, s + span, segs]})


def oracle_bulge(ctx):
    """O9: bulge_to_arc on the real code against the trigonometry-free model (bulgeCenter, bulgeRadius2, bulgeApex): centre and
    radius (1e-9 relative), the returned angles point at the end points, the arc is counter-clockwise and passes the apex"""
    from ezdxf.math import bulge_to_arc

    rng = ctx.rng("bulge")
    S = "O9 bulge_to_arc"
    for n in range(ctx.n(800, 8000)):
        p1 = (rng.randint(-40, 40) / 4, rng.randint(-40, 40) / 4)
        p2 = (rng.randint(-40, 40) / 4, rng.randint(-40, 40) / 4)
        if p1 == p2:
            continue
        b = rng.choice([1.0, -1.0, 0.5, -0.5, 0.25, 2.0, -3.0, 0.01, rng.uniform(-4, 4) or 0.3])
        ctx.count(S, ("b", n), True)
        c, a0, a1, r = bulge_to_arc(p1, p2, b)
        dx, dy = p2[0] - p1[0], p2[1] - p1[1]
        k = (1 - b * b) / (4 * b)
        mc = ((p1[0] + p2[0]) / 2 - dy * k, (p1[1] + p2[1]) / 2 + dx * k)
        mr = math.sqrt((dx * dx + dy * dy) * (1 + b * b) ** 2 / (16 * b * b))
        apex = ((p1[0] + p2[0]) / 2 + dy * b / 2, (p1[1] + p2[1]) / 2 - dx * b / 2)
        scale = max(1.0, mr, abs(mc[0]), abs(mc[1]))
        bad = []
        if math.hypot(c.x - mc[0], c.y - mc[1]) > 1e-9 * scale or abs(r - mr) > 1e-9 * scale:
            bad.append(f"centre/radius {c} {r} differ from the model {mc} {mr}")
        s_pt, e_pt = (p2, p1) if b < 0 else (p1, p2)
        for ang, pt in ((a0, s_pt), (a1, e_pt)):
            if math.hypot(c.x + r * math.cos(ang) - pt[0], c.y + r * math.sin(ang) - pt[1]) > 1e-7 * scale:
                bad.append(f"the angle {ang} does not point at {pt}")
        sweep = (a1 - a0) % math.tau
        am = a0 + sweep / 2
        if math.hypot(c.x + r * math.cos(am) - apex[0], c.y + r * math.sin(am) - apex[1]) > 1e-7 * scale:
            bad.append(f"the middle of the counter-clockwise arc is not the apex {apex}")
        for msg in bad[:2]:
            ctx.fail(f"bulge/{msg.split()[0]}/{n}", f"bulge_to_arc({p1}, {p2}, {b}): {msg}", {"op": "none"})


def oracle(ctx):
    oracle_bulge(ctx)
    oracle_arc(ctx)
    oracle_from_arc(ctx)
    oracle_algebra(ctx)
    oracle_docs(ctx)
    oracle_bezier(ctx)
    oracle_multipath(ctx)
    oracle_select(ctx)


class _ReplayCtx:
    def __init__(self):
        self.fails = []

    def fail(self, key, what, rep):
        self.fails.append(what)


def _replay_algebra(sub, r):
    """re-evaluate the recorded box identity on the current code"""
    t = lambda s: None if s is None else (tuple(s[0]), tuple(s[1]))
    dim = r["dim"]
    mk = mk3 if dim == 3 else mk2
    sa = t(r.get("a"))
    a = mk(sa)
    if r["op"] == "algebra":
        sb = t(r.get("b"))
        b = mk(sb)
        if sa is not None and sb is not None:
            ilo = tuple(max(x, y) for x, y in zip(sa[0], sb[0]))
            ihi = tuple(min(x, y) for x, y in zip(sa[1], sb[1]))
            if a.has_overlap(b) != all(l <= h for l, h in zip(ilo, ihi)):
                sub.fail("", "has_overlap differs from 'share a point'", r)
            sub_ = all(x <= y for x, y in zip(sa[0], sb[0])) and all(y <= x for x, y in zip(sa[1], sb[1]))
            if a.contains(b) != sub_:
                sub.fail("", "contains differs from subset", r)
            i = a.intersection(b)
            if a.has_intersection(b) != i.has_data or (i.has_data and (tuple(i.extmin) != ilo or tuple(i.extmax) != ihi)):
                sub.fail("", "intersection differs", r)
            pos = all(l < h for l, h in zip(*sa)) and all(l < h for l, h in zip(*sb))
            if pos and a.has_intersection(b) != all(l < h for l, h in zip(ilo, ihi)):
                sub.fail("", "has_intersection differs from 'interiors meet'", r)
        u = a.union(b)
        corners = [c for s in (sa, sb) if s is not None for c in s]
        if corners and not all(u.inside(c) for c in corners):
            sub.fail("", "corner outside union", r)
        if not same_box(u, b.union(a)):
            sub.fail("", "union not commutative", r)
    elif r["op"] == "inside":
        p = tuple(r["p"])
        want = sa is not None and all(l <= c <= h for l, c, h in zip(sa[0], p, sa[1]))
        c = a.copy()
        c.extend([p])
        if a.inside(p) != want or not c.inside(p):
            sub.fail("", "inside/extend differs", r)
    elif r["op"] == "grow":
        v = r["v"]
        size = [h - l for l, h in zip(*sa)]
        raises = v < 0 and any(s + 2 * v <= 0 for s in size)
        try:
            a.grow(v)
            got = False
        except ValueError:
            got = True
        if got != raises:
            sub.fail("", "grow raise differs", r)
    elif r["op"] == "pts":
        pts = [tuple(p) for p in r["pts"]]
        allin = a.has_data and bool(pts) and all(a.inside(p) for p in pts)
        if a.all_inside(pts) != allin or a.all_inside(pts) != a.contains(type(a)(pts)):
            sub.fail("", "all_inside differs", r)


def replay(ctx, rep):
    bad = []
    for f in rep.get("failing_inputs", []):
        r = f["replay"]
        try:
            if r["op"] == "entity":
                doc, ents = build_doc(r["recipe"])
                i = r["index"]
                b, _, _ = check_entity(r["recipe"]["msp"][i], r["recipe"]["blocks"], ents[i], 96)
                if b:
                    bad.append(f"{f['key']}: {b[0][1]}")
            elif r["op"] == "consistency":
                doc, ents = build_doc(r["recipe"])
                if r["recipe"].get("hatch"):
                    h = doc.modelspace().add_hatch()
                    for path_pts in r["recipe"]["hatch"]:
                        h.paths.add_polyline_path(path_pts, is_closed=True)
                    ents = ents + [h]
                b = check_consistency(ents, r["fast"], ctx.rng("replay"))
                if b:
                    bad.append(f"{f['key']}: {b[0]}")
            elif r["op"] == "fastmix":
                doc, ents = build_doc(r["recipe"])
                ok, detail = check_fast_mix(ents)
                if not ok:
                    bad.append(f"{f['key']}: {detail}")
            elif r["op"] == "multipath":
                b = check_multipath([tuple(c) for c in r["cmds"]])
                if b:
                    bad.append(f"{f['key']}: {b[0]}")
            elif r["op"] == "invalidate":
                import random as _random
                doc, ents = build_doc(r["recipe"])
                if r["recipe"].get("hatch"):
                    h = doc.modelspace().add_hatch()
                    for path_pts in r["recipe"]["hatch"]:
                        h.paths.add_polyline_path(path_pts, is_closed=True)
                    ents = ents + [h]
                b = check_invalidate_history(doc, ents, r["fast"], _random.Random(r["hseed"]))
                if b:
                    bad.append(f"{f['key']}: {b[0][1]}")
            elif r["op"] == "fromarc":
                from ezdxf.math import cubic_bezier_from_arc
                c, rr, a0, a1, sg = r["args"]
                curves = list(cubic_bezier_from_arc(tuple(c), rr, a0, a1, sg))
                if not curves or (a1 - a0) / len(curves) > 90.0 + 1e-9 or len(curves) > max(math.ceil((a1 - a0) / 90.0 + 1e-9), sg):
                    bad.append(f"{f['key']}: {len(curves)} segments")
            elif r["op"] == "arc":
                import numpy as np
                from ezdxf.math import cubic_bezier_arc_parameters

                ts = np.linspace(0, 1, 41)
                for p0, p1, p2, p3 in cubic_bezier_arc_parameters(r["a0"], r["a1"]):
                    P = [np.array([q.x, q.y]) for q in (p0, p1, p2, p3)]
                    B = ((1 - ts) ** 3)[:, None] * P[0] + (3 * (1 - ts) ** 2 * ts)[:, None] * P[1] + (3 * (1 - ts) * ts ** 2)[:, None] * P[2] + (ts ** 3)[:, None] * P[3]
                    n2 = (B ** 2).sum(1)
                    if float(n2.min()) < 1 - 1e-12 or float(n2.max()) > 1.0004 ** 2:
                        bad.append(f"{f['key']}: radial bounds {n2.min()} .. {n2.max()}")
            elif r["op"] == "select":
                doc, ents = build_doc(r["recipe"])
                sp = r["shape"]
                spec = (sp[0], tuple(sp[1]), tuple(sp[2]) if sp[0] == "window" else sp[2])
                b = check_select(ents, spec, False) + check_select(ents, spec, True)
                if b:
                    bad.append(f"{f['key']}: {b[0][1]}")
            elif r["op"] == "doc":
                build_doc(r["recipe"])
            elif r["op"] in ("algebra", "inside", "grow", "pts"):
                sub = _ReplayCtx()
                _replay_algebra(sub, r)
                bad += [f"{f['key']}: {w}" for w in sub.fails]
            elif r["op"] in ("bezier", "bezier3"):
                import numpy as np
                from ezdxf.math import Bezier4P, Bezier3P, Vec3, cubic_bezier_bbox, quadratic_bezier_bbox

                P = r["points"]
                A = np.array(P, dtype=float)
                ts = np.linspace(0, 1, 2001)[:, None]
                if len(P) == 4:
                    c = (1 - ts) ** 3 * A[0] + 3 * (1 - ts) ** 2 * ts * A[1] + 3 * (1 - ts) * ts ** 2 * A[2] + ts ** 3 * A[3]
                    b = cubic_bezier_bbox(Bezier4P([Vec3(p) for p in P]))
                else:
                    c = (1 - ts) ** 2 * A[0] + 2 * (1 - ts) * ts * A[1] + ts ** 2 * A[2]
                    b = quadratic_bezier_bbox(Bezier3P([Vec3(p) for p in P]))
                span = max(1e-9, float((A.max(0) - A.min(0)).max()))
                tol = 1e-5 * span + 1e-9 * max(1.0, float(np.abs(A).max()))
                dev = max(float(np.abs(np.array(b.extmin) - c.min(0)).max()), float(np.abs(np.array(b.extmax) - c.max(0)).max()))
                if dev > tol:
                    bad.append(f"{f['key']}: deviation {dev:.3g}")
        except Exception as e:  # noqa
            bad.append(f"{f['key']}: {type(e).__name__}: {e}")
    return (not bad, "; ".join(bad) or "all recorded failing inputs pass now")

"""C15  Bounding boxes contain the geometry and are tight (DESIGN.md section 7, C15)."""
from __future__ import annotations

import ast
import hashlib
import itertools
import math
from fractions import Fraction

from leanfmt import lean_list, lean_str

ID = "C15"
LEAN_MODULES = ["EzdxfVerif.Props.C15"]
DRIVER_DEPS = ["EzdxfVerif.Model.BBox", "EzdxfVerif.Gen.BBoxKernels", "Drivers.Proto"]
RULE = (
    "correspondence X1 (box algebra): every ordered pair of a structured grid of boxes (empty, zero-size point, flat, "
    "touching at a face/edge/corner, nested, properly overlapping, disjoint, inverted corners written through the public "
    "attributes) for BoundingBox and BoundingBox2d and the mixed 2d/3d calls: union, intersection, has_intersection, "
    "has_overlap, contains, is_empty, size, center; every box x every grid point: inside, extend; point lists: constructor, "
    "extend, all_inside, any_inside; grow for values around the ValueError threshold; exact comparison (inputs are "
    "multiples of 1/4, results converted with Fraction(float)). X2 (Bezier): Bezier4P/Bezier3P.point (default = Cython "
    "class and the pure Python twin) for dyadic control points and t = k/8, exact. X3 (cache protocol): the model of "
    "Cache/multi_recursive/multi_flat/extents (yielded boxes, resulting box, cache content, hits, misses) vs. the real "
    "functions on generated documents with integer LINE/POINT/LWPOLYLINE entities, nested INSERTs with ATTRIBs, HATCH, "
    "repeated and overlapping calls with one cache. Generated kernels (Gen/BBoxKernels.lean, translated from the AST of "
    "math/bbox.py, _bezier4p.py, _bezier3p.py on every run) are proved equal to the hand model for all inputs. "
    "non-trivial = at least one operand has data (X1), t strictly inside (0,1) (X2), a cache is in use (X3); distinct by "
    "hash of the request line. oracle: ezdxf.bbox.extents/multi_flat/multi_recursive (fast on/off, cache none/fresh/warm/"
    "uuid) on generated documents with LINE, POINT, CIRCLE, ARC, ELLIPSE, LWPOLYLINE with bulges, SPLINE, SOLID, "
    "POLYLINE and nested INSERTs (translation, non-uniform/negative scale, rotation, tilted extrusions) against points "
    "sampled by an independent implementation of the entity geometry and of the block transformation: containment and "
    "tightness within the documented flattening distance 0.01, fast >= precise, cache transparency (exact), "
    "multi_flat/multi_recursive/extents consistency (exact), path.bbox/precise_bbox/cubic_bezier_bbox vs dense sampling."
)
TRUSTED_BASE = [
    "the mini symbolic executor in harness/props/c15.py (Python AST of the predicates -> Lean Bool/Rat expressions); its output "
    "is proved equal to the hand model (kernel_* theorems) and both are compared with the running code (X1)",
    "IEEE double arithmetic is exact for the small dyadic inputs of the correspondence streams (+, -, *, min, max, comparisons)",
    "numpy min/max over axis 0 = columnwise minimum/maximum",
    "the oracle's independent geometry sampler (OCS arbitrary-axis algorithm, bulge arcs, de Boor evaluation, block transformation) in harness/props/c15.py",
]
ASSUMPTIONS = [
    "coordinates are finite numbers (inf/nan inputs other than the empty-box sentinel are outside the model)",
    "one Cache object is used with one value of `fast` (the cache key does not contain the flag; mixing is reported by the oracle as a finding)",
    "text entities (TEXT/MTEXT/ATTRIB content boxes are estimates by design) are outside the oracle's tightness check",
]
OPEN = [
    "containment/tightness of precise mode for Bezier-approximated arcs/ellipses/splines (root finding with sqrt, curve "
    "approximation) is not proved: oracle within the flattening distance only",
    "recursive_decompose / virtual_entities / OCS transformation of nested INSERTs are not modelled (oracle only); "
    "nested_bbox is not stated",
    "has_intersection_iff_interiors_meet is proved for boxes of positive size; the behaviour on zero-size operands is "
    "stated separately as the code behaves (has_intersection_point)",
]

BBOX_PY = "src/ezdxf/math/bbox.py"
BEZ4_PY = "src/ezdxf/math/_bezier4p.py"
BEZ3_PY = "src/ezdxf/math/_bezier3p.py"
EZBBOX_PY = "src/ezdxf/bbox.py"


# ====================================================================== translator (T-ast, light)
class Unsupported(Exception):
    pass


class Opaque(str):
    """an uninterpreted value (Lean term)"""


CMP = {ast.LtE: "≤", ast.Lt: "<", ast.GtE: "≥", ast.Gt: ">", ast.Eq: "=", ast.NotEq: "≠"}
ARITH = {ast.Add: "+", ast.Sub: "-", ast.Mult: "*", ast.Div: "/"}


def _num(v) -> str:
    fr = Fraction(v)
    if fr.denominator == 1:
        return str(fr.numerator) if fr.numerator >= 0 else f"({fr.numerator})"
    return f"(({fr.numerator} : Rat) / {fr.denominator})"


class SymExec:
    """Symbolic execution of straight-line Python with early-return `if`s over scalars (Lean `Rat` terms),
    Booleans (Lean `Bool` terms) and vectors (tuples of scalar terms).  Anything else raises Unsupported."""

    def __init__(self, cls_nodes: dict, attrs: dict, on_return, on_raise, on_end, calls=None):
        self.cls_nodes = cls_nodes  # name -> FunctionDef of properties that may be inlined (size)
        self.attrs = attrs  # ("self","extmin") -> value
        self.on_return, self.on_raise, self.on_end = on_return, on_raise, on_end
        self.calls = calls or {}

    # ---------------------------------------------------------------- expressions
    def ev(self, e, env):
        if isinstance(e, ast.Constant):
            if isinstance(e.value, bool):
                return ("bool", "true" if e.value else "false")
            if isinstance(e.value, (int, float)):
                return _num(e.value)
            raise Unsupported(f"constant {e.value!r}")
        if isinstance(e, ast.Name):
            if e.id in env:
                return env[e.id]
            raise Unsupported(f"unbound name {e.id}")
        if isinstance(e, ast.Attribute):
            if isinstance(e.value, ast.Name) and (e.value.id, e.attr) in self.attrs:
                v = self.attrs[(e.value.id, e.attr)]
                return env.get(("attr", e.value.id, e.attr), v)
            if isinstance(e.value, ast.Name) and e.value.id == "self" and e.attr in self.cls_nodes:
                # inline a property: single `return <expr>` body
                body = [s for s in self.cls_nodes[e.attr].body if not _is_doc(s)]
                if len(body) != 1 or not isinstance(body[0], ast.Return):
                    raise Unsupported(f"property {e.attr} is not a single return")
                return self.ev(body[0].value, env)
            base = self.ev(e.value, env)
            if isinstance(base, tuple) and base and base[0] != "bool":
                if e.attr in ("x", "y", "z"):
                    i = "xyz".index(e.attr)
                    if i >= len(base):
                        raise Unsupported(f".{e.attr} of a {len(base)}d vector")
                    return base[i]
                if e.attr == "xyz" and len(base) == 3:
                    return base
            raise Unsupported(f"attribute .{e.attr}")
        if isinstance(e, ast.UnaryOp):
            v = self.ev(e.operand, env)
            if isinstance(e.op, ast.Not):
                return ("bool", f"(!{self.b(v)})")
            if isinstance(e.op, ast.USub):
                return f"(-{self.s(v)})"
            raise Unsupported("unary op")
        if isinstance(e, ast.BoolOp):
            op = "&&" if isinstance(e.op, ast.And) else "||"
            return ("bool", "(" + f" {op} ".join(self.b(self.ev(v, env)) for v in e.values) + ")")
        if isinstance(e, ast.Compare):
            parts, left = [], self.ev(e.left, env)
            for op, right in zip(e.ops, e.comparators):
                r = self.ev(right, env)
                if type(op) not in CMP:
                    raise Unsupported("comparison operator")
                parts.append(f"decide ({self.s(left)} {CMP[type(op)]} {self.s(r)})")
                left = r
            return ("bool", "(" + " && ".join(parts) + ")")
        if isinstance(e, ast.BinOp):
            if type(e.op) not in ARITH:
                raise Unsupported("binary operator")
            a, b = self.ev(e.left, env), self.ev(e.right, env)
            op = ARITH[type(e.op)]
            if self.isvec(a) and self.isvec(b) and op in "+-":
                # Vec2 op Vec3 reads only .x/.y of the right operand; Vec3 op Vec2 is not used by the modelled code
                if len(b) < len(a):
                    raise Unsupported("vector dimension mismatch")
                return tuple(f"({x} {op} {y})" for x, y in zip(a, b))
            if self.isvec(a) and op == "*" and not self.isvec(b):
                return tuple(f"({x} * {self.s(b)})" for x in a)
            return f"({self.s(a)} {op} {self.s(b)})"
        if isinstance(e, ast.Tuple):
            return tuple(self.s(self.ev(x, env)) for x in e.elts)
        if isinstance(e, ast.Call):
            f = e.func
            if isinstance(f, ast.Name) and f.id in ("Vec3", "Vec2") and not e.keywords:
                dim = 3 if f.id == "Vec3" else 2
                if len(e.args) == 1:
                    v = self.ev(e.args[0], env)
                    if not self.isvec(v):
                        raise Unsupported("Vec of non-vector")
                    v = tuple(v)[:dim]
                    return v + ("0",) * (dim - len(v))
                if len(e.args) == dim:
                    return tuple(self.s(self.ev(a, env)) for a in e.args)
            if isinstance(f, ast.Name) and f.id in ("min", "max") and not e.keywords:
                fn = "pyMin" if f.id == "min" else "pyMax"
                if len(e.args) == 1:
                    items = self.ev(e.args[0], env)
                    if not self.isvec(items):
                        raise Unsupported("min/max of non-vector")
                    items = list(items)
                else:
                    items = [self.s(self.ev(a, env)) for a in e.args]
                acc = items[0]
                for it in items[1:]:
                    acc = f"({fn} {acc} {it})"
                return acc
            key = ast.unparse(f)
            if key in self.calls:
                return self.calls[key]([self.ev(a, env) for a in e.args])
            raise Unsupported(f"call {key}")
        raise Unsupported(type(e).__name__)

    @staticmethod
    def isvec(v):
        return isinstance(v, tuple) and (not v or v[0] != "bool")

    def s(self, v) -> str:
        if isinstance(v, str):
            return v
        raise Unsupported(f"scalar expected, got {v!r}")

    def b(self, v) -> str:
        if isinstance(v, tuple) and len(v) == 2 and v[0] == "bool":
            return v[1]
        raise Unsupported(f"bool expected, got {v!r}")

    # ---------------------------------------------------------------- statements
    def run(self, stmts, env) -> str:
        if not stmts:
            return self.on_end(env)
        s, rest = stmts[0], stmts[1:]
        if _is_doc(s):
            return self.run(rest, env)
        if isinstance(s, ast.Return):
            return self.on_return(self, None if s.value is None else self.ev(s.value, env), env)
        if isinstance(s, ast.Raise):
            return self.on_raise(env)
        if isinstance(s, ast.Assign) and len(s.targets) == 1:
            env = dict(env)
            self.assign(s.targets[0], self.ev(s.value, env), env)
            return self.run(rest, env)
        if isinstance(s, ast.AugAssign) and isinstance(s.op, ast.Add):
            cur = self.ev(s.target, env)
            val = self.ev(ast.BinOp(left=s.target, op=ast.Add(), right=s.value), env)
            assert self.isvec(cur) and len(val) == len(cur)
            env = dict(env)
            self.assign(s.target, val, env)
            return self.run(rest, env)
        if isinstance(s, ast.If):
            c = self.b(self.ev(s.test, env))
            then = self.run(list(s.body) + rest, env)
            els = self.run(list(s.orelse) + rest, env)
            return f"(bif {c} then {then} else {els})"
        if isinstance(s, ast.Expr) and isinstance(s.value, ast.Call):
            key = ast.unparse(s.value.func)
            if key in self.calls:
                env = dict(env)
                self.calls[key]([self.ev(a, env) for a in s.value.args], env)
                return self.run(rest, env)
        raise Unsupported(f"statement {ast.unparse(s)[:60]!r}")

    def assign(self, target, val, env):
        if isinstance(target, ast.Name):
            env[target.id] = val
        elif isinstance(target, ast.Tuple):
            if not self.isvec(val) or len(val) != len(target.elts):
                raise Unsupported("tuple unpacking")
            for t, v in zip(target.elts, val):
                self.assign(t, v, env)
        elif isinstance(target, ast.Attribute) and isinstance(target.value, ast.Name):
            env[("attr", target.value.id, target.attr)] = val
        else:
            raise Unsupported("assignment target")


def _is_doc(s) -> bool:
    return isinstance(s, ast.Expr) and isinstance(s.value, ast.Constant) and isinstance(s.value.value, str)


def _methods(tree, cls):
    for n in tree.body:
        if isinstance(n, ast.ClassDef) and n.name == cls:
            return {f.name: f for f in n.body if isinstance(f, ast.FunctionDef)}
    raise Unsupported(f"class {cls} not found")


def _vec(prefix, dim):
    return tuple(f"{prefix}{c}" for c in "xyz"[:dim])


def _binders(names, ty="Rat"):
    return "(" + " ".join(names) + f" : {ty})"


def _fingerprint(fn) -> str:
    body = [s for s in fn.body if not _is_doc(s)]
    return hashlib.sha256("\n".join(ast.dump(s) for s in body).encode()).hexdigest()[:16]


def translate(src_bbox: str, src_b4: str, src_b3: str, src_ez: str) -> str:
    tree = ast.parse(src_bbox)
    abstract = _methods(tree, "AbstractBoundingBox")
    out = []
    ret_bool = lambda ex, v, env: ex.b(v)
    no_raise = lambda env: (_ for _ in ()).throw(Unsupported("raise"))
    no_end = lambda env: (_ for _ in ()).throw(Unsupported("fall off the end"))

    for cls, dim in (("BoundingBox", 3), ("BoundingBox2d", 2)):
        m = dict(abstract)
        m.update(_methods(tree, cls))
        smin, smax, omin, omax, p = (_vec(n, dim) for n in ("smin", "smax", "omin", "omax", "p"))
        attrs = {("self", "extmin"): smin, ("self", "extmax"): smax, ("other", "extmin"): omin, ("other", "extmax"): omax,
                 ("self", "has_data"): ("bool", "sd"), ("other", "has_data"): ("bool", "od")}
        props = {"size": m["size"]}
        # the sentinel: an empty box is one whose extmin.x is not finite
        init = [s for s in m["__init__"].body if not _is_doc(s)]
        inf = ", ".join(["math.inf"] * dim)
        vec = "Vec3" if dim == 3 else "Vec2"
        if ast.unparse(init[0]) != f"self.extmin = {vec}({inf})" or ast.unparse(init[1]) != "self.extmax = self.extmin":
            raise Unsupported(f"{cls}.__init__ does not start with the inf sentinel")
        hd = [s for s in m["has_data"].body if not _is_doc(s)]
        if len(hd) != 1 or ast.unparse(hd[0]) != "return math.isfinite(self.extmin.x)":
            raise Unsupported("has_data is not math.isfinite(self.extmin.x)")
        # inside
        ex = SymExec(props, attrs, ret_bool, no_raise, no_end)
        body = ex.run(m["inside"].body, {"vertex": p})
        out.append(f"/-- `{cls}.inside` -/\ndef inside{dim} (sd : Bool) {_binders(smin + smax + p)} : Bool :=\n  {body}\n")
        # has_intersection / has_overlap
        for py, ln in (("has_intersection", "hasIntersection"), ("has_overlap", "hasOverlap")):
            ex = SymExec(props, attrs, ret_bool, no_raise, no_end)
            body = ex.run(m[py].body, {})
            out.append(f"/-- `{cls}.{py}` -/\ndef {ln}{dim} (sd od : Bool) {_binders(smin + smax + omin + omax)} : Bool :=\n  {body}\n")
        # is_empty
        ex = SymExec(props, attrs, ret_bool, no_raise, no_end)
        body = ex.run(m["is_empty"].body, {})
        out.append(f"/-- `{cls}.is_empty` -/\ndef isEmpty{dim} (sd : Bool) {_binders(smin + smax)} : Bool :=\n  {body}\n")
        # size
        ex = SymExec(props, attrs, lambda ex, v, env: "(" + ", ".join(v) + ")", no_raise, no_end)
        body = ex.run(m["size"].body, {})
        out.append(f"/-- `size` for {cls} -/\ndef size{dim} {_binders(smin + smax)} : {' × '.join(['Rat'] * dim)} :=\n  {body}\n")
        # intersection: none = the fresh empty box is returned untouched, some pts = fresh box extended by pts
        def new_box(args, env=None):
            return Opaque("EMPTY")

        def ext_call(args, env):
            if env.get("new_bbox") != "EMPTY" or len(args) != 1:
                raise Unsupported("extend on something else than the fresh box")
            env["new_bbox"] = ("extended", args[0])

        def ret_box(ex, v, env):
            if v == "EMPTY":
                return "none"
            if isinstance(v, tuple) and v[0] == "extended":
                return "some [" + ", ".join("(" + ", ".join(pt) + ")" for pt in v[1]) + "]"
            raise Unsupported("intersection returns something else")

        class ExI(SymExec):
            def ev(self, e, env):
                if isinstance(e, ast.List):
                    return ("list",) + tuple(self.ev(x, env) for x in e.elts)
                return super().ev(e, env)

        calls = {"self.__class__": new_box, "self.has_intersection": lambda args: ("bool", "hi"),
                 "new_bbox.extend": lambda args, env: ext_call([args[0][1:]], env)}
        ex = ExI(props, attrs, ret_box, no_raise, no_end, calls)
        body = ex.run(m["intersection"].body, {"other": Opaque("other")})
        ty = " × ".join(["Rat"] * dim)
        out.append(f"/-- `{cls}.intersection`: `none` = the new empty box, `some pts` = the new box extended by `pts`;\n"
                   f"    `hi` = `self.has_intersection(other)` -/\n"
                   f"def intersection{dim} (hi : Bool) {_binders(smin + smax + omin + omax)} : Option (List ({ty})) :=\n  {body}\n")
        # grow: none = ValueError, some (extmin, extmax) = the receiver afterwards
        def end_grow(env):
            lo = env.get(("attr", "self", "extmin"), smin)
            hi = env.get(("attr", "self", "extmax"), smax)
            return "some ((" + ", ".join(lo) + "), (" + ", ".join(hi) + "))"

        ex = SymExec(props, attrs, lambda ex, v, env: (_ for _ in ()).throw(Unsupported("return in grow")), lambda env: "none", end_grow)
        body = ex.run(m["grow"].body, {"value": "value"})
        out.append(f"/-- `grow` for {cls}: `none` = ValueError, otherwise (extmin, extmax) afterwards -/\n"
                   f"def grow{dim} (sd : Bool) {_binders(smin + smax + ('value',))} : Option (({ty}) × ({ty})) :=\n  {body}\n")

    # contains (shared): self.inside(other.extmin) and self.inside(other.extmax)
    attrs = {("other", "extmin"): Opaque("omin"), ("other", "extmax"): Opaque("omax")}
    ex = SymExec({}, attrs, ret_bool, no_raise, no_end, {"self.inside": lambda args: ("bool", f"(inside {args[0]})")})
    body = ex.run(abstract["contains"].body, {})
    out.append("/-- `AbstractBoundingBox.contains` over the class's own `inside` -/\n"
               f"def contains {{α : Type}} (inside : α → Bool) (omin omax : α) : Bool :=\n  {body}\n")

    # Bezier evaluators (one coordinate; Vec * float and Vec + Vec are componentwise)
    for src, cls, n, name in ((src_b4, "Bezier4P", 4, "bezier4Point"), (src_b3, "Bezier3P", 3, "bezier3Point")):
        m = _methods(ast.parse(src), cls)
        qs = tuple(f"q{i}" for i in range(n))
        attrs = {("self", "_control_points"): qs, ("self", "_offset"): "off"}
        ex = SymExec({}, attrs, lambda ex, v, env: ex.s(v), no_raise, no_end)
        body = ex.run(m["_get_curve_point"].body, {"t": "t"})
        out.append(f"/-- one coordinate of `{cls}._get_curve_point`; `q_i` = control point i minus the offset (q0 is not read) -/\n"
                   f"def {name} {_binders(qs[1:] + ('off', 't'))} : Rat :=\n  {body}\n")
        init = ast.unparse(m["__init__"])
        if "offset: T = defpoints[0]" not in init or "tuple((p - offset for p in defpoints))" not in init:
            raise Unsupported(f"{cls}.__init__ does not store control points relative to defpoints[0]")

    # structural fingerprints of the loop-carrying methods (recorded, not pinned; tied by correspondence)
    fps = []
    for cls in ("AbstractBoundingBox", "BoundingBox", "BoundingBox2d"):
        for name, fn in _methods(tree, cls).items():
            if name in ("extend", "union", "all_inside", "any_inside", "copy", "__iter__", "center"):
                fps.append((f"{cls}.{name}", _fingerprint(fn)))
    for n in tree.body:
        if isinstance(n, ast.FunctionDef) and n.name in ("extents3d", "extents2d"):
            fps.append((n.name, _fingerprint(n)))
    ez = ast.parse(src_ez)
    for n in ez.body:
        if isinstance(n, ast.FunctionDef):
            fps.append((f"ezdxf.bbox.{n.name}", _fingerprint(n)))
        if isinstance(n, ast.ClassDef) and n.name == "Cache":
            for f in n.body:
                if isinstance(f, ast.FunctionDef):
                    fps.append((f"ezdxf.bbox.Cache.{f.name}", _fingerprint(f)))
    head = """
namespace EzdxfVerif.Gen.BBoxKernels

/-- Python `min(a, b)`: the later argument wins only if strictly smaller -/
def pyMin (a b : Rat) : Rat := if b < a then b else a
/-- Python `max(a, b)`: the later argument wins only if strictly greater -/
def pyMax (a b : Rat) : Rat := if b > a then b else a

"""
    tail = ("/-- sha256 prefixes of the AST of methods that are modelled by hand and tied by correspondence only -/\n"
            "def fingerprints : List (String × String) := "
            + lean_list((f"({lean_str(a)}, {lean_str(b)})" for a, b in fps), per_line=2)
            + "\n\nend EzdxfVerif.Gen.BBoxKernels\n")
    return head + "\n".join(out) + "\n" + tail


def regenerate(ctx):
    srcs = [BBOX_PY, BEZ4_PY, BEZ3_PY, EZBBOX_PY]
    texts = [ctx.src(s) for s in srcs]
    for extra in ("src/ezdxf/disassemble.py", "src/ezdxf/path/tools.py", "src/ezdxf/math/curvetools.py", "src/ezdxf/acc/bezier4p.pyx"):
        ctx.src(extra)
    ctx.write_gen("BBoxKernels", translate(*texts), srcs)

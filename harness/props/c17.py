"""C17  Cross-document transfer yields a closed, faithful copy (DESIGN.md section 7, C17)."""
from __future__ import annotations

import difflib
import io
import logging
import os
import random
import tempfile

import dxfparse
from leanfmt import cps, lean_list

ID = "C17"
LEAN_MODULES = ["EzdxfVerif.Props.C17"]
DRIVER_DEPS = ["EzdxfVerif.Model.Xref", "EzdxfVerif.Gen.XrefTables", "Drivers.Proto"]
RULE = (
    "correspondence (Lean driver C17 vs real code): X1 _Transfer.map_pointers (tags over all pointer-class boundaries 319/320/329/330/.../481/482/1005, "
    "handle maps with hits, misses and '0', owner side effect on real target objects), DXFEntity.map_resources (XDATA 1005/1003, reactors), "
    "map_existing_handle; X2 get_unique_table_name on a real LayerTable and get_unique_dict_key on a real Dictionary with 0..12 occupied candidate slots in "
    "mixed letter case; X3 the decisions and final key order of real Loader runs (layers, linetypes, styles/dimstyles, blocks incl. anonymous, materials, "
    "mline/mleader styles; special names; 3 policies; xref prefixes) vs registerAll; X4 the abstract transfer (surviving copies, redirected handle mapping, "
    "XDATA handle fields of every copy, BLOCK/ENDBLK/content of every copied block record, crash class) of real Loader runs vs Model.transfer with the probed "
    "guards/discards flags. non-trivial = input reaches a non-default branch (pointer code present / clash / renaming policy / redirection); distinct by "
    "hash of the request line. oracle: generated source documents (nested blocks, attribs, shared layers/linetypes/styles/dimstyles, complex linetypes, XDATA 1005 "
    "to loaded / not loaded / in-block entities, extension dictionaries with XRECORD 330/331/340/350/360/320 pointers and nested dictionaries, reactors, groups, "
    "dimensions with anonymous blocks and user arrows, associative hatches, images, underlays, materials, MLINE/MLEADER styles, leaders, tolerances, paperspace "
    "with viewports, case-variant names; source handles >= 0xA000 so that a leak is detectable) into non-empty targets with clashing names (also '$0$name' "
    "occupied) x {load_modelspace, filtered, load_paperspace, Loader mix into a block, load_block_layout(_into), all resources, write_block, detach+embed, "
    "Importer} x 3 policies x version pairs R2000..R2018: source snapshot unchanged; written target passes harness/dxfparse.check_file, audit clean; every "
    "pointer-code tag / XDATA 1005 of every new record resolves or is 0; per transferred record tag-by-tag: pointers = sigma(source pointer) or 0, other tags "
    "equal, names mapped as the policy prescribes; block contents and layout order are the image of the source; referenced resources exist."
)
TRUSTED_BASE = [
    "hand model Model/Xref.lean of xref.py (validated by X1-X4, not proved); per-entity register_resources/map_resources overrides are not modelled",
    "ASCII case folding stands for str.lower() in make_table_key",
    "harness/dxfparse.py + the tag-level record comparison of harness/props/c17.py (oracle side)",
    "the handle allocation of CopyMachine/factory.bind enters the graph theorems as hypothesis WF (injective, fresh, non-null)",
]
ASSUMPTIONS = [
    "target DXF version >= source DXF version (documented precondition of the Loader)",
    "generated names are ASCII and free of backslashes; source documents pass doc.audit() before the transfer",
]
OPEN = [
    "transfer_closed covers the generic pointer fields (pointer-code tags, XDATA handles, resource handles); the structural links of a restored block record are "
    "proved for one registration step (block_record_restore), not carried through the whole transfer",
    "the bodies of the ~50 per-entity map_resources overrides are oracle-only",
]

logging.getLogger("ezdxf").setLevel(logging.CRITICAL)

SRC_BASE = 0xA000  # every entity the generator adds to a source document has a handle >= SRC_BASE
VERSIONS = ["R2000", "R2004", "R2007", "R2010", "R2013", "R2018"]
ACADVER = {"R12": "AC1009", "R2000": "AC1015", "R2004": "AC1018", "R2007": "AC1021", "R2010": "AC1024",
           "R2013": "AC1027", "R2018": "AC1032"}
POLICIES = ["KEEP", "XREF_PREFIX", "NUM_PREFIX"]

# ------------------------------------------------------------------ pointer classes (harness-owned, from the DXF reference)
def is_ptr(code: int) -> bool:
    """group codes whose value is a handle that the DXF reference says is translated by INSERT/XREF operations"""
    return 330 <= code <= 369 or 390 <= code <= 399 or code in (480, 481, 1005)


def is_arbitrary(code: int) -> bool:
    return 320 <= code <= 329


def norm(h) -> str:
    return str(h).upper().lstrip("0") or "0"


# ================================================================== regenerate: tables and probes from the current source
def regenerate(ctx):
    srcs = ["src/ezdxf/lldxf/types.py", "src/ezdxf/xref.py", "src/ezdxf/entities/blockrecord.py", "src/ezdxf/lldxf/validator.py"]
    for s in srcs:
        ctx.src(s)
    for s in ["src/ezdxf/entities/dxfentity.py", "src/ezdxf/entities/dictionary.py", "src/ezdxf/entities/dxfobj.py",
              "src/ezdxf/entities/layer.py", "src/ezdxf/entities/leader.py", "src/ezdxf/entities/dimension.py",
              "src/ezdxf/entities/dxfgfx.py", "src/ezdxf/addons/importer.py"]:
        ctx.src(s)
    from ezdxf import xref
    from ezdxf.lldxf import types, validator, const
    from ezdxf.entities import BlockRecord

    N = 1072
    big = [c for c in (types.TRANSLATABLE_POINTER_CODES | types.POINTER_CODES) if c >= N]
    if big:
        raise ValueError(f"pointer group codes beyond the tabulated domain: {big}")
    tag = lambda c: types.DXFTag(c, "0")
    tab = {
        "translatableCodes": [c for c in range(N) if types.is_translatable_pointer(tag(c))],
        "pointerCodes": [c for c in range(N) if types.is_pointer_code(c)],
        "softPointerCodes": [c for c in range(N) if types.is_soft_pointer(tag(c))],
        "hardPointerCodes": [c for c in range(N) if types.is_hard_pointer(tag(c))],
        "softOwnerCodes": [c for c in range(N) if types.is_soft_owner(tag(c))],
        "hardOwnerCodes": [c for c in range(N) if types.is_hard_owner(tag(c))],
        "arbitraryCodes": [c for c in range(N) if types.is_arbitrary_pointer(tag(c))],
    }
    # the set the code really consults must be what the predicate function reports
    if sorted(types.TRANSLATABLE_POINTER_CODES) != tab["translatableCodes"]:
        raise ValueError("is_translatable_pointer() disagrees with TRANSLATABLE_POINTER_CODES")
    # probe: does BlockRecord.destroy() tolerate a copied BLOCK_RECORD whose BLOCK/ENDBLK are not restored yet?
    br = BlockRecord.new(handle="FEFE", dxfattribs={"name": "PROBE"})
    try:
        br.destroy()
        guards = True
    except AttributeError:
        guards = False
    # probe: with KEEP and a clashing block name, are the copied BLOCK / ENDBLK / content of the source block gone
    # after the transfer (and the pointers to them null)?  Only observable when the guard exists.
    x = ctx.src("src/ezdxf/xref.py")
    discards = False
    if guards:
        import ezdxf

        s_, t_ = ezdxf.new(), ezdxf.new()
        s_.blocks.new("INNER").add_line((0, 0), (1, 1))
        s_.modelspace().add_blockref("INNER", (0, 0))
        t_.blocks.new("INNER")
        before_ = set(t_.entitydb.keys())
        xref.load_modelspace(s_, t_)
        new_ = [t_.entitydb[h] for h in t_.entitydb.keys() if h not in before_]
        discards = not any(e.dxftype() in ("BLOCK", "ENDBLK", "LINE") for e in new_)
    # probe: a special ("*...") layer that is missing in the target: added unchanged, or sent through the renaming policy?
    import ezdxf as _ez

    s2, t2 = _ez.new(), _ez.new()
    s2.layers.add("*ADSK_PROBE")
    ld = xref.Loader(s2, t2, conflict_policy=xref.ConflictPolicy.XREF_PREFIX)
    ld.load_layers(["*ADSK_PROBE"])
    try:
        ld.execute(xref_prefix="x")
        special_unchanged = t2.layers.has_entry("*ADSK_PROBE")
    except const.DXFValueError:
        special_unchanged = False
    # probes for the fixes in code that the model does not describe (per-entity overrides, Importer): one tiny transfer
    fx = probe_fixes()
    strs = lambda xs: lean_list(f"[{', '.join(str(ord(ch)) for ch in x)}]" for x in xs)
    sample_special = [n for n in ["0", "DEFPOINTS", "*ADSK_SYSTEM_LIGHTS", "*ADSK_CONSTRAINTS", "*ADSK", "ADSK", "*adsk_x", "L1", ""]
                      if validator.is_adsk_special_layer(n)]
    text = f"""
namespace EzdxfVerif.Gen.XrefTables

/-- group codes c < {N} with `is_translatable_pointer(DXFTag(c, "0"))` (= TRANSLATABLE_POINTER_CODES, checked at generation) -/
def translatableCodes : List Nat := {lean_list(map(str, tab["translatableCodes"]), 20)}
def pointerCodes : List Nat := {lean_list(map(str, tab["pointerCodes"]), 20)}
def softPointerCodes : List Nat := {lean_list(map(str, tab["softPointerCodes"]), 20)}
def hardPointerCodes : List Nat := {lean_list(map(str, tab["hardPointerCodes"]), 20)}
def softOwnerCodes : List Nat := {lean_list(map(str, tab["softOwnerCodes"]), 20)}
def hardOwnerCodes : List Nat := {lean_list(map(str, tab["hardOwnerCodes"]), 20)}
def arbitraryCodes : List Nat := {lean_list(map(str, tab["arbitraryCodes"]), 20)}

/-- xref.DEFAULT_LINETYPES (upper case), sorted -/
def defaultLinetypes : List (List Nat) := {strs(sorted(xref.DEFAULT_LINETYPES))}
/-- xref.DEFAULT_LAYER -/
def defaultLayer : List Nat := {strs([xref.DEFAULT_LAYER])[1:-1]}
/-- the layer names `add_layer_entry` compares with `layer.dxf.name.upper()` -/
def specialLayers : List (List Nat) := {strs(["0", "DEFPOINTS"])}
/-- const.INVALID_LAYER_NAME_CHARACTERS (validator.is_adsk_special_layer: leading '*', length > 1, rest without these;
    names containing a backslash take a decoding detour that is outside the model); accepted samples: {sample_special} -/
def invalidNameChars : List Nat := {lean_list(map(str, sorted(ord(ch) for ch in const.INVALID_LAYER_NAME_CHARACTERS)), 20)}
def materialSystemEntries : List (List Nat) := {strs(["GLOBAL", "BYLAYER", "BYBLOCK"])}
def standardName : List Nat := {strs([xref.STANDARD])[1:-1]}

/-- probe: `BlockRecord.destroy()` returns normally for a BLOCK_RECORD whose BLOCK/ENDBLK are still None -/
def destroyGuardsNone : Bool := {str(guards).lower()}
/-- probe: after KEEP with a clashing block name the copied BLOCK / ENDBLK / content are gone from the target database -/
def discardsContentOfKeptBlock : Bool := {str(discards).lower()}
/-- probe: a special layer ("*NAME") missing in the target is added under its own name (false: it is renamed by the
    policy, and "<xref>$0$*NAME" is rejected by the layer-name validator) -/
def specialLayerAddedUnchanged : Bool := {str(special_unchanged).lower()}

/-- behavioural probes of fixed defects in code outside the model (a tiny XREF_PREFIX transfer / Importer run on the real
    code at generation time; `true` = fixed behaviour) -/
def layerMapWritesClone : Bool := {str(fx["layer"]).lower()}
def nameMapsCaseInsensitive : Bool := {str(fx["case"]).lower()}
def xrecordPointersMapped : Bool := {str(fx["xrecord"]).lower()}
def leaderDimstyleMapped : Bool := {str(fx["leader"]).lower()}
def dimensionLeavesNoOrphanBlock : Bool := {str(fx["dimension"]).lower()}
def importerDuplicatesNewEntry : Bool := {str(fx["importer"]).lower()}

end EzdxfVerif.Gen.XrefTables
"""
    # the constants above that are literals in the code are re-checked against the source text
    for lit in ('("0", "DEFPOINTS")', 'system_entries={"GLOBAL", "BYLAYER", "BYBLOCK"}', 'len(block_name) > 1 and block_name[0] == "*"'):
        if lit not in x:
            raise ValueError(f"xref.py no longer contains {lit!r}: the model of the policy decision must be revisited")
    v = ctx.src("src/ezdxf/lldxf/validator.py")
    if 'if name.startswith("*") and len(name) > 1:' not in v or "return is_valid_table_name(name[1:])" not in v:
        raise ValueError("validator.is_adsk_special_layer changed: revisit Model/Xref.lean isAdskSpecial")
    if "return not bool(INVALID_LAYER_NAME_CHARACTERS.intersection(chars))" not in v:
        raise ValueError("validator.is_valid_table_name changed: revisit Model/Xref.lean isAdskSpecial")
    ctx.write_gen("XrefTables", text, srcs)


def probe_fixes():
    import ezdxf
    from ezdxf import xref
    from ezdxf.addons.importer import Importer

    src = ezdxf.new()
    src.entitydb.handles.reset("%X" % SRC_BASE)
    msp = src.modelspace()
    src.linetypes.add("DASHX", pattern=[0.5, 0.25, -0.25])
    src.layers.add("L1", linetype="DASHX")
    src.dimstyles.new("DS1")
    line = msp.add_line((0, 0), (1, 1), dxfattribs={"layer": "l1"})
    circle = msp.add_circle((0, 0), 1)
    line.new_extension_dict().add_xrecord("R").reset([(330, circle.dxf.handle)])
    msp.add_leader([(0, 0), (1, 1), (2, 1)], dimstyle="DS1")
    msp.add_linear_dim(base=(0, 2), p1=(0, 0), p2=(3, 0)).render()
    nd = sum(1 for b in src.blocks if b.name.startswith("*D"))
    tgt = ezdxf.new()
    ld = xref.Loader(src, tgt, conflict_policy=xref.ConflictPolicy.XREF_PREFIX)
    ld.load_modelspace()
    out = {k: False for k in ("layer", "case", "xrecord", "leader", "dimension", "importer")}
    try:
        ld.execute(xref_prefix="x")
        tm = list(tgt.modelspace())
        out["layer"] = src.layers.get("L1").dxf.linetype == "DASHX" and tgt.layers.get("x$0$L1").dxf.linetype == "x$0$DASHX"
        out["case"] = tm[0].dxf.layer == "x$0$L1"
        xr = tm[0].get_extension_dict().dictionary.get("R")
        out["xrecord"] = all(t.value == "0" or (t.value in tgt.entitydb and int(t.value, 16) < SRC_BASE) for t in xr.tags if t.code == 330)
        out["leader"] = next(e for e in tm if e.dxftype() == "LEADER").dxf.dimstyle == "x$0$DS1"
        out["dimension"] = sum(1 for b in tgt.blocks if b.name.startswith("*D")) == nd
    except Exception:  # noqa: a crash means "not the fixed behaviour"
        pass
    s2, t2 = ezdxf.new(), ezdxf.new()
    lay = s2.layers.add("IMP")
    Importer(s2, t2).import_table("layers", "IMP")
    out["importer"] = lay.doc is s2
    return out


# ================================================================== generators
FEATURES = ["layers", "blocks", "nested", "attribs", "xdata", "xdict", "reactors", "group", "dim", "hatch", "image",
            "underlay", "material", "mline", "mleader", "leader", "polyline", "text", "complex_ltype", "paperspace",
            "case_variant", "dimblk", "layer_material", "insert_in_xdata", "tolerance", "shape", "xdata_into_block", "adsk_layer"]


def pick_features(rng, k=None):
    k = rng.randint(2, 9) if k is None else k
    return sorted(rng.sample(FEATURES, k))


def build_source(version: str, feats, rng, filename: str | None = None):
    """a source document; every user entity has a handle >= SRC_BASE"""
    import ezdxf
    from ezdxf.math import Vec2

    doc = ezdxf.new(version)
    doc.entitydb.handles.reset("%X" % SRC_BASE)
    if filename:
        doc.filename = filename
    msp = doc.modelspace()
    f = set(feats)
    doc.linetypes.add("DASHX", pattern=[0.5, 0.25, -0.25])
    doc.linetypes.add("DOTX", pattern=[0.2, 0.0, -0.2])
    doc.styles.add("TS1", font="arial.ttf")
    doc.styles.add("TS2", font="txt.shx")
    if "complex_ltype" in f:
        doc.linetypes.add("GASX", pattern='A,.5,-.2,["GAS",TS2,S=.1,U=0.0,X=-0.1,Y=-.05],-.25', length=0.95)
    if "shape" in f:
        doc.styles.add_shx("ltypeshp.shx")
        doc.linetypes.add("SHPX", pattern="A,.25,-.1,[132,ltypeshp.shx,x=-.1,s=.1],-.1,1", length=1.45)
    mat = None
    if "material" in f or "layer_material" in f:
        mat = doc.materials.new("M1")
    if "layers" in f or True:
        doc.layers.add("L1", linetype="DASHX", color=3)
        l2 = doc.layers.add("L2", linetype="Continuous", color=4)
        doc.layers.add("L3", linetype="DOTX" if "complex_ltype" not in f else "GASX", color=5)
        if "layer_material" in f and mat is not None:
            l2.dxf.material_handle = mat.dxf.handle
    lay = lambda: rng.choice(["0", "L1", "L2", "L3"])
    ltp = lambda: rng.choice(["BYLAYER", "DASHX", "DOTX", "Continuous", "ByBlock"])
    if "case_variant" in f:
        lay = lambda: rng.choice(["0", "l1", "L2", "l3"])
        ltp = lambda: rng.choice(["ByLayer", "dashx", "DOTX", "CONTINUOUS"])

    def gfx():
        return {"layer": lay(), "linetype": ltp(), "color": rng.randint(1, 7)}

    ents = []
    line = msp.add_line((0, 0), (rng.randint(1, 9), 1), dxfattribs=gfx())
    circle = msp.add_circle((1, 2), 1.5, dxfattribs=gfx())
    ents += [line, circle]
    msp.add_arc((0, 0), 2.0, 10, 80, dxfattribs=gfx())
    msp.add_point((3, 4, 5), dxfattribs=gfx())
    if mat is not None and "material" in f:
        line.dxf.material_handle = mat.dxf.handle
    if "adsk_layer" in f:
        doc.layers.add("*ADSK_VERIF")   # Autodesk special layer (leading asterisk)
        msp.add_circle((7, 7), 0.5, dxfattribs={"layer": "*ADSK_VERIF"})
    if "text" in f:
        msp.add_text("abc", dxfattribs={**gfx(), "style": "TS1" if "case_variant" not in f else "ts1"})
        msp.add_mtext("x\\Py", dxfattribs={**gfx(), "style": "TS2"})
    if "polyline" in f:
        msp.add_polyline3d([(0, 0, 0), (1, 0, 1), (1, 1, 2)], dxfattribs=gfx())
        msp.add_lwpolyline([(0, 0), (2, 0), (2, 2)], dxfattribs=gfx())
        msp.add_spline([(0, 0, 0), (1, 1, 0), (2, 0, 0), (3, 1, 0)], dxfattribs=gfx())
    if "blocks" in f or "nested" in f or "attribs" in f:
        ba = doc.blocks.new("B_A")
        ba.add_line((0, 0), (1, 0), dxfattribs=gfx())
        ba.add_text("t", dxfattribs={"style": "TS1", "layer": "L2"})
        if "attribs" in f:
            ba.add_attdef("TAG1", (0, 1), dxfattribs={"style": "TS2", "layer": "L1"})
        ins = msp.add_blockref("B_A" if "case_variant" not in f else "b_a", (5, 5), dxfattribs=gfx())
        if "attribs" in f:
            ins.add_attrib("TAG1", "v1", (0, 1), dxfattribs={"style": "TS2", "layer": "L3"})
            ins.add_attrib("TAG2", "v2", (0, 2), dxfattribs={"layer": "L1"})
        ents.append(ins)
        if "nested" in f:
            bb = doc.blocks.new("B_B")
            bb.add_blockref("B_A", (1, 1), dxfattribs=gfx())
            bb.add_circle((0, 0), 1, dxfattribs=gfx())
            bc = doc.blocks.new("B_C")
            bc.add_blockref("B_B", (2, 2))
            bc.add_blockref("B_A", (3, 3))
            msp.add_blockref("B_C", (7, 7), dxfattribs=gfx())
            doc.blocks.new("B_UNUSED").add_line((0, 0), (1, 1))
    if "dim" in f:
        ds = doc.dimstyles.new("DS1")
        ds.dxf.dimtxsty = "TS1"
        ds.dxf.dimasz = 0.5
        if "dimblk" in f:
            arrow = doc.blocks.new("MYARROW")
            arrow.add_line((0, 0), (-1, 0))
            ds.dxf.dimblk = "MYARROW"
            if version != "R2000" and version != "R2004":
                ds.dxf.dimltype = "DASHX"
        d = msp.add_linear_dim(base=(0, 2), p1=(0, 0), p2=(3, 0), dimstyle="DS1", dxfattribs=gfx(),
                               override={"dimtxsty": "TS2", "dimclrd": 2} if rng.random() < 0.5 else None)
        d.render()
        ents.append(d.dimension)
        if rng.random() < 0.5:
            msp.add_radius_dim(center=(0, 0), radius=2, angle=30, dimstyle="DS1").render()
    if "leader" in f:
        if "DS1" not in doc.dimstyles:
            doc.dimstyles.new("DS1").dxf.dimtxsty = "TS1"
        msp.add_leader([(0, 0), (1, 1), (2, 1)], dimstyle="DS1", dxfattribs=gfx())
    if "tolerance" in f:
        if "DS1" not in doc.dimstyles:
            doc.dimstyles.new("DS1").dxf.dimtxsty = "TS1"
        tol = msp.new_entity("TOLERANCE", dxfattribs={**gfx(), "dimstyle": "DS1", "insert": (1, 1), "content": "{\\Fgdt;j}%%v0.1"})
    if "hatch" in f:
        pl = msp.add_lwpolyline([(0, 0), (4, 0), (4, 4), (0, 4)], close=True, dxfattribs=gfx())
        h = msp.add_hatch(color=2, dxfattribs=gfx())
        p = h.paths.add_polyline_path([(0, 0), (4, 0), (4, 4), (0, 4)], is_closed=True)
        h.associate(p, [pl])
        if rng.random() < 0.5:
            h.set_pattern_fill("ANSI31", scale=0.5)
    if "image" in f:
        idef = doc.add_image_def("pic.png", (640, 360))
        msp.add_image(idef, (0, 0), (4, 3), dxfattribs=gfx())
        if rng.random() < 0.5:
            msp.add_image(idef, (5, 0), (4, 3))
    if "underlay" in f:
        udef = doc.add_underlay_def("sheet.pdf", "pdf", "1")
        msp.add_underlay(udef, (0, 0), dxfattribs=gfx())
    if "mline" in f:
        ms = doc.mline_styles.new("MLS1")
        ms.elements.append(0.5, 1)
        ms.elements.append(-0.5, 2)
        msp.add_mline([(0, 0), (3, 0), (3, 3)], dxfattribs={**gfx(), "style_name": "MLS1"})
        msp.add_mline([(0, 1), (3, 1)])
    if "mleader" in f:
        from ezdxf.render import mleader

        doc.mleader_styles.duplicate_entry("Standard", "MLD1")
        b = msp.add_multileader_mtext("MLD1")
        b.set_content("note", style="TS1")
        b.add_leader_line(mleader.ConnectionSide.left, [Vec2(-5, -5)])
        b.build(insert=Vec2(3, 3))
        if "blocks" in f:
            bb2 = msp.add_multileader_block("Standard")
            bb2.set_content("B_A")
            bb2.add_leader_line(mleader.ConnectionSide.right, [Vec2(9, 9)])
            bb2.build(insert=Vec2(4, 4))
    if "xdata" in f:
        doc.appids.add("VAPP")
        line.set_xdata("VAPP", [(1000, "s"), (1005, circle.dxf.handle), (1003, "L1"), (1005, "0"), (1070, 7)])
        circle.set_xdata("VAPP", [(1005, doc.layers.get("L2").dxf.handle), (1002, "{"), (1005, line.dxf.handle), (1002, "}")])
        circle.set_xdata("ACAD", [(1000, "plain")])
    not_loaded = doc.blocks.new("B_HIDDEN").add_line((0, 0), (1, 1))  # never loaded with the modelspace
    if "insert_in_xdata" in f:
        doc.appids.add("VAPP2")
        line.set_xdata("VAPP2", [(1005, not_loaded.dxf.handle)])
    if "xdata_into_block" in f and "B_A" in doc.blocks:
        doc.appids.add("VAPP3")
        circle.set_xdata("VAPP3", [(1005, doc.blocks.get("B_A")[0].dxf.handle)])
    if "xdict" in f:
        xd = line.new_extension_dict()
        xr = xd.add_xrecord("VREC")
        xr.reset([(1, "txt"), (330, circle.dxf.handle), (340, line.dxf.handle), (350, circle.dxf.handle), (360, "0"),
                  (320, circle.dxf.handle), (90, 5), (331, not_loaded.dxf.handle)])
        xd.add_dictionary_var("VVAR", "value")
        sub = xd.add_dictionary("VSUB", hard_owned=True)
        sub.add_xrecord("DEEP").reset([(330, line.dxf.handle)])
    if "reactors" in f:
        line.append_reactor_handle(circle.dxf.handle)
        circle.append_reactor_handle(not_loaded.dxf.handle)
    if "group" in f:
        g = doc.groups.new("G1")
        g.extend([line, circle])
    psp = None
    if "paperspace" in f:
        psp = doc.layouts.new("Sheet A")
        psp.add_line((0, 0), (5, 5), dxfattribs=gfx())
        psp.add_viewport(center=(5, 5), size=(4, 4), view_center_point=(0, 0), view_height=10)
        if "blocks" in f:
            psp.add_blockref("B_A", (1, 1))
        psp.add_text("sheet", dxfattribs={"style": "TS2", "layer": "L3"})
    return doc


CLASH = ["layer", "ltype", "style", "dimstyle", "block", "material", "mlinestyle", "mleaderstyle", "num0", "nested_block",
         "appid", "layout", "arrow", "imagedef", "dimblock", "upper", "xrefnum0"]


def build_target(version: str, clash, rng, xref_name: str = ""):
    import ezdxf

    doc = ezdxf.new(version)
    c = set(clash)
    msp = doc.modelspace()
    msp.add_line((9, 9), (8, 8))
    up = (lambda s: s.lower()) if "upper" in c else (lambda s: s)
    if "ltype" in c:
        doc.linetypes.add(up("DASHX"), pattern=[1.0, 0.5, -0.5])
    if "layer" in c:
        doc.layers.add(up("L1"), color=1)
        doc.layers.add("L3", color=2)
    if "style" in c:
        doc.styles.add(up("TS1"), font="isocp.shx")
    if "dimstyle" in c:
        doc.dimstyles.new(up("DS1"))
    if "block" in c:
        b = doc.blocks.new(up("B_A"))
        b.add_circle((0, 0), 9)
        msp.add_blockref(up("B_A"), (0, 0))
    if "nested_block" in c:
        doc.blocks.new("B_B").add_circle((0, 0), 8)
    if "arrow" in c:
        doc.blocks.new("MYARROW").add_circle((0, 0), 7)
    if "material" in c:
        doc.materials.new("M1")
    if "mlinestyle" in c:
        ms = doc.mline_styles.new("MLS1")
        ms.elements.append(1.0, 3)
        ms.elements.append(-1.0, 3)
    if "mleaderstyle" in c:
        doc.mleader_styles.duplicate_entry("Standard", "MLD1")
    if "appid" in c:
        doc.appids.add("VAPP")
    if "layout" in c:
        doc.layouts.new("Sheet A")
    if "imagedef" in c:
        idef = doc.add_image_def("other.png", (10, 10))
        msp.add_image(idef, (0, 0), (1, 1))
    if "dimblock" in c:
        msp.add_linear_dim(base=(0, 2), p1=(0, 0), p2=(3, 0)).render()
    for tab, names in (("layers", ["L1", "L3"]), ("linetypes", ["DASHX"]), ("styles", ["TS1"])):
        for pre in ((["$0$"] if "num0" in c else []) + ([xref_name + "$0$"] if "xrefnum0" in c and xref_name else [])):
            for n in names:
                t = getattr(doc, tab)
                if not t.has_entry(pre + n):
                    if tab == "linetypes":
                        t.add(pre + n, pattern=[0.3, 0.2, -0.1])
                    elif tab == "styles":
                        t.add(pre + n, font="txt.shx")
                    else:
                        t.add(pre + n)
    if "num0" in c and "block" in c:
        doc.blocks.new("$0$B_A")
        if xref_name and "xrefnum0" in c:
            doc.blocks.new(xref_name + "$0$B_A")
    return doc


# ================================================================== snapshots (through the harness-owned parser)
COLLECTIONS = {"MATERIAL": 1, "MLINESTYLE": 2, "MLEADERSTYLE": 3}   # object type -> group code of the name
VOLATILE_HEADER = {"$VERSIONGUID", "$FINGERPRINTGUID", "$TDUPDATE", "$TDUUPDATE", "$TDCREATE", "$TDUCREATE", "$HANDSEED"}


class Snap:
    """records of a written document, by handle"""

    def __init__(self, doc, as_version=None):
        s = io.StringIO()
        if as_version is not None and as_version != doc.dxfversion:
            # export the same in-memory state with the attribute set of another DXF version (for tag comparison only)
            keep = doc._dxfversion
            doc._dxfversion = as_version
            try:
                doc.write(s)
            finally:
                doc._dxfversion = keep
        else:
            doc.write(s)
        text = s.getvalue()
        self.version = as_version or doc.dxfversion
        self.tags = dxfparse.parse_ascii(text)
        sections, self.problems = dxfparse.split_file(self.tags)
        self.sec = dict(sections)
        self.recs: dict[str, list] = {}      # handle -> record
        self.where: dict[str, str] = {}
        self.order: list[str] = []
        self.table_of: dict[str, str] = {}   # handle of a table entry -> table name
        self.table_head: dict[str, str] = {}
        self.children: dict[str, list[str]] = {}   # linked sub-entities by parent handle
        self.block_content: dict[str, list[str]] = {}
        self.entities: list[str] = []
        for name, body in sections:
            tname = None
            parent = None
            bname = None
            if name in ("HEADER", "CLASSES", "THUMBNAILIMAGE", "ACDSDATA"):
                continue
            for r in body:
                t = dxfparse.rec_type(r)
                if t.startswith("<"):
                    continue
                if name == "TABLES":
                    if t == "TABLE":
                        tname = r[1][1]
                        h = dxfparse.rec_handle(r)
                        if h:
                            self.table_head[tname] = h
                    elif t == "ENDTAB":
                        tname = None
                        continue
                h = dxfparse.rec_handle(r)
                if h is None:
                    continue
                self.recs[h] = r
                self.where[h] = name if name != "TABLES" else f"TABLES/{tname}"
                self.order.append(h)
                if name == "TABLES" and t != "TABLE":
                    self.table_of[h] = tname
                if name in ("ENTITIES", "BLOCKS"):
                    if t == "BLOCK":
                        bname = h
                        self.block_content[h] = []
                    elif t == "ENDBLK":
                        bname = None
                    if t in ("VERTEX", "ATTRIB", "SEQEND"):
                        if parent is not None:
                            self.children.setdefault(parent, []).append(h)
                        if t == "SEQEND":
                            parent = None
                    else:
                        parent = h if t in ("POLYLINE", "INSERT") else None
                        if name == "ENTITIES":
                            self.entities.append(h)
                        elif bname is not None and t != "BLOCK":
                            self.block_content[bname].append(h)
        hv = dxfparse.header_vars(self.sec.get("HEADER", []))
        self.header = {k: v for k, v in hv.items() if k not in VOLATILE_HEADER}

    def names(self, table: str) -> dict[str, str]:
        """lower-case name -> handle of the entries of a table or of an object collection"""
        out = {}
        if table in COLLECTIONS:
            code = COLLECTIONS[table]
            for h, r in self.recs.items():
                if dxfparse.rec_type(r) == table:
                    out[str(next((v for c, v in r if c == code), "")).lower()] = h
            return out
        for h, t in self.table_of.items():
            if t == table:
                out[next((v for c, v in self.recs[h] if c == 2), "").lower()] = h
        return out

    def name_of(self, h: str) -> str:
        r = self.recs[h]
        code = COLLECTIONS.get(dxfparse.rec_type(r), 2)
        return str(next((v for c, v in r if c == code), ""))

    def fingerprint(self):
        """everything except volatile header variables and the ezdxf time stamp"""
        body = {}
        for h, r in self.recs.items():
            if dxfparse.rec_type(r) == "DICTIONARYVAR" and any(c == 1 and "@" in str(v) and "T" in str(v) for c, v in r):
                continue  # EZDXF_META WRITTEN_BY_EZDXF time stamp
            body[h] = tuple(r)
        return body, tuple(self.order), self.header


# ================================================================== running one transfer on the real code
class Capture:
    """wraps xref._Transfer.finalize to observe the handle mapping and name maps the real code built"""

    def __init__(self):
        self.transfers = []

    def __enter__(self):
        from ezdxf import xref

        self._orig = xref._Transfer.finalize
        self._orig_init = xref._Transfer.__init__
        cap = self

        def finalize(t):
            cap.transfers.append(t)
            return cap._orig(t)

        def init(t, *a, **kw):
            cap._orig_init(t, *a, **kw)
            t._alloc = dict(t.handle_mapping)   # CopyMachine's allocation before any redirection
            cap.started.append(t)

        self.started = []
        xref._Transfer.finalize = finalize
        xref._Transfer.__init__ = init
        return self

    def __exit__(self, *a):
        from ezdxf import xref

        xref._Transfer.finalize = self._orig
        xref._Transfer.__init__ = self._orig_init


OPS = ["msp", "msp_filter", "psp", "loader_mix", "block_into", "resources", "write_block", "detach_embed", "importer"]
IMPORTER_FEATURES = ["adsk_layer", "layers", "blocks", "nested", "attribs", "xdata", "xdict", "reactors", "group", "dim", "hatch", "leader",
                     "polyline", "text", "complex_ltype", "case_variant", "dimblk", "layer_material", "material", "shape", "paperspace"]


def run_transfer(op: str, src, tgt, policy: str, rng, tmpdir: str):
    """-> dict(result doc(s), loaded source handles in order, anchors)"""
    from ezdxf import xref
    from ezdxf.xref import ConflictPolicy, Loader

    pol = getattr(ConflictPolicy, policy)
    info = {"op": op, "anchors": {}, "loaded": None, "tgt": tgt, "target_layout": None}
    smsp, tmsp = src.modelspace(), (tgt.modelspace() if tgt is not None else None)
    if op == "msp":
        info["loaded"] = [e.dxf.handle for e in smsp]
        info["anchors"][smsp.block_record_handle] = tmsp.block_record_handle
        info["target_layout"] = tmsp
        xref.load_modelspace(src, tgt, conflict_policy=pol)
    elif op == "msp_filter":
        keep = {e.dxf.handle for e in smsp if rng.random() < 0.6}
        info["loaded"] = [e.dxf.handle for e in smsp if e.dxf.handle in keep]
        info["anchors"][smsp.block_record_handle] = tmsp.block_record_handle
        info["target_layout"] = tmsp
        xref.load_modelspace(src, tgt, filter_fn=lambda e: e.dxf.handle in keep, conflict_policy=pol)
    elif op == "psp":
        psp = next((l for l in src.layouts if l.name not in ("Model",) and l.name != "Layout1"), None) or src.layouts.get("Layout1")
        info["loaded"] = [e.dxf.handle for e in psp]
        info["psp"] = psp.name
        xref.load_paperspace(psp, tgt, conflict_policy=pol)
    elif op == "loader_mix":
        loader = Loader(src, tgt, conflict_policy=pol)
        blk = tgt.blocks.new("VTARGETBLK")
        info["loaded"] = [e.dxf.handle for e in smsp]
        info["anchors"][smsp.block_record_handle] = blk.block_record_handle
        info["target_layout"] = blk
        loader.load_modelspace(blk)
        loader.load_layers(["L2", "L3", "NOPE"])
        loader.load_linetypes(["DOTX"])
        loader.load_text_styles(["TS2"])
        if "DS1" in src.dimstyles:
            loader.load_dim_styles(["DS1"])
        loader.execute(xref_prefix="xp" if rng.random() < 0.5 else "")
        info["xref_prefix_arg"] = True
    elif op == "block_into":
        name = rng.choice([b.name for b in src.blocks if not b.name.startswith("*")])
        sb = src.blocks.get(name)
        loader = Loader(src, tgt, conflict_policy=pol)
        info["loaded"] = [e.dxf.handle for e in sb]
        info["anchors"][sb.block_record_handle] = tmsp.block_record_handle
        info["target_layout"] = tmsp
        loader.load_block_layout_into(sb, tmsp)
        other = rng.choice([b.name for b in src.blocks if not b.name.startswith("*")])
        loader.load_block_layout(src.blocks.get(other))
        info["block_loaded"] = other
        loader.execute()
    elif op == "resources":
        loader = Loader(src, tgt, conflict_policy=pol)
        loader.load_layers([l.dxf.name for l in src.layers])
        loader.load_linetypes([l.dxf.name for l in src.linetypes])
        loader.load_text_styles([l.dxf.name for l in src.styles if l.dxf.name])
        loader.load_dim_styles([l.dxf.name for l in src.dimstyles])
        loader.load_mline_styles([k for k, _ in src.mline_styles])
        loader.load_mleader_styles([k for k, _ in src.mleader_styles])
        loader.load_materials([k for k, _ in src.materials])
        info["loaded"] = []
        loader.execute()
    elif op == "write_block":
        ents = [e for e in smsp if rng.random() < 0.7] or list(smsp)[:1]
        info["loaded"] = [e.dxf.handle for e in ents]
        new = xref.write_block(ents, origin=(1, 2, 3))
        info["tgt"] = new
        info["anchors"][smsp.block_record_handle] = new.modelspace().block_record_handle
        info["target_layout"] = new.modelspace()
    elif op == "detach_embed":
        name = rng.choice([b.name for b in src.blocks if not b.name.startswith("*")])
        sb = src.blocks.get(name)
        info["loaded"] = [e.dxf.handle for e in sb]
        info["block"] = name
        path = os.path.join(tmpdir, "detached.dxf")
        new = xref.detach(sb, xref_filename=path)
        info["tgt"] = new
        info["anchors"][sb.block_record_handle] = new.modelspace().block_record_handle
        info["target_layout"] = new.modelspace()
        info["source_changes_expected"] = {sb.block_record_handle}
    else:
        raise ValueError(op)
    return info


# ================================================================== analysis of one transfer (harness-owned predicate)
import re

_NUM = re.compile(r"#?[0-9A-F]{2,}\b|\d+")
NAME_CODES = {1, 2, 3, 4, 6, 7, 8, 340, 1001, 1003}
SPECIAL_LAYERS = ("0", "defpoints")
SPECIAL_LTYPES = ("continuous", "bylayer", "byblock")
TABLE_ATTR = {"LAYER": "layers", "LTYPE": "linetypes", "STYLE": "styles", "DIMSTYLE": "dimstyles",
              "BLOCK_RECORD": "block_records", "UCS": "ucs", "APPID": "appids"}


TARGET_DEFAULT_POINTERS = {("LAYER", 390)}    # plot style: replaced by the target's plot style "Normal"
DERIVED_COUNTS = {("HATCH", 97), ("LAYOUT", 71)}   # counts / tab order recomputed from what was really transferred


def squash(msg: str) -> str:
    return _NUM.sub("#", msg)[:90]


def xdata_start(rec) -> int:
    for i, (c, v) in enumerate(rec):
        if c == 1001:
            return i
    return len(rec)


class Analysis:
    def __init__(self, report):
        self.report = report  # report(kind_key, what)
        self.stats = {}
        self.orphan_handles, self.orphan_names, self.case_names, self.orphan_or_case_handles = set(), set(), set(), set()

    def stat(self, k, n=1):
        self.stats[k] = self.stats.get(k, 0) + n

    # ---- A
    def source_unchanged(self, before: Snap, after: Snap, expected=()):
        expected = expected or ()
        b, bo, bh = before.fingerprint()
        a, ao, ah = after.fingerprint()
        for h in sorted(set(b) | set(a), key=lambda x: int(x, 16)):
            if h in expected:
                continue
            rb, ra = b.get(h), a.get(h)
            if rb == ra:
                continue
            typ = dxfparse.rec_type(rb or ra)
            if rb is None or ra is None:
                self.report(f"source-changed/{typ}/{'added' if rb is None else 'removed'}", f"source {typ} #{h} {'appeared' if rb is None else 'vanished'}")
                continue
            codes = sorted({c for (c, v) in set(rb) ^ set(ra)})
            diff = [t for t in ra if t not in rb][:3]
            self.report(f"source-changed/{typ}/{','.join(map(str, codes))}", f"source {typ} #{h} changed: now has {diff}, had {[t for t in rb if t not in ra][:3]}")
        if bh != ah:
            ks = sorted(k for k in set(bh) | set(ah) if bh.get(k) != ah.get(k))
            self.report(f"source-changed/HEADER/{','.join(ks)[:60]}", f"source header variables changed: {ks}")
        if not expected and bo != ao and set(bo) == set(ao):
            self.report("source-changed/order", "order of source records changed")

    # ---- B C D E
    def target_valid(self, tgt_doc, before: Snap | None, after: Snap, src_before: Snap, may_change=()):
        pb = set(squash(p) for p in (dxfparse.check_file(before.tags, before.version) if before else []))
        for p in dxfparse.check_file(after.tags, after.version):
            if squash(p) not in pb:
                self.report(f"target-invalid/{squash(p)}", f"written target file: {p}")
        old = before.recs if before else {}
        for h, r in after.recs.items():
            if h in old:
                continue
            typ = dxfparse.rec_type(r)
            xs = xdata_start(r)
            for i, (c, v) in enumerate(r):
                if i >= xs and c != 1005:
                    continue
                if i < xs and not (is_ptr(c) or is_arbitrary(c)) or (i < xs and c == 1005):
                    continue
                v = norm(v)
                if v == "0" or v in after.recs:
                    continue
                cls = "leak" if (v in src_before.recs and int(v, 16) >= SRC_BASE) else "dangling"
                if is_arbitrary(c):
                    self.stat(f"arbitrary-pointer-{cls}")
                    continue
                self.report(f"{cls}/{typ}/{c}", f"new target {typ} #{h}: tag ({c}, {v}) "
                            + ("is a handle of the SOURCE document" if cls == "leak" else "does not resolve in the target"))
        for h, rb in old.items():
            ra = after.recs.get(h)
            if ra == rb or h in may_change:
                continue
            typ = dxfparse.rec_type(rb)
            if typ == "DICTIONARYVAR" and any(c == 1 and "@" in str(v) for c, v in rb):
                continue  # EZDXF_META time stamp
            if ra is None:
                self.report(f"target-entity-removed/{typ}", f"pre-existing target {typ} #{h} vanished")
                continue
            if typ in ("TABLE", "BLOCK"):
                # entry count of a table head; block flags (e.g. "has attribute definitions") are recomputed at export
                if [t for t in rb if t[0] != 70] == [t for t in ra if t[0] != 70]:
                    continue
            if typ in ("DICTIONARY", "ACDBDICTIONARYWDFLT", "IMAGEDEF", "PDFDEFINITION", "DWFDEFINITION", "DGNDEFINITION"):
                it = iter(ra)
                if all(any(t == u for u in it) for t in rb):   # old tags are a subsequence: entries / reactors only added
                    added = [t for t in ra if t not in rb]
                    bad = [t for t in added if (is_ptr(t[0])) and norm(t[1]) not in after.recs]
                    if not bad:
                        continue
            codes = sorted({c for (c, v) in set(rb) ^ set(ra)})
            self.report(f"target-entity-changed/{typ}/{','.join(map(str, codes))}",
                        f"pre-existing target {typ} #{h} changed: {[t for t in ra if t not in rb][:3]} vs {[t for t in rb if t not in ra][:3]}")
        aud = tgt_doc.audit()
        for e in list(aud.errors) + list(aud.fixes):
            self.report(f"audit/{squash(e.message)}", f"target audit: {e.message}")

    # ---- F G
    def pairs(self, sigma: dict, info, policy: str, xref: str, sb: Snap, tb: Snap | None, ta: Snap):
        old = tb.recs if tb else {}
        sig = dict(sigma)
        for a, b in info["anchors"].items():
            sig.setdefault(norm(a), norm(b))
        for tname, h in sb.table_head.items():
            if tname in ta.table_head:
                sig.setdefault(h, ta.table_head[tname])
        # root dictionary and the collections below it correspond by key
        def dict_entries(rec):
            out, key = {}, None
            for c, v in rec:
                if c == 3:
                    key = v
                elif c in (350, 360) and key is not None:
                    out[key] = norm(v)
                    key = None
            return out

        def root(snap):
            objs = snap.sec.get("OBJECTS", [])
            return dxfparse.rec_handle(objs[0]) if objs else None

        rs, rt = root(sb), root(ta)
        if rs and rt:
            sig.setdefault(rs, rt)
            es, et = dict_entries(sb.recs[rs]), dict_entries(ta.recs[rt])
            for k, h in es.items():
                if k in et and h in sb.recs and dxfparse.rec_type(sb.recs[h]) in ("DICTIONARY", "ACDBDICTIONARYWDFLT"):
                    sig.setdefault(h, et[k])
        anchors_s = {norm(a) for a in info["anchors"]}
        self.anchor_map = {norm(a): norm(b) for a, b in info["anchors"].items()}
        work = [(s, t) for s, t in sigma.items()]
        self.work, self.old, self.image = work, old, set(sig.values())
        self.deferred = []
        seen = set()
        kinds = list(TABLE_ATTR) + list(COLLECTIONS)
        src_names = {T: sb.names(T) for T in kinds}
        tgt_names_after = {T: ta.names(T) for T in kinds}
        tgt_names_before = {T: (tb.names(T) if tb else {}) for T in kinds}
        tname_of = {}
        for T, d in tgt_names_after.items():
            for n, h in d.items():
                tname_of[h] = n

        def name_ok(sv: str, tv: str) -> bool:
            if sv.lower() == tv.lower():
                return True
            for T, names in src_names.items():
                sh = names.get(sv.lower())
                if sh is not None and sh in sig:
                    th = sig[sh]
                    if tname_of.get(th) == tv.lower():
                        return True
            return False

        self.src_names = src_names
        self.layout_names_before = {str(v).lower() for r in (tb.recs.values() if tb else []) if dxfparse.rec_type(r) == "LAYOUT" for c, v in r if c == 1}

        while work:
            s, t = work.pop()
            if (s, t) in seen:
                continue
            seen.add((s, t))
            rs_ = sb.recs.get(s)
            if rs_ is None:
                self.stat("sigma-source-not-in-file")
                continue
            typ = dxfparse.rec_type(rs_)
            rt_ = ta.recs.get(t)
            if rt_ is None:
                own = dxfparse.base_refs(rs_)[0]
                par = next((p for p, cs in sb.children.items() if s in cs), None)
                if par is not None:
                    own = dxfparse.base_refs(sb.recs[par])[0]
                if own in sig and sig[own] in old and dxfparse.rec_type(sb.recs.get(own, [(0, "")])) == "BLOCK_RECORD" and own not in anchors_s:
                    self.stat("discarded-content-of-kept-block")
                    continue  # the target's block definition was kept: the copied content is discarded
                self.report(f"copy-not-in-file/{typ}", f"copy #{t} of source {typ} #{s} is not in the written target")
                continue
            if dxfparse.rec_type(rt_) != typ:
                self.report(f"type-mismatch/{typ}/{dxfparse.rec_type(rt_)}", f"source {typ} #{s} mapped to {dxfparse.rec_type(rt_)} #{t}")
                continue
            if s in sb.table_of or typ in COLLECTIONS:
                self.policy(s, t, typ, policy, xref, sb, tb, ta, tgt_names_before, tgt_names_after)
            if t in old:
                self.stat("mapped-to-existing/" + typ)
                continue
            self.stat("pair/" + typ)
            # induced pairs: linked sub-entities, extension dictionary, hard-owned dictionary entries
            cs, ct = sb.children.get(s, []), ta.children.get(t, [])
            if len(cs) != len(ct):
                self.report(f"sub-entities/{typ}", f"{typ} #{s}->{t}: {len(cs)} sub-entities in source, {len(ct)} in target")
            for a, b in zip(cs, ct):
                sig.setdefault(a, b)
                work.append((a, b))
            xs_, xt_ = dxfparse.base_refs(rs_)[2], dxfparse.base_refs(rt_)[2]
            if xs_ and xt_:
                sig.setdefault(xs_, xt_)
                work.append((xs_, xt_))
            elif xs_ and not xt_:
                self.report(f"xdict-lost/{typ}", f"{typ} #{s}->{t}: extension dictionary not transferred")
            if typ in ("DICTIONARY", "ACDBDICTIONARYWDFLT"):
                hard = any(c == 280 and str(v).strip() == "1" for c, v in rs_)
                es, et = dict_entries(rs_), dict_entries(rt_)
                for k, h in es.items():
                    if k in et:
                        if hard or (et[k] not in old and h not in sig):
                            sig.setdefault(h, et[k])
                            work.append((h, et[k]))
                    elif hard:
                        self.report(f"dict-entry-lost/{k[:12]}", f"DICTIONARY #{s}->{t}: hard-owned entry {k} missing in the copy")
            if typ == "BLOCK_RECORD":
                pass
            self.compare(s, t, typ, rs_, rt_, sig, sb, ta, name_ok)
        self.finish_deferred(sig, sb, ta)
        return sig

    @staticmethod
    def collapse(rec):
        """runs of >= 2 consecutive pointer tags with the same code (reactors, boundary handles, group members) are
        unordered sets: they become one pseudo tag (code, tuple of values)"""
        out = []
        xs = xdata_start(rec)
        i = 0
        while i < len(rec):
            c, v = rec[i]
            if i < xs and is_ptr(c) and c != 1005:
                j = i
                while j + 1 < xs and rec[j + 1][0] == c:
                    j += 1
                if j > i:
                    out.append((c, tuple(norm(x[1]) for x in rec[i:j + 1])))
                    i = j + 1
                    continue
            out.append((c, v))
            i += 1
        return out

    def finish_deferred(self, sig, sb, ta):
        for typ, s, t, c, svs, tvs in self.deferred:
            want = {sig.get(x) for x in svs}
            for tv in tvs:
                if tv == "0" or tv in want:
                    continue
                cand = [x for x in svs if x not in sig and x in sb.recs and tv in ta.recs and dxfparse.rec_type(sb.recs[x]) == dxfparse.rec_type(ta.recs[tv])]
                if cand and tv not in self.old and tv not in self.image:
                    self.stat("unified-late/" + dxfparse.rec_type(ta.recs[tv]))
                    continue
                if tv in sb.recs and int(tv, 16) >= SRC_BASE:
                    continue  # leak, reported by the whole-file scan
                self.report(f"wrong-pointer/{typ}/{c}", f"{typ} #{s}->{t}: pointer set ({c}, {list(svs)}) became {list(tvs)}; {tv} is not the copy of any of them")

    def compare(self, s, t, typ, rs_, rt_, sig, sb, ta, name_ok):
        rs_, rt_ = self.collapse(rs_), self.collapse(rt_)
        sc, tc = [c for c, v in rs_], [c for c, v in rt_]
        xs, xt = xdata_start(rs_), xdata_start(rt_)
        sm = difflib.SequenceMatcher(None, sc, tc, autojunk=False)
        for tag, i1, i2, j1, j2 in sm.get_opcodes():
            if tag == "equal":
                for i, j in zip(range(i1, i2), range(j1, j2)):
                    c, sv = rs_[i]
                    tv = rt_[j][1]
                    inx = i >= xs
                    if c in (5, 105) and not inx:
                        continue
                    if isinstance(sv, tuple) or isinstance(tv, tuple):
                        svs = sv if isinstance(sv, tuple) else (norm(sv),)
                        tvs = tv if isinstance(tv, tuple) else (norm(tv),)
                        self.deferred.append((typ, s, t, c, svs, tvs))
                        continue
                    if (not inx and (is_ptr(c) and c != 1005)) or (inx and c == 1005):
                        svn, tvn = norm(sv), norm(tv)
                        if tvn == "0":
                            if svn != "0" and svn in sig and sig[svn] in ta.recs:
                                self.stat(f"nulled-although-copied/{typ}/{c}")
                            continue
                        if svn in sig and sig[svn] == tvn:
                            continue
                        if self.anchor_map.get(svn) == tvn:
                            continue  # owner of a loaded entity: the layout it was loaded into
                        if typ in ("VERTEX", "ATTRIB", "SEQEND") and c == 330 and t in ta.children.get(tvn, ()):
                            continue  # sub-entity owned by its parent (ezdxf writes either the parent or the parent's owner)
                        if (typ, c) in TARGET_DEFAULT_POINTERS:
                            continue  # deliberately reset to the target's own default object by the code
                        if svn in sb.recs and int(svn, 16) >= SRC_BASE and tvn == svn:
                            continue  # reported as leak by the whole-file scan
                        if tvn == svn and svn in sb.recs and tvn in ta.recs and dxfparse.rec_type(sb.recs[svn]) == dxfparse.rec_type(ta.recs[tvn]):
                            self.report(f"untranslated/{typ}/{c}", f"{typ} #{s}->{t}: pointer ({c}, {sv}) copied verbatim; it resolves in the target only "
                                        f"because both documents use the same handle for a {dxfparse.rec_type(sb.recs[svn])}")
                            continue
                        if (svn not in sig and svn in sb.recs and tvn in ta.recs and tvn not in self.old and tvn not in self.image
                                and dxfparse.rec_type(sb.recs[svn]) == dxfparse.rec_type(ta.recs[tvn])):
                            # an object the target created on its own for the copy (e.g. IMAGEDEF_REACTOR): unify and compare it too
                            sig[svn] = tvn
                            self.image.add(tvn)
                            self.work.append((svn, tvn))
                            self.stat("unified/" + dxfparse.rec_type(sb.recs[svn]))
                            continue
                        exp = sig.get(svn)
                        self.report(f"wrong-pointer/{typ}/{c}", f"{typ} #{s}->{t}: pointer ({c}, {sv}) became {tv}, expected {exp or '0'}"
                                    f" (target #{tvn} is {dxfparse.rec_type(ta.recs[tvn]) if tvn in ta.recs else 'missing'})")
                        continue
                    if sv == tv:
                        continue
                    if c in NAME_CODES and name_ok(str(sv), str(tv)):
                        continue
                    if inx and c == 1003 and name_ok(str(sv), str(tv)):
                        continue
                    if (typ, c) in DERIVED_COUNTS:
                        continue
                    if typ == "LAYOUT" and c == 1 and re.fullmatch(re.escape(str(sv)) + r" \(\d+\)", str(tv)) and str(sv).lower() in self.layout_names_before:
                        continue  # documented: a clashing layout name gets " (n)" appended
                    self.report(f"attr-changed/{typ}/{c}", f"{typ} #{s}->{t}: tag ({c}, {sv!r}) became {tv!r}")
            else:
                for i in range(i1, i2):
                    c, sv = rs_[i]
                    if is_ptr(c) or is_arbitrary(c) or c == 102:
                        self.stat(f"dropped-pointer/{typ}/{c}")
                        continue
                    self.report(f"attr-dropped/{typ}/{c}", f"{typ} #{s}->{t}: source tag ({c}, {sv!r}) has no counterpart")
                ss = [rs_[i] for i in range(i1, i2) if is_ptr(rs_[i][0])]
                for j in range(j1, j2):
                    c, tv = rt_[j]
                    if is_ptr(c) and any(x[0] == c for x in ss):
                        sv = next(x[1] for x in ss if x[0] == c)
                        self.deferred.append((typ, s, t, c, sv if isinstance(sv, tuple) else (norm(sv),), tv if isinstance(tv, tuple) else (norm(tv),)))
                        continue
                    if is_ptr(c) or c == 102:
                        continue  # resolved / leak checked by the whole-file scan
                    self.report(f"attr-added/{typ}/{c}", f"{typ} #{s}->{t}: target tag ({c}, {tv!r}) has no counterpart in the source")

    def policy(self, s, t, typ, policy, xref, sb, tb, ta, names_before, names_after):
        T = sb.table_of.get(s, typ)
        if (T not in TABLE_ATTR and T not in COLLECTIONS) or T == "APPID":
            return
        name = sb.name_of(s)
        low = name.lower()
        before = names_before.get(T, {})
        tname = ta.name_of(t)
        existing = before.get(low)
        special = ((T == "LAYER" and (low in SPECIAL_LAYERS or low.startswith("*adsk"))) or (T == "LTYPE" and low in SPECIAL_LTYPES)
                   or (T == "MATERIAL" and low in ("global", "bylayer", "byblock")) or (T in ("MLINESTYLE", "MLEADERSTYLE") and low == "standard"))
        key = f"policy/{policy}/{T}"
        if T == "STYLE" and name == "":
            return  # shape file entries are matched by font
        if special:
            if existing is not None and t != existing:
                self.report(key + "/special-not-kept", f"{T} '{name}' is a special entry but was mapped to #{t} '{tname}' instead of the target's #{existing}")
            return
        if T == "BLOCK_RECORD" and len(name) > 1 and name.startswith("*"):
            if t in (tb.recs if tb else {}) or not tname.upper().startswith(name[:2].upper()):
                self.report(key + "/anonymous", f"anonymous block '{name}' mapped to #{t} '{tname}'")
            return
        is_new = t not in (tb.recs if tb else {})
        if policy == "KEEP":
            if existing is not None:
                if t != existing:
                    self.report(key + "/existing-not-used", f"{T} '{name}' exists in the target (#{existing}) but the source entry was mapped to #{t} '{tname}'")
            elif not is_new or tname != name:
                self.report(key + "/not-added", f"{T} '{name}' (no clash) became #{t} '{tname}'")
            return
        rename = policy == "XREF_PREFIX" or existing is not None
        pre = xref if policy == "XREF_PREFIX" else ""
        if not rename:
            if not is_new or tname != name:
                self.report(key + "/renamed-without-clash", f"{T} '{name}' (no clash) became #{t} '{tname}'")
            return
        m = re.fullmatch(re.escape(pre) + r"\$(\d+)\$" + re.escape(name), tname)
        if not is_new or m is None:
            self.report(key + "/name-form", f"{T} '{name}' became '{tname}' (#{t}, new={is_new}); expected '{pre}$<n>${name}'")
            return
        idx = int(m.group(1))
        if tname.lower() in before:
            self.report(key + "/not-fresh", f"{T} '{name}' renamed to '{tname}' which already existed")
        after = names_after.get(T, {})
        for j in range(idx):
            if f"{pre}${j}${name}".lower() not in after:
                self.report(key + "/index-not-minimal", f"{T} '{name}' renamed to '{tname}' although '{pre}${j}${name}' was free")

    # ---- H I
    def order_and_resources(self, info, sig, sb: Snap, tb: Snap | None, ta: Snap, copy_errors=()):
        old = tb.recs if tb else {}
        lay = info.get("target_layout")
        if lay is not None and info.get("loaded") is not None:
            brh = norm(lay.block_record_handle)
            if lay.is_any_layout and (lay.is_modelspace or lay.is_active_paperspace):
                got = [h for h in ta.entities if h not in old and dxfparse.base_refs(ta.recs[h])[0] == brh]
            else:
                blk = next((b for b in ta.block_content if dxfparse.base_refs(ta.recs[b])[0] == brh), None)
                got = [h for h in ta.block_content.get(blk, []) if h not in old]
            image = set(sig.values())
            want = [sig.get(norm(h)) for h in info["loaded"] if norm(h) not in copy_errors]
            for hs, w in zip(info["loaded"], want):
                if w is None or w not in ta.recs:
                    r = sb.recs.get(norm(hs))
                    typ = dxfparse.rec_type(r) if r else "?"
                    if typ == "VIEWPORT" and any(c == 69 and str(v).strip() == "1" for c, v in r):
                        continue  # documented: a loaded main viewport is replaced by the target's own
                    self.report(f"not-loaded/{typ}", f"source {typ} #{hs} was to be loaded but has no copy in the target layout")
            got = [h for h in got if h in image]
            want = [w for w in want if w in ta.recs]
            if got != want:
                self.report("order/target-layout", f"target layout content {got[:8]}... is not the image of the loaded entities {want[:8]}...")
        # every transferred block definition holds the image of the source content, in order
        brs = {dxfparse.base_refs(sb.recs[b])[0]: b for b in sb.block_content}
        brt = {dxfparse.base_refs(ta.recs[b])[0]: b for b in ta.block_content}
        for s, t in list(sig.items()):
            if s in sb.recs and dxfparse.rec_type(sb.recs[s]) == "BLOCK_RECORD" and t in ta.recs and t not in old and s in brs:
                if s in {norm(a) for a in info["anchors"]}:
                    continue
                name = next((v for c, v in sb.recs[s] if c == 2), "")
                if name.lower() in ("*model_space", "*paper_space"):
                    continue
                if t not in brt:
                    self.report("block/no-definition", f"copied BLOCK_RECORD #{t} of '{name}' has no BLOCK definition in the target")
                    continue
                want = [sig.get(h) for h in sb.block_content[brs[s]]]
                got = ta.block_content[brt[t]]
                if want != got:
                    self.report("block/content", f"block '{name}' #{s}->{t}: content {got[:8]} is not the image {want[:8]} of the source content")
        names = {T: ta.names(T) for T in ("LAYER", "LTYPE", "STYLE", "DIMSTYLE", "BLOCK_RECORD")}
        image = set(sig.values())
        # block definitions that appeared in the target without being the copy of a source block
        layout_brs = {norm(v) for r in ta.recs.values() if dxfparse.rec_type(r) == "LAYOUT" for c, v in r if c == 330}
        self.orphan_handles, self.orphan_names = set(), set()
        for brh, b in brt.items():
            if brh in old or brh in image or brh in layout_brs or brh is None:
                continue
            name = ta.name_of(brh) if brh in ta.recs else "?"
            self.orphan_names.add(name)
            self.orphan_handles.update([brh, b] + ta.block_content[b])
            for h in ta.block_content[b]:
                self.orphan_handles.update(ta.children.get(h, []))
            self.report(f"orphan-block/{name[:2]}", f"the target got a block '{name}' (#{brh}) that is not the copy of any source block "
                        f"({len(ta.block_content[b])} entities, not mapped)")
        for h, r in ta.recs.items():
            if h in old or h not in image or ta.where.get(h) not in ("ENTITIES", "BLOCKS"):
                continue
            typ = dxfparse.rec_type(r)
            xs = xdata_start(r)
            sub = ""
            for c, v in r[:xs]:
                if c == 100:
                    sub = v
                T = None
                if c == 8:
                    T = "LAYER"
                elif c == 6:
                    T = "LTYPE"
                elif c == 7 and typ in ("TEXT", "ATTRIB", "ATTDEF", "MTEXT"):
                    T = "STYLE"
                elif c == 3 and typ in ("DIMENSION", "LEADER", "TOLERANCE") and sub in ("AcDbDimension", "AcDbLeader", "AcDbFcf"):
                    T = "DIMSTYLE"
                elif c == 2 and ((typ == "DIMENSION" and sub == "AcDbDimension") or (typ == "INSERT" and sub == "AcDbBlockReference")):
                    T = "BLOCK_RECORD"
                if T is None or v.lower() in names[T]:
                    continue
                exact = any(sb.name_of(x) == v for x in sb.names(T).values())
                kind = typ if exact else "case-variant"
                if not exact:
                    self.case_names.add(v)
                    self.orphan_or_case_handles.add(h)
                # a name without table entry in the source as well is not a transfer problem
                if not exact and v.lower() not in {k for k in sb.names(T)} and not any(v.lower().endswith(k) for k in sb.names(T)):
                    continue
                self.report(f"resource-missing/{T}/{kind}", f"transferred {typ} #{h} refers to {T} '{v}' which is not in the target")


# ================================================================== one oracle case
def gen_case(rng, i: int):
    sver = rng.choice(VERSIONS)
    # the target must not be older than the source (documented precondition of the Loader)
    tver = rng.choice([v for v in VERSIONS if VERSIONS.index(v) >= VERSIONS.index(sver)])
    op = OPS[i % len(OPS)] if i < 4 * len(OPS) else rng.choice(OPS)
    feats = pick_features(rng)
    if op == "psp" and "paperspace" not in feats:
        feats = sorted(feats + ["paperspace"])
    if op in ("block_into", "detach_embed") and not ({"blocks", "nested", "attribs"} & set(feats)):
        feats = sorted(feats + ["blocks"])
    if op == "importer":
        feats = sorted(set(feats) & set(IMPORTER_FEATURES)) or ["blocks"]
    return {
        "seed": rng.randrange(1 << 30), "sver": sver, "tver": tver, "op": op, "policy": POLICIES[i % 3] if i < 30 else rng.choice(POLICIES),
        "feats": feats, "clash": sorted(rng.sample(CLASH, rng.randint(0, 7))), "named": rng.random() < 0.5,
    }


def crash_site(e):
    import traceback

    fr = [f for f in traceback.extract_tb(e.__traceback__) if "/ezdxf/" in f.filename]
    return f"{os.path.basename(fr[-1].filename)[:-3]}.{fr[-1].name}" if fr else None


def attribute(fails, an):
    """derived symptoms are re-keyed under their cause so that a known-finding entry matches one defect only"""
    out = []
    if any(k.startswith("target-invalid/duplicate handle") for k, _ in fails):
        w = next(w for k, w in fails if k.startswith("target-invalid/duplicate handle"))
        keep = [(k, w_) for k, w_ in fails if k.split("/")[0] in ("source-changed", "leak", "crash")]
        return keep + [("shared-copy/entity-in-two-layouts", "one copy was added to two layouts of the target (content of a block loaded into a layout "
                        "while the same block is also transferred as block definition): " + w)]
    for k, w in fails:
        if not k.startswith("orphan-block/") and (any(f"#{h}" in w.replace("(#", " #").replace(")", " ") + " " and (f"#{h} " in w.replace(")", " ") + " " or f"#{h})" in w) for h in an.orphan_handles)
                                                or any(f"block {n}" in w for n in an.orphan_names)):
            k = "orphan-block/derived/" + k
        elif not k.startswith("resource-missing/") and (any(f"'{n}'" in w or f" {n} " in w for n in an.case_names)
                                                        or any(f"(#{h})" in w or f"#{h} " in w for h in an.orphan_or_case_handles)):
            k = "case-variant/derived/" + k
        out.append((k, w))
    return out


def embed_back(host, detached, info, spec, rng, tmpdir):
    """second half of detach_embed: save the detached document, embed it back into the host block"""
    import ezdxf
    from ezdxf import xref
    from ezdxf.xref import ConflictPolicy

    fails, seen = [], set()

    def report(key, what):
        if key not in seen:
            seen.add(key)
            fails.append((key, "embed(): " + what))

    an = Analysis(report)
    path = os.path.join(tmpdir, "detached.dxf")
    detached.saveas(path)
    loaded = []

    def load(fn):
        d = ezdxf.readfile(fn)
        loaded.append(d)
        return d

    blk = host.blocks.get(info["block"])
    tb = Snap(host)
    policy = spec["policy"]
    with Capture() as cap:
        try:
            xref.embed(blk, load_fn=load, conflict_policy=getattr(ConflictPolicy, policy))
        except Exception as e:  # noqa
            site = crash_site(e)
            if site is None:
                raise
            report(f"crash/{type(e).__name__}/{site}/{policy}", f"embed with {policy} raised {type(e).__name__}: {e} at {site}")
            return fails
    if not cap.transfers or not loaded:
        return fails
    tr = cap.transfers[-1]
    sdoc = loaded[0]
    sp = Snap(sdoc, as_version=host.dxfversion)
    ta = Snap(host)
    sigma = {norm(k): norm(v) for k, v in tr.handle_mapping.items()}
    # embed() resets the XREF flags / path and sets the base point of the host BLOCK entity by design
    an.target_valid(host, tb, ta, sp, may_change={norm(blk.block.dxf.handle)})
    info2 = {"anchors": {sdoc.modelspace().block_record_handle: blk.block_record_handle}, "target_layout": blk,
             "loaded": [e.dxf.handle for e in sdoc.modelspace()]}
    sig = an.pairs(sigma, info2, policy, tr.xref_prefix, sp, tb, ta)
    an.order_and_resources(info2, sig, sp, tb, ta, copy_errors={norm(h) for h in tr.copy_errors})
    return attribute(fails, an)


def run_case(spec, tmpdir=None):
    """-> (failures: list[(key, what)], stats, error or None)"""
    rng = random.Random(spec["seed"])
    own_tmp = None
    if tmpdir is None:
        own_tmp = tempfile.TemporaryDirectory(dir=os.environ.get("VERIF_SCRATCH"))
        tmpdir = own_tmp.name
    fails = []
    seen = set()

    def report(key, what):
        if key not in seen:
            seen.add(key)
            fails.append((key, what))

    an = Analysis(report)
    try:
        xname = "xr" if spec["named"] else ""
        src = build_source(spec["sver"], spec["feats"], rng, filename=os.path.join(tmpdir, "xr.dxf") if spec["named"] else None)
        op, policy = spec["op"], spec["policy"]
        tgt = None
        if op not in ("write_block", "detach_embed"):
            tgt = build_target(spec["tver"], spec["clash"], rng, xname)
        Snap(src)  # warm-up export: export itself may normalise attributes of the source
        sb = Snap(src)
        tb = Snap(tgt) if tgt is not None else None
        if op == "importer":
            from ezdxf.addons.importer import Importer

            try:
                imp = Importer(src, tgt)
                imp.import_modelspace()
                if rng.random() < 0.5:
                    imp.import_tables("*")
                if "paperspace" in spec["feats"] and rng.random() < 0.5:
                    imp.import_paperspace_layout("Sheet A")
                imp.finalize()
            except Exception as e:  # noqa
                site = crash_site(e)
                if site is None:
                    raise
                report(f"crash/{type(e).__name__}/{site}/importer", f"Importer raised {type(e).__name__}: {e} at {site}")
                return fails, an.stats, None
            sa, ta = Snap(src), Snap(tgt)
            an.source_unchanged(sb, sa)
            an.target_valid(tgt, tb, ta, sb)
            fails[:] = [("importer/" + k, w) for k, w in fails]
            return fails, an.stats, None
        with Capture() as cap:
            try:
                info = run_transfer(op, src, tgt, policy, rng, tmpdir)
            except Exception as e:  # noqa
                site = crash_site(e)
                if site is None:
                    raise
                report(f"crash/{type(e).__name__}/{site}/{policy}", f"{op} with {policy} raised {type(e).__name__}: {e} at {site}")
                return fails, an.stats, None
        if not cap.transfers:
            return fails, an.stats, "no transfer captured"
        tr = cap.transfers[-1]
        sigma = {norm(k): norm(v) for k, v in tr.handle_mapping.items()}
        tdoc = info["tgt"]
        for k, v in tr._alloc.items():   # copies that were placed although their block definition was not taken over
            e_ = tdoc.entitydb.get(v)
            if norm(k) not in sigma and e_ is not None and e_.is_alive and e_.dxf.owner is not None:
                sigma[norm(k)] = norm(v)
        sa = Snap(src)
        ta = Snap(tdoc)
        if op in ("write_block", "detach_embed"):
            policy = "KEEP"  # detach() uses KEEP, write_block the default policy of Loader (KEEP)
        xref_used = tr.xref_prefix
        if op != "detach_embed":   # detach() converts the block of the source into an XREF by design
            an.source_unchanged(sb, sa)
        an.target_valid(tdoc, tb, ta, sb)
        if op == "psp":
            sl = src.layouts.get(info["psp"])
            tl = tr.get_reference_of_copy(sl.dxf_layout.dxf.handle)
            if tl is not None and tl.is_alive:
                tlay = tdoc.paperspace(tl.dxf.name)
                info["anchors"][sl.block_record_handle] = tlay.block_record_handle
                info["target_layout"] = tlay
        sp = Snap(src, as_version=tdoc.dxfversion) if tdoc.dxfversion != src.dxfversion else sa
        sig = an.pairs(sigma, info, policy, xref_used, sp, tb, ta)
        an.order_and_resources(info, sig, sp, tb, ta, copy_errors={norm(h) for h in tr.copy_errors})
        if tr.copy_errors:
            an.stat("copy-errors", len(tr.copy_errors))
        an.stat("sigma", len(sigma))
        fails[:] = attribute(fails, an)
        if op == "detach_embed":
            fails += embed_back(src, tdoc, info, spec, rng, tmpdir)
    finally:
        if own_tmp:
            own_tmp.cleanup()
    return fails, an.stats, None


# ================================================================== correspondence: model (Lean driver) vs real functions
PTR_CODES = [0, 1, 5, 105, 319, 320, 325, 329, 330, 331, 339, 340, 345, 349, 350, 355, 359, 360, 365, 369, 370, 389, 390,
             395, 399, 400, 479, 480, 481, 482, 1000, 1003, 1004, 1005, 1006, 1071]


def scps(s: str) -> str:
    return cps(s)


def enc_sigma(d: dict) -> str:
    return ";".join(f"{cps(k)}>{cps(v)}" for k, v in d.items())


def enc_tags(tags) -> str:
    return ";".join(f"{c}:{cps(str(v))}" for c, v in tags)


def gen_handles(rng, n, base=0x100):
    return ["%X" % (base + i * rng.randint(1, 3)) for i in range(n)]


def corr_pointers(ctx, cases):
    """X1: _Transfer.map_pointers / DXFEntity.map_resources (XDATA, reactors) / map_existing_handle"""
    import ezdxf
    from ezdxf import xref
    from ezdxf.lldxf.tags import Tags
    from ezdxf.lldxf.types import DXFTag
    from ezdxf.entities import DXFEntity, Line, Layer

    rng = ctx.rng("x1")
    sdoc, tdoc = ezdxf.new(), ezdxf.new()
    objs = [tdoc.rootdict.add_xrecord(f"VX{i}") for i in range(5)]
    dbh = [o.dxf.handle for o in objs]
    reg = xref._Registry(sdoc, tdoc)
    n = ctx.n(1500, 20000)
    codes_all = list(range(0, 1072))
    for i in range(n):
        src_handles = gen_handles(rng, rng.randint(0, 6), 0xA000)
        pool = dbh + ["0", "FFF0", "FFF1", ""]
        sigma = {h: rng.choice(pool[:7]) for h in src_handles if rng.random() < 0.8}
        tr = xref._Transfer(registry=reg, copies={}, objects={}, handle_mapping=dict(sigma), copy_errors=set())
        vals = src_handles + ["0", "BEEF", "", "A000"] + dbh[:2]
        k = rng.randint(0, 10)
        tags = [(rng.choice(PTR_CODES) if rng.random() < 0.8 else rng.choice(codes_all), rng.choice(vals)) for _ in range(k)]
        kind = i % 4
        if kind == 0 or kind == 1:
            owner = rng.choice(["", "", "1F", dbh[0]])
            for o in objs:
                o.dxf.owner = "C"
            real = Tags([DXFTag(c, v) for c, v in tags])
            tr.map_pointers(real, new_owner_handle=owner)
            changed = sorted((o.dxf.handle for o in objs if o.dxf.owner != "C"), key=lambda h: [ord(ch) for ch in h])
            if owner == "C":
                changed = []
            impl = enc_tags([(t.code, t.value) for t in real]) + "|" + ";".join(cps(h) for h in changed)
            req = f"mp|{cps(owner)}|{';'.join(cps(h) for h in dbh)}|{enc_sigma(sigma)}|{enc_tags(tags)}"
            nontriv = any(is_ptr(c) or is_arbitrary(c) for c, _ in tags)
            ctx.hist("X1 pointers", "map_pointers")
        elif kind == 2:
            xt = [(rng.choice([1000, 1003, 1005, 1005, 1070, 1002, 1004]), rng.choice(vals + ["L1", "L2"])) for _ in range(k)]
            xt = [(c, v if c not in (1070,) else 7) for c, v in xt]
            lay = {"L1": "x$0$L1"} if rng.random() < 0.6 else {}
            tr.layer_mapping.update(lay)
            tr.layer_mapping.update({k.lower(): v for k, v in lay.items()})   # key form of either revision of the code
            e = Line.new(handle="A0FF", dxfattribs={"layer": "0"})
            e.set_xdata("VAPP", xt)
            rs = [rng.choice(vals[:-3] or ["0"]) for _ in range(rng.randint(0, 4))]
            rs = [r for r in rs if r]
            if rs:
                e.set_reactors(rs)
            clone = e.copy()
            DXFEntity.map_resources(e, clone, tr)
            got = [(t.code, t.value) for t in clone.xdata.get("VAPP")][1:]
            impl = enc_tags(got)
            req = f"mx|{enc_sigma(sigma)}|{enc_sigma(lay)}|{enc_tags(xt)}"
            cases.append((req, impl, any(c in (1005, 1003) for c, _ in xt)))
            rr = clone.reactors.reactors if clone.reactors else None
            impl = "none" if rr is None else "set " + ";".join(cps(h) for h in sorted(set(rr), key=lambda h: [ord(ch) for ch in h]))
            req = f"mr|{enc_sigma(sigma)}|{';'.join(cps(h) for h in rs)}"
            nontriv = bool(rs)
            ctx.hist("X1 pointers", "xdata+reactors")
        else:
            present = rng.random() < 0.8
            h = rng.choice(vals)
            opt = rng.random() < 0.5
            s_ = Layer.new(handle="A0FE", dxfattribs={"name": "S", **({"material_handle": h} if present else {})})
            c_ = Layer.new(handle="20FE", dxfattribs={"name": "S", "material_handle": "SENTINEL"})
            tr.map_existing_handle(s_, c_, "material_handle", optional=opt)
            v = c_.dxf.get("material_handle")
            impl = "discarded" if v is None else ("untouched" if v == "SENTINEL" else "set " + cps(v))
            req = f"me|{enc_sigma(sigma)}|{int(present)}|{cps(h)}|{int(opt)}"
            nontriv = present and h != ""
            ctx.hist("X1 pointers", "map_existing_handle")
        cases.append((req, impl, nontriv))


NAME_ALPHA = "ABab019_$-"


def gen_name(rng):
    base = rng.choice(["L1", "l1", "A", "a", "Ab", "$0$A", "X", "0", "Defpoints", "DEFPOINTS", "STANDARD", "Standard", "B_A"])
    if rng.random() < 0.3:
        base = "".join(rng.choice(NAME_ALPHA) for _ in range(rng.randint(1, 4)))
    return base


def corr_unique(ctx, cases):
    """X2: get_unique_table_name on a real LayerTable, get_unique_dict_key on a real Dictionary"""
    import ezdxf
    from ezdxf import xref

    rng = ctx.rng("x2")
    doc = ezdxf.new()
    d = doc.rootdict.add_new_dict("VTEST")
    ph = doc.objects.add_placeholder(owner=d.dxf.handle)
    for i in range(ctx.n(1200, 15000)):
        name = gen_name(rng)
        xr = rng.choice(["", "", "x", "X", "ref", "$0"])
        k = rng.choice([0, 1, 2, 3, 5, 8, 12])
        # occupy a prefix of the candidate sequence (both letter cases) plus unrelated names
        occ = []
        for j in range(k):
            cand = f"{xr}${j}${name}"
            if rng.random() < 0.9:
                occ.append(cand.upper() if rng.random() < 0.4 else cand.lower() if rng.random() < 0.5 else cand)
        occ += [gen_name(rng) for _ in range(rng.randint(0, 3))]
        if i % 2 == 0:
            added = []
            for o in occ:
                if not doc.layers.has_entry(o):
                    doc.layers.add(o)
                    added.append(o)
            keys = [l.dxf.name.lower() for l in doc.layers]
            impl = cps(xref.get_unique_table_name(name, xr, doc.layers))
            for o in added:
                doc.layers.remove(o)
            cases.append((f"un|{cps(name)}|{cps(xr)}|{';'.join(cps(x) for x in keys)}", impl, k > 0))
            ctx.hist("X2 unique names", f"table/{min(k, 9)}")
        else:
            for o in occ:
                d.add(o, ph)
            keys = list(d.keys())
            impl = cps(xref.get_unique_dict_key(name, xr, d))
            for o in set(occ):
                d.discard(o)
            cases.append((f"ud|{cps(name)}|{cps(xr)}|{';'.join(cps(x) for x in keys)}", impl, k > 0))
            ctx.hist("X2 unique names", f"dict/{min(k, 9)}")


def corr_policy(ctx, cases):
    """X3: the conflict-policy decisions of a real Loader run over generated name sets"""
    import ezdxf
    from ezdxf import xref
    from ezdxf.xref import ConflictPolicy, Loader
    from ezdxf.lldxf import const

    rng = ctx.rng("x3")
    kinds = ["layer", "ltype", "table", "table", "block", "material", "standard"]
    skipped = 0
    for i in range(ctx.n(260, 3000)):
        kind = kinds[i % len(kinds)]
        policy = POLICIES[(i // len(kinds)) % 3]
        xr = rng.choice(["", "x", "Ref"])
        sdoc, tdoc = ezdxf.new(), ezdxf.new()
        sub = None
        specials = {"layer": ["0", "Defpoints", "DEFPOINTS", "*ADSK_X"], "ltype": ["Continuous", "BYLAYER", "ByBlock", "CONTINUOUS"],
                    "table": ["Standard", "STANDARD"], "block": ["*U1", "*D7", "*", "_ARROW"], "material": ["Global", "ByLayer", "GLOBAL"],
                    "standard": ["Standard", "STANDARD"]}[kind]

        def names(n):
            out = []
            for _ in range(n):
                nm = rng.choice(specials) if rng.random() < 0.3 else gen_name(rng)
                if kind == "block":
                    nm = nm.replace("$", "S") if False else nm
                out.append(nm)
            return out

        if kind == "layer":
            st, tt, load = sdoc.layers, tdoc.layers, "load_layers"
            add = lambda t, n: t.add(n)
        elif kind == "ltype":
            st, tt, load = sdoc.linetypes, tdoc.linetypes, "load_linetypes"
            add = lambda t, n: t.add(n, pattern=[0.2, 0.1, -0.1])
        elif kind == "table":
            which = rng.choice(["styles", "dimstyles"])
            st, tt = getattr(sdoc, which), getattr(tdoc, which)
            load = "load_text_styles" if which == "styles" else "load_dim_styles"
            add = (lambda t, n: t.add(n, font="txt.shx")) if which == "styles" else (lambda t, n: t.new(n))
        elif kind == "block":
            st, tt, load = sdoc.block_records, tdoc.block_records, None
            add = None
        elif kind == "material":
            st, tt, load = sdoc.materials, tdoc.materials, "load_materials"
            add = lambda t, n: t.new(n)
        else:
            which = rng.choice(["mline_styles", "mleader_styles"])
            st, tt = getattr(sdoc, which), getattr(tdoc, which)
            load = "load_" + which
            add = (lambda t, n: t.new(n)) if which == "mline_styles" else (lambda t, n: t.duplicate_entry("Standard", n))
        has = (lambda t, n: t.has_entry(n))
        tnames, snames = names(rng.randint(0, 5)), names(rng.randint(1, 5))
        # prefixed variants occupy the first candidate slots now and then
        for nm in list(snames):
            if rng.random() < 0.3:
                tnames.append(f"{xr if policy == 'XREF_PREFIX' else ''}$0${nm}")
        try:
            for nm in tnames:
                if kind == "block":
                    if not nm.startswith("*") and nm not in tdoc.blocks:
                        tdoc.blocks.new(nm)
                elif not has(tt, nm):
                    add(tt, nm)
            used = []
            for nm in snames:
                if kind == "block":
                    if nm in sdoc.blocks or nm == "*":
                        continue
                    if nm.startswith("*"):
                        b = sdoc.blocks.new_anonymous_block(nm[1])
                        nm = b.name
                    else:
                        sdoc.blocks.new(nm).add_line((0, 0), (1, 1))
                    used.append(nm)
                else:
                    if not has(st, nm):
                        add(st, nm)
                        used.append(nm)
                    elif nm.lower() in [s.lower() for s in specials] and nm not in used and st.get(nm) is not None:
                        used.append(nm)
        except Exception:  # invalid generated name for this table type
            skipped += 1
            continue
        if not used:
            continue
        if kind in ("material", "standard"):
            before = [(k, int(e.dxf.handle, 16)) for k, e in tt]
        else:
            before = [(e.dxf.name.lower(), int(e.dxf.handle, 16)) for e in tt]
        before_handles = {h for _, h in before}
        src_entries = []
        for nm in used:
            e = st.get(nm)
            src_entries.append((e.dxf.name, e.dxf.handle))
        loader = Loader(sdoc, tdoc, conflict_policy=getattr(ConflictPolicy, policy))
        if kind == "block":
            for nm in used:
                loader.load_block_layout(sdoc.blocks.get(nm))
        else:
            getattr(loader, load)(used)
        with Capture() as cap:
            try:
                loader.execute(xref_prefix=xr)
            except AttributeError as e:
                if "destroy" in str(e):
                    ctx.hist("X3 policy", "skipped: known crash (KEEP + block clash)")
                    continue
                raise
            except const.DXFValueError as e:
                if "Invalid value" not in str(e):
                    raise
                req = (f"pol|{kind}|{policy}|{cps(xr)}|{';'.join(f'{cps(k)}:{h}' for k, h in before)}|"
                       f"{';'.join(f'{cps(n)}:{int(h, 16) + 0x100000}' for n, h in src_entries)}")
                cases.append((req, "RAISE DXFValueError", True))
                ctx.hist("X3 policy", f"{kind}/{policy}/invalid-name")
                continue
        tr = cap.transfers[-1]
        decs = []
        order = [h for h in tr.copied_blocks["0"] if any(h == sh for _, sh in src_entries)] if kind not in ("material", "standard") else \
            [h for h in tr.copied_objects if any(h == sh for _, sh in src_entries)]
        by_handle = {sh: nm for nm, sh in src_entries}
        seq = []
        for sh in order:
            nm = by_handle[sh]
            th = tr.handle_mapping.get(sh)
            ent = tdoc.entitydb.get(th) if th else None
            hnum = int(th, 16) if th else 0
            seq.append((nm, int(sh, 16) + 0x100000))
            if ent is None:
                decs.append("E")
            elif hnum in before_handles:
                decs.append(f"U{hnum}")
            else:
                newname = ent.dxf.name
                if kind == "block" and nm.startswith("*") and len(nm) > 1:
                    newname = "*" + newname[1] + "?" if newname.upper().startswith("*" + nm[1].upper()) and newname not in [b for b, _ in before] else newname
                decs.append("A" + cps(newname))
        if kind in ("material", "standard"):
            after = [k for k, e in tt]
        else:
            after = [e.dxf.name.lower() for e in tt]
        if kind == "block":
            # anonymous names are chosen by the target's counter: compare the form only
            after = [("*" + a[1] + "?") if (a.startswith("*") and a not in [b for b, _ in before] and len(a) > 1) else a for a in after]
        impl = ";".join(decs) + "|" + ";".join(cps(a) for a in after)
        req = (f"pol|{kind}|{policy}|{cps(xr)}|{';'.join(f'{cps(k)}:{h}' for k, h in before)}|"
               f"{';'.join(f'{cps(n)}:{h}' for n, h in seq)}")
        clash = any(n.lower() in [b.lower() for b, _ in before] for n, _ in seq)
        cases.append((req, impl, clash or policy == "XREF_PREFIX"))
        ctx.hist("X3 policy", f"{kind}/{policy}")
    if skipped:
        ctx.hist("X3 policy", "skipped: name rejected by the table", skipped)


def abstract_node(e, db):
    """(kind letter, owner, xdata-1005 pointers, block, endblk, content) of a real entity"""
    from ezdxf.entities import BlockRecord, Block, EndBlk, is_graphic_entity, is_dxf_object

    def hx(v):
        try:
            return int(str(v), 16)
        except (TypeError, ValueError):
            return 0

    if isinstance(e, BlockRecord):
        k = "r"
    elif isinstance(e, Block):
        k = "b"
    elif isinstance(e, EndBlk):
        k = "e"
    elif is_graphic_entity(e):
        k = "g"
    elif is_dxf_object(e):
        k = "o"
    else:
        k = "t"
    ptrs = []
    if e.xdata:
        for tags in e.xdata.data.values():
            ptrs += [hx(t.value) for t in tags if t.code == 1005]
    b = en = 0
    content = []
    if k == "r":
        b = hx(e.block.dxf.handle) if e.block is not None else 0
        en = hx(e.endblk.dxf.handle) if e.endblk is not None else 0
        content = [hx(x.dxf.handle) for x in e.entity_space]
    return k, hx(e.dxf.owner) if e.dxf.owner else 0, ptrs, b, en, content


def corr_transfer(ctx, cases):
    """X4: the abstract transfer of Model/Xref.lean §5 against real Loader runs: which copies survive, the redirected
    handle mapping, the XDATA handle fields of every copy, BLOCK/ENDBLK/content of every copied block record"""
    from ezdxf.entities import (Layer, Linetype, Textstyle, DimStyle, BlockRecord, UCSTableEntry, Material, MLineStyle,
                                MLeaderStyle, VisualStyle)

    rng = ctx.rng("x4")
    tmp = tempfile.TemporaryDirectory(dir=str(ctx.scratch))
    n = ctx.n(70, 700)
    ops = ["msp", "msp_filter", "loader_mix", "block_into", "resources", "psp"]
    for i in range(n):
        spec = gen_case(rng, i)
        spec["op"] = ops[i % len(ops)]
        feats = (set(spec["feats"]) | {"xdata"}) - {"adsk_layer"}   # the layer-name validator is X3's subject
        if spec["op"] == "psp":
            feats.add("paperspace")
        if spec["op"] == "block_into":
            feats.add("blocks")
        if i % 3 == 0:
            feats |= {"blocks", "nested"}
            spec["clash"] = sorted(set(spec["clash"]) | {"block"})
        crng = random.Random(spec["seed"])
        src = build_source(spec["sver"], sorted(feats), crng)
        tgt = build_target(spec["tver"], spec["clash"], crng, "")
        tgt_before = [int(h, 16) for h in tgt.entitydb.keys()]
        tgt_br = {int(b.dxf.handle, 16) for b in tgt.block_records}
        err = None
        loaded = {}
        with Capture() as cap:
            try:
                loaded = run_transfer(spec["op"], src, tgt, spec["policy"], crng, tmp.name)
            except AttributeError as e:
                if "destroy" not in str(e):
                    raise
                err = "err AttributeError"
        tr = (cap.transfers or cap.started)[-1]
        alloc = {s: c for s, c in tr._alloc.items() if src.entitydb.get(s) is not None}
        snodes = []
        for s in alloc:
            k, o, ptrs, b, en, content = abstract_node(src.entitydb.get(s), src.entitydb)
            snodes.append(f"{int(s, 16)},{k},{o},{' '.join(map(str, ptrs))},{b},{en},{' '.join(map(str, content))}")
        tnodes = [f"{h},{'r' if h in tgt_br else 'o'},0,,0,0," for h in tgt_before]
        sig = ";".join(f"{int(s, 16)}>{int(c, 16)}" for s, c in alloc.items())
        regs = []
        shape = set()
        for s, c in alloc.items():
            e = src.entitydb.get(s)
            if isinstance(e, (Layer, Linetype, Textstyle, DimStyle, BlockRecord, UCSTableEntry, Material, MLineStyle, MLeaderStyle, VisualStyle)):
                if c in tr._replace_handles:
                    regs.append(f"{int(s, 16)}:K{int(tr._replace_handles[c], 16)}")
                    if isinstance(e, Textstyle) and e.is_shape_file:
                        shape.add(c)
                else:
                    regs.append(f"{int(s, 16)}:A")
        # the copies the loading commands put into a layout: the entities the harness asked to load
        placed = [int(alloc[h], 16) for h in (loaded.get("loaded") or []) if h in alloc]
        req = f"tr|{';'.join(snodes)}|{';'.join(tnodes)}|{sig}|{';'.join(regs)}|{' '.join(map(str, placed))}"
        if err:
            impl = err
        else:
            out = []
            for s, c in alloc.items():
                ce = tgt.entitydb.get(c)
                if ce is None or not ce.is_alive or c in shape:
                    continue
                k, o, ptrs, b, en, content = abstract_node(ce, tgt.entitydb)
                out.append(f"{int(c, 16)},{' '.join(map(str, ptrs))},{b},{en},{' '.join(map(str, content))}")
            sig2 = ";".join(f"{int(s, 16)}>{int(tr.handle_mapping.get(s, '0'), 16)}" for s in alloc)
            same = all(abstract_node(src.entitydb.get(s), src.entitydb) == tuple(x) for s, x in
                       ((s, abstract_node(src.entitydb.get(s), src.entitydb)) for s in alloc))
            impl = "ok " + ";".join(out) + "|" + sig2 + "|src-same"
        cases.append((req, impl, bool(tr._replace_handles) or any("," in x and x.split(",")[3] for x in snodes)))
        ctx.hist("X4 abstract transfer", f"{spec['op']}/{spec['policy']}" + ("/crash" if err else ""))
    tmp.cleanup()


def correspond(ctx):
    for name, fn in (("X1 pointers", corr_pointers), ("X2 unique names", corr_unique), ("X3 policy", corr_policy),
                     ("X4 abstract transfer", corr_transfer)):
        cases = []
        fn(ctx, cases)
        ctx.correspond(name, "C17", cases, build=DRIVER_DEPS)


# ================================================================== oracle
FIXED_CASES = [
    # F14, minimal: block INNER + INSERT in the source, block INNER in the target, default policy
    {"fixed": "f14"},
]


def run_fixed(name):
    import ezdxf
    from ezdxf import xref

    fails = []
    if name == "f14":
        for pol in POLICIES:
            src = ezdxf.new()
            src.blocks.new("INNER").add_line((0, 0), (1, 1))
            src.modelspace().add_blockref("INNER", (0, 0))
            tgt = ezdxf.new()
            tgt.blocks.new("INNER").add_circle((0, 0), 1)
            try:
                xref.load_modelspace(src, tgt, conflict_policy=getattr(xref.ConflictPolicy, pol))
                ins = tgt.modelspace()[0]
                want = {"KEEP": "INNER", "XREF_PREFIX": "$0$INNER", "NUM_PREFIX": "$0$INNER"}[pol]
                kinds = [e.dxftype() for e in tgt.blocks.get(ins.dxf.name)]
                if ins.dxf.name != want or kinds != (["CIRCLE"] if pol == "KEEP" else ["LINE"]):
                    fails.append((f"policy/{pol}/BLOCK_RECORD/minimal", f"INSERT refers to {ins.dxf.name} holding {kinds}"))
                aud = tgt.audit()
                for e in list(aud.errors) + list(aud.fixes):
                    fails.append((f"audit/{squash(e.message)}", f"minimal block clash, {pol}: {e.message}"))
            except Exception as e:  # noqa
                site = crash_site(e)
                if site is None:
                    raise
                fails.append((f"crash/{type(e).__name__}/{site}/{pol}", f"load_modelspace with {pol}, block name clash: {type(e).__name__}: {e}"))
    return fails


def oracle(ctx):
    os.environ["VERIF_SCRATCH"] = str(ctx.scratch)
    for fc in FIXED_CASES:
        for k, w in run_fixed(fc["fixed"]):
            ctx.fail(k, w, {"fixed": fc["fixed"]})
        ctx.count("O1 transfer oracle", repr(fc), True)
    rng = ctx.rng("oracle")
    n = ctx.n(330, 6000)
    stats = {}
    for i in range(n):
        spec = gen_case(rng, i)
        fails, st, err = run_case(spec)
        if err:
            ctx.note(f"oracle case without captured transfer: {err} {spec}")
        for k, v in st.items():
            if k.startswith(("unified", "nulled", "dropped-pointer", "arbitrary", "mapped-to-existing", "discarded", "copy-errors")):
                stats[k] = stats.get(k, 0) + v
        ctx.count("O1 transfer oracle", repr(sorted(spec.items())), bool(spec["clash"]) or spec["policy"] != "KEEP",
                  sample={"spec": {k: spec[k] for k in ("op", "policy", "sver", "tver", "feats", "clash")}, "failures": [k for k, _ in fails][:5]})
        ctx.hist("O1 transfer oracle", f"{spec['op']}/{spec['policy']}")
        ctx.hist("O1 transfer oracle", f"versions {spec['sver']}->{spec['tver']}")
        for k, w in fails:
            ctx.fail(k, f"{w}   [op={spec['op']} policy={spec['policy']} {spec['sver']}->{spec['tver']} features={','.join(spec['feats'])} clash={','.join(spec['clash'])}]", {"spec": spec})
    ctx.note("oracle bookkeeping (not failures): " + ", ".join(f"{k}={v}" for k, v in sorted(stats.items())))


def replay(ctx, rep):
    bad = []
    for f in rep.get("failing_inputs", []):
        r = f["replay"]
        if "fixed" in r:
            fails = run_fixed(r["fixed"])
        else:
            fails, _, _ = run_case(r["spec"])
        if any(k == f["key"] for k, _ in fails):
            bad.append(f["key"])
    return (not bad, "; ".join(bad) or "all recorded failing inputs pass now")
